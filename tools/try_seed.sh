#!/bin/sh
# Maintainer helper: apply a seeded patch to /repo, run the given checks (quick tier), undo.  usage: try_seed.sh <patch> Cxx [Cyy...]
P=$1; shift
git -C /repo apply $P 2>/dev/null || git -C /repo apply -3 $P 2>/dev/null || { echo "PATCH DOES NOT APPLY"; exit 9; }
for c in "$@"; do echo "== $c"; (cd /verif && timeout 1200 python3 tools/run_check.py $c --tier ${TIER:-quick} 2>&1 | grep -v "^  detail" | cut -c1-260 | head -${LINES_MAX:-12}; ); done
git -C /repo reset -q --hard HEAD
