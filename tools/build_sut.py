#!/usr/bin/env python3
"""Build the system under test (SoftHSMv2 from /repo's *working tree*) in one of the variants of
DESIGN.md 2.1, together with the harness programs that are linked statically against it.

  build_sut.py <variant> [<variant> ...]      variants: ossl-plain ossl-asan ossl-tsan botan-plain

The file list is globbed from the working tree on every call, a ninja file is (re)written under
/verif/build/<variant>/ and ninja recompiles what changed (depfiles).  No CMake: see DESIGN 2.1.
"""
import glob, os, subprocess, sys, fcntl

VERIF = os.path.dirname(os.path.dirname(os.path.abspath(__file__)))
REPO = os.environ.get("VERIF_REPO", "/repo")
BUILD = os.environ.get("VERIF_BUILD", os.path.join(VERIF, "build"))

VARIANTS = {
    "ossl-plain": dict(crypto="ossl", cxx="g++", flags="-O2 -g1", ld=""),
    "ossl-asan": dict(crypto="ossl", cxx="g++",
                      flags="-O1 -g1 -fsanitize=address -fno-omit-frame-pointer -fsanitize-recover=address",
                      ld="-fsanitize=address"),
    "ossl-tsan": dict(crypto="ossl", cxx="g++", flags="-O1 -g1 -fsanitize=thread", ld="-fsanitize=thread"),
    "botan-plain": dict(crypto="botan", cxx="g++", flags="-O2 -g1", ld=""),
}

LIB_SUBDIRS = ["", "common", "crypto", "data_mgr", "handle_mgr", "object_store", "session_mgr", "slot_mgr"]


def lib_sources(crypto):
    out = []
    for sd in LIB_SUBDIRS:
        for f in sorted(glob.glob(os.path.join(REPO, "src/lib", sd, "*.cpp"))):
            b = os.path.basename(f)
            if crypto == "ossl" and b.startswith("Botan"):
                continue
            if crypto == "botan" and b.startswith("OSSL"):
                continue
            out.append(f)
    return out


def util_sources(crypto):
    out = [os.path.join(REPO, "src/bin/util/softhsm2-util.cpp"),
           os.path.join(REPO, "src/bin/util/softhsm2-util-%s.cpp" % ("ossl" if crypto == "ossl" else "botan"))]
    out += sorted(glob.glob(os.path.join(REPO, "src/bin/common/*.cpp")))
    return out


def harness_sources():
    """(program name, [sources], extra cxx flags, needs_lib) of the harness programs."""
    e = os.path.join(VERIF, "engine")
    progs = []
    if os.path.exists(os.path.join(e, "p11sh/p11sh.cpp")):
        progs.append(("p11sh", sorted(glob.glob(os.path.join(e, "p11sh/*.cpp"))), "", True))
    if os.path.exists(os.path.join(e, "thrmc/thrmc.cpp")):
        progs.append(("thrmc", [os.path.join(e, "thrmc/thrmc.cpp")], "", True))
    return progs


def obj_name(src):
    rel = src.replace(REPO + "/", "repo_").replace(VERIF + "/", "verif_")
    return "obj/" + rel.replace("/", "_").replace(".cpp", ".o")


def write_ninja(variant):
    v = VARIANTS[variant]
    bdir = os.path.join(BUILD, variant)
    os.makedirs(os.path.join(bdir, "obj"), exist_ok=True)
    cfgdir = os.path.join(VERIF, "engine/config", v["crypto"])
    incs = ["-I" + cfgdir] + ["-I" + os.path.join(REPO, "src/lib", sd) for sd in LIB_SUBDIRS + ["pkcs11"]]
    incs += ["-I" + os.path.join(REPO, "src/bin/common"), "-I" + os.path.join(REPO, "src/bin/util")]
    if v["crypto"] == "botan":
        incs.append("-I/usr/include/botan-2")
    cryptolibs = "-lcrypto" if v["crypto"] == "ossl" else "-lbotan-2 -lcrypto"
    libs = "%s -lsqlite3 -ldl -lpthread" % cryptolibs
    L = []
    L.append("cxx = %s" % v["cxx"])
    L.append("cxxflags = -std=c++17 -w -fPIC -DSOFTHSM_VERIF -DHAVE_CONFIG_H %s %s" % (v["flags"], " ".join(incs)))
    L.append("ldflags = %s" % v["ld"])
    L.append("libs = %s" % libs)
    L.append("rule cxx\n  command = $cxx $cxxflags $extra -MMD -MF $out.d -c $in -o $out\n  depfile = $out.d\n  deps = gcc\n  description = CXX $out")
    L.append("rule ar\n  command = rm -f $out && ar crs $out $in\n  description = AR $out")
    L.append("rule link\n  command = $cxx $ldflags -o $out $in $libs\n  description = LINK $out")
    libobjs = []
    for s in lib_sources(v["crypto"]):
        o = obj_name(s)
        libobjs.append(o)
        L.append("build %s: cxx %s" % (o, s))
    L.append("build libsofthsm2.a: ar %s" % " ".join(libobjs))
    targets = ["libsofthsm2.a"]
    # softhsm2-util (dlopen()s a module: give it the shared object)
    L.append("rule solink\n  command = $cxx $ldflags -shared -o $out $in $libs\n  description = SOLINK $out")
    L.append("build libsofthsm2.so: solink %s" % " ".join(libobjs))
    uobjs = []
    for s in util_sources(v["crypto"]):
        o = obj_name(s)
        uobjs.append(o)
        L.append("build %s: cxx %s" % (o, s))
    # the util needs a few library objects (crypto factory etc.) - link against the archive
    L.append("build softhsm2-util: link %s libsofthsm2.a" % " ".join(uobjs))
    targets += ["libsofthsm2.so", "softhsm2-util"]
    L.append("rule cc_plain\n  command = gcc -O2 -fPIC -w -c $in -o $out\n  description = CC(uninstrumented) $out")
    for name, srcs, extra, needs in harness_sources():
        objs = []
        for s in srcs:
            o = obj_name(s)
            objs.append(o)
            L.append("build %s: cxx %s\n  extra = %s" % (o, s, extra))
        if name == "p11sh":
            # hand-over primitives the sanitizers must not see (see engine/p11sh/rawsync.c)
            for s in sorted(glob.glob(os.path.join(VERIF, "engine/p11sh/*.c"))):
                o = "obj/verif_" + os.path.basename(s).replace(".c", ".plain.o")
                objs.append(o)
                L.append("build %s: cc_plain %s" % (o, s))
        L.append("build %s: link %s %s" % (name, " ".join(objs), "libsofthsm2.a" if needs else ""))
        targets.append(name)
    L.append("default %s" % " ".join(targets))
    txt = "\n".join(L) + "\n"
    p = os.path.join(bdir, "build.ninja")
    old = open(p).read() if os.path.exists(p) else None
    if old != txt:
        open(p, "w").write(txt)
    return bdir


def build(variant, quiet=True):
    os.makedirs(BUILD, exist_ok=True)
    lock = open(os.path.join(BUILD, ".lock.%s" % variant), "w")
    fcntl.flock(lock, fcntl.LOCK_EX)
    try:
        bdir = write_ninja(variant)
        r = subprocess.run(["ninja", "-C", bdir, "-j", str(os.cpu_count() or 8)],
                           stdout=subprocess.PIPE, stderr=subprocess.STDOUT, text=True)
        if r.returncode != 0:
            sys.stderr.write(r.stdout[-6000:])
            raise SystemExit("build of variant %s failed" % variant)
        if not quiet:
            print(r.stdout[-400:])
        return bdir
    finally:
        fcntl.flock(lock, fcntl.LOCK_UN)
        lock.close()


def build_fsx():
    """the ptrace-based file-system controller (independent of the SUT)"""
    os.makedirs(os.path.join(BUILD, "fsx"), exist_ok=True)
    src = os.path.join(VERIF, "engine/fsx/fsx.cpp")
    out = os.path.join(BUILD, "fsx", "fsx")
    if not os.path.exists(out) or os.path.getmtime(out) < os.path.getmtime(src):
        r = subprocess.run(["g++", "-std=c++17", "-O2", "-w", src, "-o", out + ".tmp"], stdout=subprocess.PIPE, stderr=subprocess.STDOUT, text=True)
        if r.returncode != 0:
            sys.stderr.write(r.stdout[-4000:])
            raise SystemExit("build of fsx failed")
        os.replace(out + ".tmp", out)
    return out


def build_ref():
    """the reference helper (Botan), independent of the SUT"""
    os.makedirs(os.path.join(BUILD, "ref"), exist_ok=True)
    src = os.path.join(VERIF, "engine/ref/refsh.cpp")
    out = os.path.join(BUILD, "ref", "refsh")
    if not os.path.exists(out) or os.path.getmtime(out) < os.path.getmtime(src):
        lock = open(os.path.join(BUILD, ".lock.ref"), "w")
        fcntl.flock(lock, fcntl.LOCK_EX)
        try:
            r = subprocess.run(["g++", "-std=c++17", "-O2", "-w", "-I/usr/include/botan-2", src, "-o", out + ".tmp", "-lbotan-2"],
                               stdout=subprocess.PIPE, stderr=subprocess.STDOUT, text=True)
            if r.returncode != 0:
                sys.stderr.write(r.stdout[-4000:])
                raise SystemExit("build of refsh failed")
            os.replace(out + ".tmp", out)
        finally:
            fcntl.flock(lock, fcntl.LOCK_UN)
            lock.close()
    return out


if __name__ == "__main__":
    for v in sys.argv[1:] or ["ossl-plain"]:
        print(build_ref() if v == "ref" else (build_fsx() if v == "fsx" else build(v, quiet=False)))
