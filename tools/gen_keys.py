#!/usr/bin/env python3
"""One-off generator of the fixed key material (DESIGN 2.7) with the openssl CLI; output committed as fixtures/keys.json."""
import json, re, subprocess, tempfile, os

def run(*a, inp=None):
    return subprocess.run(a, input=inp, stdout=subprocess.PIPE, stderr=subprocess.PIPE, check=True).stdout

def blocks(text):
    out = {}; cur = None
    for line in text.decode().splitlines():
        m = re.match(r'^([A-Za-z0-9 -]+):\s*(.*)$', line)
        if m and not line.startswith(' '):
            cur = m.group(1).strip(); out[cur] = ''
            rest = m.group(2).strip()
            mm = re.match(r'^(\d+) \(0x([0-9a-fA-F]+)\)', rest)
            if mm:
                h = mm.group(2); out[cur] = ('0' + h) if len(h) % 2 else h; cur = None
        elif cur and line.startswith('    '):
            out[cur] += line.strip().replace(':', '')
    return out

def strip0(h):
    b = bytes.fromhex(h)
    return b.lstrip(b'\x00').hex() or '00'

def genpkey(*opts):
    pem = run('openssl', 'genpkey', *opts)
    return pem, blocks(run('openssl', 'pkey', '-text', '-noout', inp=pem))

def der_octet(b):
    assert len(b) < 128 or len(b) < 256
    return (bytes([4, len(b)]) if len(b) < 128 else bytes([4, 0x81, len(b)])) + b

K = {}
for bits in (1024, 2048):
    pem, b = genpkey('-algorithm', 'RSA', '-pkeyopt', 'rsa_keygen_bits:%d' % bits)
    K['rsa%d' % bits] = dict(n=strip0(b['modulus']), e=strip0(b['publicExponent']), d=strip0(b['privateExponent']), p=strip0(b['prime1']),
                             q=strip0(b['prime2']), dp=strip0(b['exponent1']), dq=strip0(b['exponent2']), qinv=strip0(b['coefficient']), pem=pem.decode())
with tempfile.TemporaryDirectory() as td:
    pf = os.path.join(td, 'p.pem')
    run('openssl', 'genpkey', '-genparam', '-algorithm', 'DSA', '-pkeyopt', 'dsa_paramgen_bits:1024', '-pkeyopt', 'dsa_paramgen_q_bits:160', '-out', pf)
    pem, b = genpkey('-paramfile', pf)
    K['dsa1024'] = dict(p=strip0(b['P']), q=strip0(b['Q']), g=strip0(b['G']), x=strip0(b['priv']), y=strip0(b['pub']), pem=pem.decode())
    run('openssl', 'genpkey', '-genparam', '-algorithm', 'DH', '-pkeyopt', 'dh_paramgen_prime_len:1024', '-out', pf)
    for nm in ('dh1024', 'dh1024peer'):
        pem, b = genpkey('-paramfile', pf)
        K[nm] = dict(p=strip0(b['P']), g=strip0(b['G']), x=strip0(b['private-key']), y=strip0(b['public-key']), pem=pem.decode())
OIDS = {'P-256': '06082a8648ce3d030107', 'P-384': '06052b81040022', 'P-521': '06052b81040023'}
for curve, oid in OIDS.items():
    for nm in ('ec' + curve[2:], 'ec' + curve[2:] + 'peer'):
        pem, b = genpkey('-algorithm', 'EC', '-pkeyopt', 'ec_paramgen_curve:' + curve)
        flen = {'P-256': 32, 'P-384': 48, 'P-521': 66}[curve]
        priv = bytes.fromhex(b['priv']).lstrip(b'\x00').rjust(flen, b'\x00')
        pub = bytes.fromhex(b['pub'])
        K[nm] = dict(params=oid, point=der_octet(pub).hex(), rawpoint=pub.hex(), value=priv.hex(), pem=pem.decode())
EDOID = {'ED25519': '06032b6570', 'ED448': '06032b6571', 'X25519': '06032b656e', 'X448': '06032b656f'}
for alg, oid in EDOID.items():
    for nm in (alg.lower(), alg.lower() + 'peer'):
        pem, b = genpkey('-algorithm', alg)
        K[nm] = dict(params=oid, point=der_octet(bytes.fromhex(b['pub'])).hex(), rawpoint=b['pub'], value=b['priv'], pem=pem.decode())
json.dump(K, open(os.path.join(os.path.dirname(os.path.dirname(os.path.abspath(__file__))), 'fixtures', 'keys.json'), 'w'), indent=1, sort_keys=True)
print(sorted(K))
