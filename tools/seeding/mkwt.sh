#!/bin/sh
# usage: mkwt.sh <dir>   create a built scratch worktree of /repo HEAD
D=$1
git -C /repo worktree add --detach $D HEAD >/dev/null 2>&1 || exit 1
cd $D && cmake -G Ninja -B _build -DBUILD_TESTS=ON -DCMAKE_BUILD_TYPE=RelWithDebInfo -DENABLE_ECC=ON -DENABLE_EDDSA=ON -DENABLE_STATIC=ON -DENABLE_STRICT=ON -DWITH_CRYPTO_BACKEND=openssl > $D.cfg.log 2>&1 && cmake --build _build -j16 > $D.build.log 2>&1 && echo built $D
