import json,sys
props={json.loads(l)['id']:json.loads(l) for l in open('/verif/properties.jsonl')}
T=open('/tmp/prompt.tmpl').read()
hints={
 'C15':'; the demonstration may use two or three processes (fork/exec of a helper) synchronised with pipes so that the needed interleaving of calls is forced deterministically',
 'C16':'; the demonstration may kill a child process at a chosen point (for example with a ptrace/LD_PRELOAD shim or by making a file-system call fail or block) and then reopen the token directory in a fresh process',
 'C18':'; the demonstration should force the needed interleaving deterministically where possible - C_Initialize accepts application mutex callbacks (CreateMutex/LockMutex/UnlockMutex/DestroyMutex), which a demo can use to park one thread at a chosen lock acquisition while another runs - or else repeat the race often enough to fail reliably',
 'C17':'; think of unusual but well-formed argument values, stale handles, odd lengths, mechanism parameters, and of damaged files in the token directory or the configuration file',
 'C20':'; note that the worktree build uses OpenSSL and the file store only - the SQLite store (src/lib/object_store/DB*.cpp, configure with -DWITH_OBJECTSTORE_BACKEND_DB=ON in a second build directory) and the Botan backend (src/lib/crypto/Botan*.cpp, -DWITH_CRYPTO_BACKEND=botan) are not compiled by the default test build, so a change confined to them trivially passes the suite; build such a configuration yourself for the demonstration',
 'C14':'; softhsm2-util is built in _build/src/bin/util',
 'C05':'; make at least one of them concern persistence across a restart / new process or the on-disk encoding of an attribute kind rather than the in-process view',
 'C09':'; prefer failing paths deep inside a call (after some of its effects have been applied) over up-front argument checks',
 'C11':'; think of handle lifetime across logout, session close, object destruction and token re-initialisation',
 'C12':'; think of the Init / Update / Final / single-part protocol and the NULL-buffer / too-small-buffer length protocol of different mechanism families',
}
rnd=sys.argv[1]
for pid in sys.argv[2:]:
    open('/tmp/prompts/%s.txt'%pid,'w').write(T%dict(prop=json.dumps(props[pid],indent=1),wt='/tmp/wt%s-%s'%(rnd,pid),out='/tmp/seed%s-%s'%(rnd,pid),hint=hints.get(pid,'')))
