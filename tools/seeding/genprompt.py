import json,sys
props={json.loads(l)['id']:json.loads(l) for l in open('/verif/properties.jsonl')}
T=open('/tmp/prompt.tmpl').read()
hints={
 'C05':'; make at least one of them concern persistence across a restart / new process or the on-disk encoding of an attribute kind rather than the in-process view',
 'C09':'; prefer failing paths deep inside a call (after some of its effects have been applied) over up-front argument checks',
 'C11':'; think of handle lifetime across logout, session close, object destruction and token re-initialisation',
 'C12':'; think of the Init / Update / Final / single-part protocol and the NULL-buffer / too-small-buffer length protocol of different mechanism families',
}
rnd=sys.argv[1]
for pid in sys.argv[2:]:
    open('/tmp/prompts/%s.txt'%pid,'w').write(T%dict(prop=json.dumps(props[pid],indent=1),wt='/tmp/wt%s-%s'%(rnd,pid),out='/tmp/seed%s-%s'%(rnd,pid),hint=hints.get(pid,'')))
