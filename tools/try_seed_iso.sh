#!/bin/sh
# Maintainer helper: like try_seed.sh but fully isolated from /repo and /verif/build, so that it can run while registered checks are running:
# the patch is applied in a scratch worktree, the checks run from a scratch copy of /verif with its own build directory.
# usage: try_seed_iso.sh <abs patch | none> Cxx [Cyy...]      env: TIER, LINES_MAX, ISO (suffix: several can run side by side)
P=$1; shift
WT=/tmp/wt-seedtest${ISO:-}; VS=/tmp/vseed${ISO:-}
[ -d $WT ] || git -C /repo worktree add --detach $WT HEAD >/dev/null 2>&1
git -C $WT checkout -q --detach $(git -C /repo rev-parse HEAD); git -C $WT reset -q --hard; git -C $WT clean -qfd -e _build
if [ "$P" != none ]; then git -C $WT apply $P 2>/dev/null || git -C $WT apply -3 $P 2>/dev/null || { echo "PATCH DOES NOT APPLY"; exit 9; }; fi
mkdir -p $VS; rsync -a --delete --exclude build --exclude .git --exclude evidence --exclude replays/tmp /verif/ $VS/
for c in "$@"; do echo "== $c"; (cd $VS && VERIF_REPO=$WT timeout 2400 python3 tools/run_check.py $c --tier ${TIER:-quick} 2>&1 | grep -v "^  detail\|DEADLYSIGNAL\|^KNOWN-FINDING\|nested bug in the same thread" | cut -c1-260 | head -${LINES_MAX:-12}; ); done
git -C $WT reset -q --hard
