#!/bin/sh
# Maintainer helper (not a registered check): run the repository's own suite on a scratch worktree and compare the
# per-test results with BASELINE.json.  usage: run_baseline.sh <worktree-with-_build>   (the tree is used as it is)
set -e
WT=${1:-/tmp/wt-base}
cmake --build $WT/_build -j8 > /tmp/base_build.log 2>&1
find $WT/_build -name test-results.xml -delete
ctest --test-dir $WT/_build -j8 --timeout 900 > /tmp/base_test.log 2>&1 || true
python3 /verif/tools/baseline_compare.py $WT/_build
