#!/usr/bin/env python3
"""One-off: add to fixtures/keys.json peers whose shared secret with the fixed private keys has a LEADING ZERO byte (DH, ECDH P-256/384/521).
Pure Python big-integer arithmetic (independent of every crypto library)."""
import json, os
P = os.path.join(os.path.dirname(os.path.dirname(os.path.abspath(__file__))), "fixtures", "keys.json")
K = json.load(open(P))
CURVES = {
 "ec256": dict(p=0xffffffff00000001000000000000000000000000ffffffffffffffffffffffff, a=-3, b=0x5ac635d8aa3a93e7b3ebbd55769886bc651d06b0cc53b0f63bce3c3e27d2604b,
               gx=0x6b17d1f2e12c4247f8bce6e563a440f277037d812deb33a0f4a13945d898c296, gy=0x4fe342e2fe1a7f9b8ee7eb4a7c0f9e162bce33576b315ececbb6406837bf51f5, n=32),
 "ec384": dict(p=2**384 - 2**128 - 2**96 + 2**32 - 1, a=-3, b=0xb3312fa7e23ee7e4988e056be3f82d19181d9c6efe8141120314088f5013875ac656398d8a2ed19d2a85c8edd3ec2aef,
               gx=0xaa87ca22be8b05378eb1c71ef320ad746e1d3b628ba79b9859f741e082542a385502f25dbf55296c3a545e3872760ab7,
               gy=0x3617de4a96262c6f5d9e98bf9292dc29f8f41dbd289a147ce9da3113b5f0b8c00a60b1ce1d7e819d7a431d7c90ea0e5f, n=48),
 "ec521": dict(p=2**521 - 1, a=-3, b=0x0051953eb9618e1c9a1f929a21a0b68540eea2da725b99b315f3b8b489918ef109e156193951ec7e937b1652c0bd3bb1bf073573df883d2c34f1ef451fd46b503f00,
               gx=0x00c6858e06b70404e9cd9e3ecb662395b4429c648139053fb521f828af606b4d3dbaa14b5e77efe75928fe1dc127a2ffa8de3348b3c1856a429bf97e7e31c2e5bd66,
               gy=0x011839296a789a3bc0045c8a5fb42c7d1bd998f54449579b446817afbd17273e662c97ee72995ef42640c550b9013fad0761353c7086a272c24088be94769fd16650, n=66)}

def ec_add(c, A, B):
    if A is None: return B
    if B is None: return A
    p = c["p"]
    if A[0] == B[0] and (A[1] + B[1]) % p == 0: return None
    if A == B: l = (3 * A[0] * A[0] + c["a"]) * pow(2 * A[1], -1, p) % p
    else: l = (B[1] - A[1]) * pow(B[0] - A[0], -1, p) % p
    x = (l * l - A[0] - B[0]) % p
    return (x, (l * (A[0] - x) - A[1]) % p)

def ec_mul(c, k, A):
    R = None
    while k:
        if k & 1: R = ec_add(c, R, A)
        A = ec_add(c, A, A); k >>= 1
    return R

d = K["dh1024"]; p, g, x = int(d["p"], 16), int(d["g"], 16), int(d["x"], 16)
n = len(bytes.fromhex(d["p"]))
for k in range(2, 100000):
    y = pow(g, k, p)
    if pow(y, x, p).to_bytes(n, "big")[0] == 0:
        K["dh1024peer_lz"] = {"y": "%0*x" % (2 * n, y), "note": "peer public value g^%d: shared secret with dh1024 has a leading zero byte" % k}
        break
for name, c in CURVES.items():
    priv = int(K[name]["value"], 16); G = (c["gx"], c["gy"])
    for k in range(2, 100000):
        Q = ec_mul(c, k, G)
        S = ec_mul(c, priv, Q)
        if S[0].to_bytes(c["n"], "big")[0] == 0:
            raw = b"\x04" + Q[0].to_bytes(c["n"], "big") + Q[1].to_bytes(c["n"], "big")
            K[name + "peer_lz"] = {"rawpoint": raw.hex(), "shared_x": "%0*x" % (2 * c["n"], S[0]), "note": "peer point %d*G: shared x with %s has a leading zero byte" % (k, name)}
            break
json.dump(K, open(P, "w"), indent=1, sort_keys=True)
print({k: v.get("note") for k, v in K.items() if k.endswith("_lz")})
