#!/usr/bin/env python3
"""Entry point of every MANIFEST command:  run_check.py <Cxx> --tier quick|thorough
Rebuilds the SUT variants the check needs from /repo's working tree, runs the check, exits 0 / 1 (violation) / 2 (harness error)."""
import argparse, glob, importlib, os, shutil, sys, time

VERIF = os.path.dirname(os.path.dirname(os.path.abspath(__file__)))
sys.path.insert(0, os.path.join(VERIF, "py"))
sys.path.insert(0, os.path.join(VERIF, "checks"))
sys.path.insert(0, os.path.join(VERIF, "tools"))
import build_sut

VARIANTS = {  # per check: variants needed by (quick, thorough)
    "default": (["ossl-asan"], ["ossl-plain", "ossl-asan"]),
}


def sweep_stale():
    for base in ("/dev/shm", os.path.join(VERIF, "build", "scratch")):
        for d in glob.glob(os.path.join(base, "verif.*")):
            try:
                if time.time() - os.path.getmtime(d) > 6 * 3600:
                    shutil.rmtree(d, ignore_errors=True)
            except OSError:
                pass


def main():
    ap = argparse.ArgumentParser()
    ap.add_argument("check")
    ap.add_argument("--tier", default=os.environ.get("VERIF_TIER", "quick"), choices=["quick", "thorough"])
    a = ap.parse_args()
    cid = a.check.upper()
    mods = glob.glob(os.path.join(VERIF, "checks", cid.lower() + "_*.py"))
    if not mods:
        sys.stderr.write("no such check %s\n" % cid)
        return 2
    mod = importlib.import_module(os.path.basename(mods[0])[:-3])
    need = getattr(mod, "VARIANTS", VARIANTS["default"])[0 if a.tier == "quick" else 1]
    for v in need:
        build_sut.build(v)
    build_sut.build_ref()
    build_sut.build_fsx()
    sweep_stale()
    rc = mod.main(a.tier)
    sys.stdout.flush()
    return rc


if __name__ == "__main__":
    sys.exit(main())
