#!/usr/bin/env python3
"""Maintainer helper: store a confirmed seeded change under /verif/seeded/<id>/.
usage: keep_seed.py <srcdir> <id> <property> <needs> <ran> <detected_by>"""
import json, os, shutil, sys
src, sid, prop, needs, ran, det = sys.argv[1:7]
dst = os.path.join(os.path.dirname(os.path.dirname(os.path.abspath(__file__))), "seeded", sid)
os.makedirs(dst, exist_ok=True)
for f in ("patch.diff", "demo.cpp", "run_demo.sh", "notes.md"):
    if os.path.exists(os.path.join(src, f)):
        shutil.copy(os.path.join(src, f), dst)
json.dump({"id": sid, "breaks_property": prop, "needs_to_manifest": needs, "what_was_run": ran, "detected_by": det,
           "origin": "independent sub-agent given only the property text and a scratch worktree"},
          open(os.path.join(dst, "meta.json"), "w"), indent=1)
print("kept", dst)
