#!/usr/bin/env python3
"""Re-execute a replay file without the explorer:  replay.py <file>.   Exit 1 if the recorded violation reproduces."""
import json, os, sys
VERIF = os.path.dirname(os.path.dirname(os.path.abspath(__file__)))
sys.path.insert(0, os.path.join(VERIF, "py")); sys.path.insert(0, os.path.join(VERIF, "checks")); sys.path.insert(0, os.path.join(VERIF, "tools"))
import build_sut


def main():
    rec = json.load(open(sys.argv[1]))
    if "replay_module" in rec:      # checks with their own replay format
        import importlib
        return importlib.import_module(rec["replay_module"]).replay(rec)
    build_sut.build(rec["variant"])
    from p11mc import core
    sig = core.replay_file(rec)
    print("recorded signature:", rec["signature"])
    print("observed signatures:", sig)
    for i, a in enumerate(rec["history"] + ([rec["action"]] if rec["action"] is not None else [])):
        print("  step %d: %r" % (i, a))
    if rec["signature"] in sig:
        print("VIOLATION property=%s replay=%s" % (rec["property"], sys.argv[1]))
        return 1
    return 0


if __name__ == "__main__":
    sys.exit(main())
