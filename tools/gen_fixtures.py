#!/usr/bin/env python3
"""One-off generator of the golden token directories (DESIGN 3/C05): run with the PINNED commit's build
   VERIF_REPO=<worktree of 4957998> VERIF_BUILD=<scratch build dir> python3 tools/gen_fixtures.py [file|db]
Creates fixtures/golden/<store>/ (softhsm2.conf-less token directory) + manifest.json with PINs and every recorded value."""
import json, os, shutil, sys
VERIF = os.path.dirname(os.path.dirname(os.path.abspath(__file__)))
sys.path.insert(0, os.path.join(VERIF, "py"))
from p11mc import consts as C, fixtures as F, world as W, snapshot as S
from p11mc.p11 import P11, Shell, write_conf, scratch_root, mechlist
from p11mc.runner import jsonable

store = sys.argv[1] if len(sys.argv) > 1 else "file"
SO, USER = b"golden-so-pin-1", b"golden-user-pin"
root = scratch_root()
sd = os.path.join(root, "d0")
write_conf(sd, backend=store)
sh = Shell("ossl-plain", sd)
p = P11(sh)
W.ok(p.Initialize(), "init")
slot = W.slot_map(p)["free"]
W.init_token(p, slot, SO, "golden", USER)
s = W.ok(p.OpenSession(slot), "open")["h"]
W.ok(p.Login(s, C.CKU_USER, USER), "login")
WT = [(C.CKA_ENCRYPT, True), (C.CKA_VALUE_LEN, 16), (C.CKA_LABEL, b"inner-label")]
objs = [
    ("g-data-pub", F.template("data", token=True, private=False, label=b"g-data-pub")),
    ("g-data-prv-big", [(C.CKA_CLASS, C.CKO_DATA), (C.CKA_TOKEN, True), (C.CKA_PRIVATE, True), (C.CKA_LABEL, b"g-data-prv-big"), (C.CKA_VALUE, bytes((i * 31 + 7) & 0xFF for i in range(5000)))]),
    ("g-data-empty", [(C.CKA_CLASS, C.CKO_DATA), (C.CKA_TOKEN, True), (C.CKA_PRIVATE, False), (C.CKA_LABEL, b"g-data-empty"), (C.CKA_VALUE, b"")]),
    ("g-cert", F.template("cert", token=True, private=False, label=b"g-cert", ident=b"cert-id", extra=[(C.CKA_START_DATE, b"20200101"), (C.CKA_END_DATE, b"20301231")])),
    ("g-aes-rich", F.template("aes256", token=True, private=True, label=b"g-aes-rich", ident=b"aes-id",
                              extra=[(C.CKA_ENCRYPT, True), (C.CKA_DECRYPT, False), (C.CKA_WRAP, True), (C.CKA_UNWRAP, True), (C.CKA_DERIVE, True),
                                     (C.CKA_ALLOWED_MECHANISMS, mechlist([C.CKM_AES_ECB, C.CKM_AES_CBC, C.CKM_AES_CBC_PAD, C.CKM_AES_CTR, C.CKM_AES_GCM, C.CKM_AES_KEY_WRAP,
                                                                            C.CKM_AES_KEY_WRAP_PAD, C.CKM_AES_CMAC, C.CKM_AES_ECB_ENCRYPT_DATA, C.CKM_AES_CBC_ENCRYPT_DATA,
                                                                            C.CKM_SHA256_HMAC, C.CKM_SHA_1_HMAC, C.CKM_SHA512_HMAC, C.CKM_CONCATENATE_BASE_AND_DATA,
                                                                            C.CKM_CONCATENATE_DATA_AND_BASE, C.CKM_CONCATENATE_BASE_AND_KEY, C.CKM_SHA384_HMAC])),
                                     (C.CKA_WRAP_TEMPLATE, WT), (C.CKA_UNWRAP_TEMPLATE, [(C.CKA_SENSITIVE, False), (C.CKA_KEY_TYPE, C.CKK_AES)])])),
    ("g-aes-pub", F.template("aes128", token=True, private=False, label=b"g-aes-pub", ident=b"", extra=[(C.CKA_ALLOWED_MECHANISMS, mechlist([C.CKM_AES_CBC]))])),
    ("g-generic", F.template("generic129", token=True, private=True, label=b"g-generic", ident=b"gen-id", extra=[(C.CKA_SIGN, True), (C.CKA_MODIFIABLE, True)])),
    ("g-rsa-pub", F.template("rsa2048_pub", token=True, private=False, label=b"g-rsa-pub", ident=b"rsa-id", extra=[(C.CKA_VERIFY, True)])),
    ("g-rsa-prv", F.template("rsa2048_priv", token=True, private=True, label=b"g-rsa-prv", ident=b"rsa-id", extra=[(C.CKA_SIGN, True), (C.CKA_DECRYPT, True)])),
    ("g-ec-pub", F.template("ec384_pub", token=True, private=False, label=b"g-ec-pub", ident=b"ec-id")),
    ("g-ec-prv", F.template("ec384_priv", token=True, private=True, label=b"g-ec-prv", ident=b"ec-id", extra=[(C.CKA_SIGN, True)])),
    ("g-ed-prv", F.template("ed25519_priv", token=True, private=True, label=b"g-ed-prv", ident=b"ed-id", extra=[(C.CKA_SIGN, True)])),
    ("g-dsa-prv", F.template("dsa_priv", token=True, private=True, label=b"g-dsa-prv", ident=b"dsa-id")),
    ("g-dh-params", F.template("dh_params", token=True, private=False, label=b"g-dh-params")),
]
rec = {}
for name, T in objs:
    h = W.ok(p.CreateObject(s, T), name)["h"]
# a generated key (CKA_LOCAL true, KEY_GEN_MECHANISM set)
from p11mc.p11 import mech
W.ok(p.GenerateKey(s, mech(C.CKM_AES_KEY_GEN), [(C.CKA_VALUE_LEN, 24), (C.CKA_TOKEN, True), (C.CKA_PRIVATE, True), (C.CKA_SENSITIVE, False), (C.CKA_EXTRACTABLE, True), (C.CKA_LABEL, b"g-aes-generated")]), "gen")
W.ok(p.Logout(s), "logout"); W.ok(p.CloseSession(s), "close")
W.ok(p.Finalize(), "final")
# record what a fresh instance of the SAME (pinned) build returns
W.ok(p.Initialize(), "init")
slot = W.slot_map(p)["golden"]
s = W.ok(p.OpenSession(slot), "open")["h"]
W.ok(p.Login(s, C.CKU_USER, USER), "login")
hs = sorted(p.FindAll(s)["hs"])
objects = {}
for h, row in S.read_objects(p, s, hs, S.ALL_ATTRS[:-3] + [C.CKA_ALLOWED_MECHANISMS]).items():
    d = {"%x" % t: (v.hex() if isinstance(v, bytes) else None) for t, v in row if isinstance(v, bytes)}
    for t in (C.CKA_WRAP_TEMPLATE, C.CKA_UNWRAP_TEMPLATE):
        rv, v = p.get_attr(s, h, t)
        if rv == 0 and v:
            d["%x" % t] = [[tt, (vv.hex() if isinstance(vv, bytes) else vv)] for tt, vv in v]
    objects[bytes.fromhex(d["3"]).decode()] = d
ti = p.GetTokenInfo(slot)
p.Logout(s); p.CloseSession(s); p.Finalize(); sh.close()
dst = os.path.join(VERIF, "fixtures", "golden", store)
shutil.rmtree(dst, ignore_errors=True)
shutil.copytree(os.path.join(sd, "tokens"), os.path.join(dst, "tokens"))
json.dump({"written_by_commit": "4957998", "store": store, "so_pin": SO.decode(), "user_pin": USER.decode(), "label": "golden", "serial": ti["serial"],
           "flags": ti["flags"], "objects": objects}, open(os.path.join(dst, "manifest.json"), "w"), indent=1, sort_keys=True)
shutil.rmtree(root)
print("golden", store, "objects:", len(objects))
