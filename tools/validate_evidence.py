#!/usr/bin/env python3
"""Maintainer helper: validate MANIFEST.json and every evidence/*.json against the schemas (needs jsonschema: run with python3-vt)."""
import glob, json, sys, jsonschema
ok = True
jsonschema.validate(json.load(open("/verif/MANIFEST.json")), json.load(open("/root/.vp/MANIFEST.schema.json")))
S = json.load(open("/root/.vp/EVIDENCE.schema.json"))
for f in sorted(glob.glob("/verif/evidence/C*.json")):
    try:
        jsonschema.validate(json.load(open(f)), S)
    except jsonschema.ValidationError as e:
        ok = False
        print("INVALID", f, str(e).splitlines()[0][:200])
print("all valid" if ok else "PROBLEMS")
sys.exit(0 if ok else 1)
