#!/bin/sh
# Maintainer helper (not a registered check): run one tier of every claimed check one after the other from the directory this script
# lives in and summarise exit codes, wall times and alarm lines.   usage: sweep.sh <quick|thorough> <outdir> [Cxx ...]
TIER=${1:-quick}; OUT=${2:-/tmp/sweep}; shift 2 2>/dev/null
HERE=$(cd "$(dirname "$0")/.." && pwd)
mkdir -p $OUT
IDS=${@:-C01 C02 C03 C04 C05 C06 C07 C08 C09 C10 C11 C12 C13 C14 C15 C16 C17 C18 C19 C20}
cd $HERE
for c in $IDS; do
  t0=$(date +%s)
  python3 tools/run_check.py $c --tier $TIER > $OUT/$c.log 2>&1; rc=$?
  t1=$(date +%s)
  ex=$(python3 -c "import json;e=json.load(open('evidence/$c.json'));print(e['coverage'].get('exhaustive'), e.get('tier'))" 2>/dev/null)
  echo "$c rc=$rc wall=$((t1-t0))s exhaustive/tier=$ex violations=$(grep -c '^VIOLATION' $OUT/$c.log) harness=$(grep -c 'HARNESS' $OUT/$c.log) known=$(grep -c '^KNOWN-FINDING' $OUT/$c.log)" >> $OUT/summary.txt
done
echo DONE >> $OUT/summary.txt
