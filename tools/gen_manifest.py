#!/usr/bin/env python3
"""Regenerates MANIFEST.json from the table below (single source of truth for what is claimed)."""
import json, os

VERIF = os.path.dirname(os.path.dirname(os.path.abspath(__file__)))

CHECKS = {
    "C03": dict(
        category="model_checking", design_ref="DESIGN.md 3/C03",
        technique="explicit-state BFS to fixpoint + unmerged DFS over the real library in lock-step with a PKCS#11 login-state reference model",
        text="All reachable (ordered session list x login state x PIN) states for the stated session bound are enumerated on the real "
             "library to a fixpoint; after every transition C_GetSessionInfo of every session and all closed handles are compared with "
             "the reference model (only-if direction for successes, unchanged-state for failures).",
        note="Bounded participants (<=4 sessions, 2+1 tokens, two PIN values per user); merged search assumes the canonical key "
             "captures hidden state, cross-checked by the unmerged DFS to depth 3/4; trusted base: p11sh marshaller, Python model. Converse oracles: a permitted open / login / C_InitToken must succeed; on every transition a session-less token is probed in a throw-away snapshot (fresh session state, SO login, C_InitToken), so that hidden left-overs of closed sessions are seen before states merge."),
    "C11": dict(
        category="model_checking", design_ref="DESIGN.md 3/C11",
        technique="explicit-state BFS (depth-bounded, merged) + unmerged DFS over the real library against a handle-lifetime reference model",
        text="Every history of open/close/close-all/login/logout/create/find/destroy up to the depth bound is executed on the real library; "
             "after every call every session and object handle ever issued on the path is probed and must be valid exactly when the lifetime "
             "model says so (iff), newly issued numbers must be fresh, and a valid object handle must still denote the same object (CKA_LABEL).",
        note="Bounds: <=3 sessions (2 on A, 1 on B), <=2-3 live objects, depth 6 (quick) / 7 (thorough); merged key keeps saturating "
             "dead-handle counts so that counter-reset reuse is reachable; trusted base: p11sh, the Python lifetime model."),
    "C01": dict(
        category="model_checking", design_ref="DESIGN.md 3/C01",
        technique="explicit-state BFS to fixpoint over login/session histories on the real library; full probe matrix (sessions x handles x entry points) evaluated in every state against the access rule of the statement",
        text="All reachable login/session states (<=3+1 sessions, two tokens) are enumerated to a fixpoint; in each state every open session and every "
             "freshly opened session is driven through every entry point that takes an object handle, the searches and the creators, for the 36-object grid "
             "(9 classes x token/session x private/public); forbidden cells must fail, yield no handle and leak no attribute byte (only-if).",
        note="Object classes and mechanisms as listed in the check; permitted cells are calibrated once and counted, not asserted; trusted base: p11sh, Python oracle."),
    "C19": dict(
        category="model_checking", design_ref="DESIGN.md 3/C19",
        technique="exhaustive enumeration of (state x session x template x batch-size sequence) searches on the real library against a filter over the model population",
        text="For every state reachable by short histories (logout/login/SO login, destroy, close of the owning session, label change, RO session) every "
             "template of the menu is searched from every session with every batch-size sequence; the returned handles, mapped back to objects, must be "
             "exactly the model's filter result, each object once, never more than asked per call.",
        note="Fixed population (16 objects on A, 4 on B) and template menu (all singles, pairs of a reduced menu, selected triples); model attribute values "
             "are read once through C_GetAttributeValue; history depth 2 (quick) / 3 (thorough)."),
    "C09": dict(
        category="model_checking", design_ref="DESIGN.md 3/C09",
        technique="exhaustive enumeration of single-point breakages of every valid object-management/generate/unwrap/derive call on the real library, each in its own process snapshot, with a differential before/after oracle over API view, handle validity and raw token directory",
        text="~8000 (quick) failing-call candidates from three start states are executed one per snapshot; whenever the call returns an error the complete "
             "observation (objects and all attributes as seen by four sessions, validity of known handles, file names/modes/contents of the token directory "
             "without generation counters) must be identical to the one taken before the call. No expected error codes are used.",
        note="Breakage menu: bad entry at first/middle/last position (10 kinds), every entry dropped, oversize template, RO/public/SO session, bad mechanism "
             "parameters, every truncation/byte corruption of wrapped blobs, stale/foreign handles; file store. Fault clause (checks/fsfault.py): every file-system syscall of every writing call fails once with each realistic errno "
             "under fsx; when the call returns an error, another session, a fresh process and the list of object files must show the state before the call. 72 outcomes of the "
             "non-atomic file store protocol (half-created object left behind, cached object invalidated, partial destroy) are genuine defects listed in known_findings.json."),
    "C04": dict(
        category="model_checking", design_ref="DESIGN.md 3/C04",
        technique="explicit-state BFS over PIN-change histories on the real library with an exhaustive if-and-only-if login probe over a constructed candidate alphabet in every changed state (same instance, after re-initialisation, new process)",
        text="Histories of C_InitPIN / C_SetPIN (three session kinds, right/wrong/other old PIN, 9-12 new PINs incl. boundary lengths, NUL, high bytes, "
             "prefix/extension of the old one) and token re-initialisation are enumerated; after every accepted change C_Login is probed for both user types "
             "with ~130 candidates (current, previous, other user's, prefixes, extensions, one-bit neighbours, boundary strings) and must succeed iff the "
             "candidate is the model's current PIN; private objects must read back unchanged.",
        note="PIN values outside the constructed alphabet are not covered (the space is not enumerable); depth 2 (quick) / 3 (thorough)."),
    "C14": dict(
        category="model_checking", design_ref="DESIGN.md 3/C14",
        technique="explicit-state BFS over token init / re-init / PIN / object / held-session / restart histories on three tokens, complete per-token observation after every action compared with a per-token reference model",
        text="Every history up to depth 4 (quick) / 5 (thorough) is executed; after each action every token's label, serial, flags, PIN acceptance (both "
             "values of both user types), object set with attribute digests, held sessions and the number of uninitialised slots are compared with the "
             "model, so cross-token interference, lost or surviving state after re-initialisation and slot changes across restarts are all visible.",
        note="File store; softhsm2-util actions and the SQLite store are not in this tier yet; two PIN values per user. softhsm2-util --init-token --free / --delete-token are actions (quick: separate depth-3 pass; thorough: full alphabet). A re-initialisation with the correct SO PIN and no open session must succeed (also as a look-ahead probe on every transition); the order in which held sessions were opened is part of the state."),
    "C07": dict(
        category="exploration", design_ref="DESIGN.md 3/C07 + Appendix E",
        technique="exhaustive enumeration of the full decision matrix (operation x key class/type x usage-flag variant x every CKM_* constant x allowed-list variant x slots.mechanisms configuration) on the real library with an only-if oracle from a reference table; plus unmerged depth-first enumeration of every call sequence (depth 4 quick / 5 thorough, 16 actions) for the always-authenticate clause",
        text="~264 000 cells per configuration are executed on the real library (every CKM_* constant of PKCS#11 v2.40 + unknown values, 15 key kinds, "
             "one-hot flag variants, three allowed-list variants; digest-init / generate-key / generate-key-pair for the configuration clause). CKR_OK is "
             "judged against flag, key class/type table, allowed list and the advertised list of that configuration.",
        note="Exhaustive over the stated grid (no sampling). Always-authenticate clause (checks/c07_aa.py): all 16^4 = 65 536 (quick) sequences over Sign/Decrypt Init with "
             "always-authenticate RSA/EC keys and a plain key in two sessions, Sign, SignUpdate, SignFinal, Decrypt, context-specific login with the right / a wrong / the SO PIN "
             "and in the other session, user login again, logout+login; an output-producing call may return CKR_OK only after a context-specific login with the user PIN in that "
             "session since the Init (sign and decrypt only, as PKCS#11 defines the attribute). Cells that fail for an unrelated "
             "reason (e.g. single DES needs OpenSSL's legacy provider on this image) are not judged."),
    "C06": dict(
        category="model_checking", design_ref="DESIGN.md 3/C06",
        technique="exhaustive enumeration of (storing path x object kind x follow-up history x umask) scenarios on the real library; raw token directory judged by an independent decoder/scanner (own format parser, hashlib PBE, Botan AES)",
        text="Every storing path for byte-string attributes of private objects is executed for every listed object kind and follow-up history; afterwards "
             "the raw directory must contain no 8-byte window of any private value, the decoder must unwrap the same master key from both PIN blobs and "
             "decrypt every attribute to exactly the API's (and the harness's own stored) value, IVs must be pairwise distinct, a wrong PIN must open "
             "nothing and no mode bit may lie outside objectstore.umask.",
        note="File store; trusted base: py/p11mc/storefmt.py, refsh (Botan), hashlib; values shorter than 8 bytes are only covered by the decoder comparison. Both stores: the SQLite lane reads the database with Python's sqlite3 module (independent of the library) and applies the same scanner and decoder."),
    "C05": dict(
        category="model_checking", design_ref="DESIGN.md 3/C05",
        technique="explicit-state BFS over object histories on the real library with three observers per state (running instance, re-initialised instance, independent raw-file decoder) plus golden token directories written by the pinned commit",
        text="Every history of create (all attribute kinds incl. mechanism sets, nested templates, dates, a byte-string length ladder up to 64 KiB / 300 kB), "
             "copy, set (shorter, longer, ladder values), destroy and session objects up to depth 3 (quick) / 4 (thorough) is executed; in each state all "
             "attribute values must agree between the running instance, a restarted instance and the decoder; golden file and SQLite tokens from the pinned "
             "commit must open with their PINs, return exactly the recorded values and stay modifiable.",
        note="Histories on the file store (SQLite through its golden fixture). Fault clause (checks/fsfault.py): every file-system syscall of create / set / destroy / copy / generate / "
             "unwrap (thorough: also big data object, shorter value, key pair, derive) fails once with each realistic errno under fsx (1 655 injections quick); a call that returns CKR_OK "
             "must leave a fresh process with exactly what the caller sees. One defect repaired (unchecked flush). Trusted base: storefmt.py, refsh, fsx."),
    "C02": dict(
        category="model_checking", design_ref="DESIGN.md 3/C02",
        technique="explicit-state BFS over (origin x key kind x requested flags) roots and set/copy/concatenate histories on the real library; in every state every secret attribute is read in every template/buffer shape and the key is wrapped under trusted/untrusted keys with every wrap mechanism, against the sticky-protection model plus a byte-taint scan",
        text="60 roots (create, generate, unwrap, derive x 7 key kinds x 5 flag requests) and all set/copy/concatenate histories to depth 3 (quick) / 4 "
             "(thorough); a protected key must answer CKR_ATTRIBUTE_SENSITIVE with CK_UNAVAILABLE_INFORMATION and an untouched buffer for every secret attribute "
             "alone and in mixed templates, must never be wrapped when unextractable or under an untrusted key when WRAP_WITH_TRUSTED, and protections may "
             "never weaken.",
        note="<=2 live keys per state; taint scan only for keys whose value the harness knows; single DES unusable on this image. Plus a template-length ladder: keys concatenated from a sensitive / unextractable key with caller templates of every length up to beyond the internal capacity (368 derivations) must inherit the protections."),
    "C08": dict(
        category="model_checking", design_ref="DESIGN.md 3/C08 + Appendix F",
        technique="exhaustive case matrix (every attribute type x set/copy x template shape x object kind; history attributes supplied to every creating operation) plus explicit-state BFS over make/set/copy/derive histories with a truth model of the four history attributes, all on the real library",
        text="Part A executes ~3400 set/copy cases (71 attribute types x 2 shapes x 12 object kinds), the gate/TRUSTED cases and 168 history-attribute supply "
             "cases, each in its own snapshot, against the clause list of Appendix F. Part B enumerates all make/set/copy/derive histories to depth 3 (quick) / "
             "4 (thorough) and after every step reads CKA_LOCAL, CKA_KEY_GEN_MECHANISM, CKA_ALWAYS_SENSITIVE and CKA_NEVER_EXTRACTABLE of every live key "
             "against the truth model.",
        note="Only the listed clauses are judged (stricter library behaviour is fine); SO-session histories are limited to the TRUSTED clause. Plus a template-length ladder (history/protection attributes of created, generated, unwrapped and derived keys must not depend on the number of harmless template entries)."),
    "C12": dict(
        category="model_checking", design_ref="DESIGN.md 3/C12",
        technique="explicit-state BFS over Init/single-part/Update/Final call sequences with the NULL-query / announced-size protocol on the real library, lock-step with an operation automaton and a differential completion oracle evaluated in every state",
        text="For 20 mechanisms (one per size-logic branch) all sequences of Init, up to 3 (quick) / 4 (thorough) Update or single-part calls and Final are executed, "
             "each call first as a length query and then with 0, L-1, L or L+7 announced bytes; every state is probed for CKR_OPERATION_ACTIVE / "
             "CKR_OPERATION_NOT_INITIALIZED behaviour and the pending operation is completed canonically (directly and after an unrelated operation in a second "
             "session) and compared with a clean single-part run; reported lengths are bounded per the statement, canaries guard announced and returned lengths.",
        note="The 'unchanged' reference is the library's own clean run (independent correctness is C10); verify operations use exact shapes only. After every CKR_BUFFER_TOO_SMALL answer of a single-part call the same call is retried with the reported length in a throw-away snapshot and judged against a clean run."),
    "C10": dict(
        category="exploration", design_ref="DESIGN.md 3/C10",
        technique="exhaustive grid enumeration (mechanism x key size x every message length x every composition into <=2/3 multi-part calls x direction, plus every single-bit tamper) on the real library against an independent implementation (Botan, hashlib, pure-Python big-integer arithmetic)",
        text="~94 000 (quick) evaluations: every length 0..2-3 blocks+1 for AES/3DES ECB, CBC, CBC-PAD, CTR (several counter widths), GCM (IV/AAD/tag variants), "
             "HMAC x6, CMAC, six digests, RSA PKCS#1 v1.5 / hashed / PSS / OAEP / X.509, DSA, ECDSA P-256/384/521, Ed25519, DH / ECDH / X25519 with ordinary and "
             "leading-zero peers; deterministic outputs must equal the reference, randomised ones cross-verify/decrypt both ways, every multi-part composition "
             "must equal the single-part result, and every flipped bit of data, signature/MAC, IV, AAD or tag must be rejected.",
        note="Key and message values are fixed patterns; single DES, Ed448 and X448 are not covered on this image (no legacy provider / no independent reference)."),
    "C13": dict(
        category="exploration", design_ref="DESIGN.md 3/C13",
        technique="exhaustive grid enumeration (wrap mechanism x wrapping key x wrapped key kind/length x IV x buffer protocol; unwrap of own and reference blobs; every truncation and single-byte corruption; derive mechanism x peer/data/IV x target type/length) on the real library against an independent implementation (Botan, pure-Python arithmetic)",
        text="Every cell wraps on the token, decodes the blob with the reference (RFC 3394/5649, CBC/PKCS#7 under the caller's IV, PKCS#1 v1.5 / OAEP, PKCS#8), "
             "unwraps own and reference-produced blobs into several templates and checks value, type, class, LOCAL/ALWAYS_SENSITIVE/NEVER_EXTRACTABLE and carried "
             "attributes; ~2700 (quick) malformed blobs must be refused exactly when the reference refuses them; derived values must equal the mechanism-defined "
             "value cut to the requested length (leading-zero peers included) with DES parity, too-long requests refused, and every CKA_CHECK_VALUE of an "
             "AES/DES key must be the standard one.",
        note="PKCS#3 DH private keys are parsed with the openssl command line tool (Botan 2 lacks the key type); generic-secret check values are judged as the first three bytes of SHA-1 of the stored value."),
    "C17": dict(
        category="exploration", design_ref="DESIGN.md 3/C17",
        technique="exhaustive enumeration under AddressSanitizer, one process snapshot per case: keyed operations x object kinds x advertised mechanisms x parameter variants; every single-argument deviation (thorough: all pairs) of a valid request for all 68 entry points from 20 base states; depth-2 Init/continuation sequences; every truncation, byte and length-field mutation of object file, token file and configuration file",
        text="~95 000 (quick) cases; the oracle is memory-safety and liveness only: the call returns a CK_RV, the process neither dies nor exits nor produces an "
             "ASan report, and a health sequence still works afterwards. Every buffer handed to the library ends at a PROT_NONE guard page, so over-reads of "
             "caller memory fault immediately.",
        note="Argument domains and mutation menus as in the check source (t=1 quick, t=2 thorough); pointers that do not reference memory of the stated size "
             "(NULL with a length inside parameter structs, NULL template values outside C_GetAttributeValue) are outside the property's precondition and not "
             "generated; file mutations cover an AES/data object file, an RSA private key file, token.object and softhsm2.conf. All single-threaded cases run with application mutex callbacks that police the lock protocol (a re-lock of an owned mutex, i.e. a self-deadlock with real mutexes, is reported); after every file mutation searches with byte-string templates and every continuation of a failed search are exercised."),
    "C20": dict(
        category="translation_validation", design_ref="DESIGN.md 3/C20",
        technique="differential exhaustive exploration: every enumerated program (action sequences up to depth 2/3, the keyed-operation decision matrix, the deterministic crypto grid) executed in lock-step under {file, SQLite} x {OpenSSL, Botan} builds of the same tree; traces compared step by step",
        text="~45 000 (quick) programs/cells; return code of every step, the complete attribute snapshot of all objects plus token flags after every step and after a "
             "final restart, and outputs of deterministic mechanisms must be identical in all four configurations; randomised signatures produced in one crypto "
             "backend must verify in the other.",
        engine="p11sh built in the variants ossl-plain and botan-plain; SQLite lanes use in-place restoring snapshots",
        note="Mechanisms are intersected over both backends' C_GetMechanismList; single DES is excluded when a backend cannot execute it (OpenSSL 3 without legacy "
             "provider on this image); five known findings (empty-input decrypt with Botan) are listed in known_findings.json."),
    "C16": dict(
        category="fault_enumeration", design_ref="DESIGN.md 3/C16",
        technique="exhaustive crash-point enumeration on the real library under a ptrace controller (fsx): the token directory is captured before every mutating file-system syscall of every writing call, and every distinct crash state is recovered by a fresh process and judged against the old and the new observation",
        text="18 writing calls (create, set, destroy, copy, generate key / key pair, unwrap, derive, three kinds of login, SetPIN user/SO, InitPIN, InitToken re-init and on "
             "the free slot) yield ~990 crash points / ~300 distinct directory states; for each one C_Initialize must return, the other token and all untouched "
             "objects and PINs must be identical, a PIN being changed must accept exactly old or new, the written object must be absent/old/new, no other object may "
             "be visible, and the token must stay writable.",
        engine="fsx (ptrace syscall tracer) + p11sh",
        note="Fault model: process death (completed syscalls are durable; nothing is reordered; a multi-write store can be cut between two write() calls - the torn-write ladder "
             "places that cut on every offset of the trailing attribute records); 43 crash states of the in-place rewrite / multi-transaction "
             "creation protocol are genuine defects recorded in known_findings.json, every other signature raises a VIOLATION."),
    "C15": dict(
        category="model_checking", design_ref="DESIGN.md 3/C15",
        technique="exhaustive exploration of real processes sharing one token directory: (a) unmerged depth-first enumeration of every call sequence up to depth d over 2-3 processes (process snapshots by fork, directory saved/restored per edge) against a shared-map reference model, with a look-ahead probe of every process and of a silent witness process after every call; (b) stateless preemption-bounded schedule enumeration at file-system syscall granularity under a ptrace scheduler (fsx schedule) for pairs of concurrent writers, judged by serialisability of the committed calls",
        text="(a) quick: 2 processes x depth 4 (39 146 sequences) and 3 processes x depth 3 (9 516), alphabet per process {create, set label of o1, set end date of o1, set label of private "
             "k1, destroy o1, search+read all, read o1 through an old handle}; after every call the complete object list with values seen by each process, by a witness that never "
             "calls, and the old handle of o1 must equal the model. (b) 9 writer pairs (set/set same and different attribute, set/destroy, destroy/destroy, create/create, create/find, "
             "destroy/get, set/get, private set/find): every schedule with <= 1 (quick) / <= 2-3 (thorough, by budget) preemptions at the ~60-700 syscall points; no deadlock on the "
             "fcntl locks, no death, and the views of both processes and of a fresh process must equal those left by executing the calls that returned CKR_OK serially in some order.",
        engine="p11sh processes; fsx schedule (ptrace, one tracee runs at a time, fcntl(F_SETLKW) sleeps are blocking)",
        note="File store only. Return codes of calls that fail under a race (for example CKR_FUNCTION_FAILED of the losing C_DestroyObject) are recorded but not judged: the property "
             "speaks about committed changes. Two genuine defects found here were repaired (lost update, resurrected object; see known_findings.json 'fixed')."),
    "C18": dict(
        category="model_checking", design_ref="DESIGN.md 3/C18",
        technique="stateless model checking of the real library under a deterministic scheduler injected through the C_Initialize mutex callbacks: every schedule with at most k preemptions (iterative context bounding, k=1..3 chosen per body by a schedule budget and reported) at LockMutex / thread start / thread end points, each executed in a fresh process image; linearizability oracle = outcomes of all sequential call orders run on the same library",
        text="26 harness bodies (2-3 threads with their own sessions, 1-3 calls each, forced to collide on the session table, handle table, session object store, "
             "token object store, secure data manager and login state; one body on two tokens); ~45 000 (quick) schedules, AddressSanitizer build in both tiers. Every schedule must terminate without "
             "deadlock, process death, ASan report or mutex-protocol violation, and its abstracted outcome (return codes, outputs, handle identity classes, final "
             "observations) must equal the outcome of one of the sequential interleavings of the same calls.",
        engine="p11sh RUNTHREADS (baton scheduler behind CK_C_INITIALIZE_ARGS mutex callbacks) driven by checks/c18_threads.py",
        note="Scheduling points are the application mutex callbacks: code between two lock operations runs atomically, so unsynchronised accesses that never meet a "
             "lock are not interleaved (no TSan side pass). File store only (as the property states). Thirteen outcomes in seven bodies (half-created object visible to a "
             "search, attribute read / copy racing with destroy, double destroy, torn multi-attribute read, operation racing with logout, and a heap use after free when "
             "C_CloseAllSessions races with C_OpenSession) are genuine defects recorded in known_findings.json. Thorough tier: additional ThreadSanitizer pass over every schedule with at most one preemption (scheduler hand-overs hidden from the detector, library locks announced); races are reported per pair of classes; four classes race on the unchanged tree (known findings)."),
}

NOT_YET = "check under construction in this session; not claimed yet (DESIGN.md Appendix D gives the build order)"


EXTRA_NOTES = {
    "C01": "creators that do not name CKA_PRIVATE (the object a session without user login created must be readable there and public); an UNMERGED enumeration of every "
           "sequence (depth 5 / 6) over a core session/login alphabet with a light oracle (a freshly opened session finds the private object iff the model says the user is logged in).",
    "C03": "an UNMERGED enumeration of every sequence (depth 5 quick / 6 thorough) over a core alphabet (open rw/ro, close oldest/newest, close-all, user/SO login, logout), so that "
           "library state the canonical key cannot see (tables, counters, caches left by earlier calls) cannot be merged away.",
    "C05": "the same histories on the SQLite store (depth 3; database read with Python's sqlite3 incl. the nested-template blobs); object kinds with the lock booleans "
           "(DESTROYABLE, COPYABLE, MODIFIABLE) away from their defaults and a supplied CKA_PUBLIC_KEY_INFO.",
    "C06": "objectstore.umask across a re-initialisation of the same process under a rewritten configuration (7 ordered pairs) and in every notation (with / without leading zeros).",
    "C07": "slots.mechanisms across a re-initialisation of the same process (6 ordered pairs); the advertised list is fetched with exactly the reported count; positive lists with a repeated name.",
    "C09": "breakages in which byte-string entries are named twice before the rejected entry (an undo log must restore the value from before the call).",
    "C10": "second lane: the same grid on the Botan-backed build (refusals counted, not judged; 20 known zero-length-decrypt cells).",
    "C11": "the kinds of retiring events a token has been through (close-all, last close, logout) are part of the state key; copies that are session objects of the copying session.",
    "C12": "inputs the mechanism must refuse (too long, not the fixed size) in the alphabet; every automaton probe runs in a snapshot of its own (a probe may end a left-over "
           "operation and hide it from the next); with no operation active a new one of every kind must be startable.",
    "C14": "SQLite store lane (same alphabet one level shallower); on every transition a token with an open session must refuse re-initialisation (look-ahead, before merging); before every softhsm2-util --delete-token action a proper prefix of the serial and an unknown label must delete nothing.",
    "C16": "directory names are part of the content hash of a crash state (an empty token directory is a state of its own).",
    "C17": "structure-aware mutations of every 8-byte field (type, kind, length, count) of object and token files (fields behind the first boolean value are unaligned); the mechanism "
           "list is fetched with exactly the reported count; repeated names in slots.mechanisms; a call without answer for 150 s (VERIF_CALL_TIMEOUT) is killed and reported as a hang.",
    "C19": "the late session's population contains a session object that came into being as a copy.",
    "C20": "object kinds with the lock booleans away from their defaults / supplied CKA_PUBLIC_KEY_INFO; multi-part and length-query-first cells for every cipher (2 known findings: "
           "Botan hands multi-part output out in C_*Final only); narrow-counter AES-CTR cells.",
}


def main():
    props = [json.loads(l)["id"] for l in open(os.path.join(VERIF, "properties.jsonl"))]
    checks = []
    for pid in props:
        c = CHECKS.get(pid)
        if not c:
            continue
        if pid in EXTRA_NOTES:
            c = dict(c, note=c["note"] + " Added later: " + EXTRA_NOTES[pid])
        checks.append({
            "property_id": pid,
            "quick_cmd": "python3 tools/run_check.py %s --tier quick" % pid,
            "thorough_cmd": "python3 tools/run_check.py %s --tier thorough" % pid,
            "evidence_file": "evidence/%s.json" % pid,
            "replay_cmd_template": "python3 tools/replay.py {path}",
            "engine": c.get("engine", "p11mc explorer over p11sh"),
            "level_claimed": {"category": c["category"], "text": c["text"], "design_ref": c["design_ref"]},
            "level_note": c["note"],
            "technique": c["technique"],
        })
    m = {
        "version": 1,
        "setup_cmd": "python3 tools/build_sut.py ossl-asan ossl-plain botan-plain ref fsx",
        "hooks": {"guard": "SOFTHSM_VERIF", "enable": "tools/build_sut.py passes -DSOFTHSM_VERIF to every variant it compiles from /repo's working tree",
                  "baseline_off_cmd": "cmake --build /repo/_build && ctest --test-dir /repo/_build -j8 --timeout 900",
                  "source_commits": [], "fix_commits": ["fb89533", "e791416", "151a9e2", "96a30d4", "a80c8a6", "ba231e7", "6bd3dce", "e87af21", "bea9994", "588c9b7", "ceb5015", "38ed9d5", "d3eb7f4", "bf60869", "58c10b5", "813a6d6", "2adb934", "9affe31", "8d94e13", "fd7cd14", "084c459"], "add_only": True},
        "engines": [
            {"name": "p11sh", "path": "engine/p11sh", "serves_properties": sorted(CHECKS), "kind_free_text": "PKCS#11 shell linked statically against the SUT; SNAP/BACK process snapshots; guard pages + canaries around every buffer"},
            {"name": "p11mc", "path": "py/p11mc", "serves_properties": sorted(CHECKS), "kind_free_text": "explicit-state explorer (level-synchronous BFS with replay-to-state, unmerged DFS), reference models, evidence/findings glue"},
        ],
        "checks": checks,
        "not_applicable": [{"property_id": p, "reason": NOT_YET} for p in props if p not in CHECKS],
        "notes": "Model checking: every check enumerates executions of the real library exhaustively within stated bounds; see DESIGN.md.",
    }
    json.dump(m, open(os.path.join(VERIF, "MANIFEST.json"), "w"), indent=1)


if __name__ == "__main__":
    main()
