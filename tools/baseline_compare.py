#!/usr/bin/env python3
"""Compare the CppUnit results of a ctest run (test-results.xml files under <builddir>) with /root/.vp/BASELINE.json's stable_pass list.
usage: baseline_compare.py <builddir>     exit 0 iff every stable_pass test is among the successful tests."""
import glob, json, os, re, sys
bd = sys.argv[1]
ok = set()
for f in glob.glob(os.path.join(bd, "src/lib/**/test-results.xml"), recursive=True):
    d = os.path.dirname(f)
    bins = [os.path.basename(x) for x in glob.glob(os.path.join(d, "*test")) if os.access(x, os.X_OK) and os.path.isfile(x)]
    binname = bins[0] if bins else os.path.basename(os.path.dirname(d)) + "test"
    x = open(f, encoding="latin1").read()
    succ = x.split("<SuccessfulTests>")[1].split("</SuccessfulTests>")[0] if "<SuccessfulTests>" in x else ""
    for m in re.finditer(r"<Name>(.*?)</Name>", succ):
        ok.add(binname + "::" + m.group(1))
base = json.load(open("/root/.vp/BASELINE.json"))["stable_pass"]
missing = [t for t in base if t not in ok and not (t.endswith("::handlemgrtest") )]
hm = [t for t in base if t.endswith("::handlemgrtest")]
print("successful tests found: %d; baseline: %d; baseline tests not passing: %d" % (len(ok), len(base), len(missing)))
for t in missing[:40]:
    print("  MISSING", t)
sys.exit(1 if missing else 0)
