#!/bin/sh
# Maintainer helper: confirm a seeded change (dir with patch.diff + run_demo.sh): suite still passes, demo fails with it, passes without.
# usage: verify_seed.sh <seeddir>     (uses the scratch worktree /tmp/wt-base)
D=$1; WT=/tmp/wt-base
git -C $WT checkout -q -- . && git -C $WT checkout -q --detach $(git -C /repo rev-parse HEAD) || exit 9
git -C $WT apply $D/patch.diff || { echo "PATCH DOES NOT APPLY"; exit 9; }
/verif/tools/run_baseline.sh $WT; echo "baseline-with-patch rc=$?"
(cd $D && sh ./run_demo.sh $WT > $D/demo_with.log 2>&1); echo "demo-with-patch rc=$? (expect non-zero)"
git -C $WT checkout -q -- .
cmake --build $WT/_build -j8 > /dev/null 2>&1
(cd $D && sh ./run_demo.sh $WT > $D/demo_without.log 2>&1); echo "demo-without-patch rc=$? (expect 0)"
