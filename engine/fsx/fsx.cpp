// fsx - file-system level control of a traced p11sh (ptrace).   usage:  fsx <mode> [args] -- <program> [args...]
//
// The tracee (p11sh) brackets the call under test with marker syscalls  ioctl(-1, 0x56460000 + n)  (command MARK n):
//   n = 1 window start, n = 2 window end.  Only syscalls inside the window are acted upon.
//
// modes
//   record <logfile>                 log every file-system syscall of the window (one JSON object per line)
//   crashpoints <snapdir> <subdir>   before EVERY mutating syscall of the window (and at the window end) copy <subdir> (relative to the
//                                    tracee's cwd) to <snapdir>/<k>: the copy is the disk state a process killed at that instant leaves
//                                    (unflushed stdio buffers live in the dead process, completed syscalls are in the kernel).
//                                    <snapdir>/points.jsonl describes each point (index, the syscall about to happen).
//   kill <k>                         literal crash: SIGKILL the tracee right before the k-th mutating syscall of the window
//   fault <k> <errno> [<logfile>]    make the k-th file-system syscall of the window (1-based, counted over the `record` order) fail with -errno
//                                    without executing it; `shortwrite <k> <n>` truncates the byte count of the k-th write instead
//   schedule <out> <choices> <n> <in0> <out0> ... -- prog   (several tracees, see schedule_main below)
// The tracee's stdin/stdout are inherited, so the Python client talks to p11sh as usual.
#include <cerrno>
#include <cstdio>
#include <cstdlib>
#include <cstring>
#include <map>
#include <string>
#include <vector>
#include <dirent.h>
#include <fcntl.h>
#include <signal.h>
#include <unistd.h>
#include <sys/ptrace.h>
#include <sys/stat.h>
#include <sys/syscall.h>
#include <sys/types.h>
#include <sys/uio.h>
#include <sys/user.h>
#include <sys/wait.h>

static const unsigned long MAGIC = 0x56460000UL;

static void copytree(const std::string& from, const std::string& to)
{
	struct stat st;
	if (lstat(from.c_str(), &st) != 0) return;
	if (S_ISDIR(st.st_mode)) {
		mkdir(to.c_str(), 0700);
		DIR* d = opendir(from.c_str());
		if (!d) return;
		struct dirent* e;
		while ((e = readdir(d))) {
			if (!strcmp(e->d_name, ".") || !strcmp(e->d_name, "..")) continue;
			copytree(from + "/" + e->d_name, to + "/" + e->d_name);
		}
		closedir(d);
		chmod(to.c_str(), st.st_mode & 07777);
	} else if (S_ISREG(st.st_mode)) {
		int a = open(from.c_str(), O_RDONLY);
		int b = open(to.c_str(), O_WRONLY | O_CREAT | O_TRUNC, 0600);
		char buf[65536]; ssize_t n;
		while (a >= 0 && b >= 0 && (n = read(a, buf, sizeof buf)) > 0) { ssize_t w = write(b, buf, n); (void)w; }
		if (a >= 0) close(a);
		if (b >= 0) { fchmod(b, st.st_mode & 07777); close(b); }
	}
}

static std::string read_string(pid_t pid, unsigned long addr)
{
	std::string out;
	if (!addr) return out;
	char buf[256];
	for (int round = 0; round < 16; round++) {
		struct iovec l = {buf, sizeof buf}, r = {(void*)(addr + out.size()), sizeof buf};
		ssize_t n = process_vm_readv(pid, &l, 1, &r, 1, 0);
		if (n <= 0) {
			// page boundary: read word by word
			errno = 0;
			long w = ptrace(PTRACE_PEEKDATA, pid, (void*)(addr + out.size()), 0);
			if (errno) break;
			memcpy(buf, &w, sizeof w); n = sizeof w;
		}
		for (ssize_t i = 0; i < n; i++) { if (!buf[i]) return out; out.push_back(buf[i]); }
	}
	return out;
}

static std::string jesc(const std::string& s)
{
	std::string o;
	for (char c : s) { if (c == '"' || c == '\\') { o += '\\'; o += c; } else if ((unsigned char)c < 0x20) o += '?'; else o += c; }
	return o;
}

struct Sc { long nr; const char* name; bool path0; bool path1; bool fd0; };
static const Sc TABLE[] = {
	{SYS_open, "open", true, false, false}, {SYS_openat, "openat", false, true, false}, {SYS_creat, "creat", true, false, false},
	{SYS_write, "write", false, false, true}, {SYS_pwrite64, "pwrite64", false, false, true}, {SYS_writev, "writev", false, false, true},
	{SYS_ftruncate, "ftruncate", false, false, true}, {SYS_truncate, "truncate", true, false, false},
	{SYS_unlink, "unlink", true, false, false}, {SYS_unlinkat, "unlinkat", false, true, false}, {SYS_mkdir, "mkdir", true, false, false}, {SYS_mkdirat, "mkdirat", false, true, false},
	{SYS_rmdir, "rmdir", true, false, false}, {SYS_rename, "rename", true, false, false}, {SYS_renameat, "renameat", false, true, false}, {SYS_renameat2, "renameat2", false, true, false},
	{SYS_link, "link", true, false, false}, {SYS_linkat, "linkat", false, true, false}, {SYS_fsync, "fsync", false, false, true}, {SYS_fdatasync, "fdatasync", false, false, true},
	{SYS_close, "close", false, false, true}, {SYS_fcntl, "fcntl", false, false, true}, {SYS_flock, "flock", false, false, true}, {SYS_getdents64, "getdents64", false, false, true},
	{SYS_read, "read", false, false, true}, {SYS_fchmod, "fchmod", false, false, true}, {SYS_chmod, "chmod", true, false, false},
};

// ------------------------------------------------------------------------------------------------------------------------------
// schedule mode: N tracees (p11sh processes working on the same token directory), each talking to the client over its own pair of
// inherited descriptors.  Outside the window all tracees run freely (the client serialises them by waiting for every answer).  Each
// tracee announces the call under test with MARK 1 and is held there; when all N are held the window begins: exactly ONE tracee runs
// at a time, and the entry of every file-system syscall on the shared directory is a scheduling point at which the controller
// decides, from the <choices> list (index into the canonical enabled list: the running tracee first if it is still enabled, then
// ascending ids; default 0 once the list is exhausted), whose pending syscall executes next.  A tracee that sleeps in
// fcntl(F_SETLKW) is blocked (disabled) until the lock is granted; no enabled tracee while some are blocked is a deadlock.  The
// window ends when every tracee has reached MARK 2 (or exited); then all run freely again.  <out> receives one JSON object:
//   {"points":[[running,chosen,"syscall path",[enabled...]],...],"error":"","blocked_events":k}
struct Tr {
	pid_t pid = 0;
	bool entry = true;          // next syscall stop is an entry
	int state = 0;              // 0 free-running, 1 held at MARK 1 / in window, 2 window done (held at MARK 2), 3 exited
	bool blocked = false;       // sleeping in F_SETLKW
	bool at_exit_pending = false; // stopped at the exit of the lock syscall after having been blocked
	long cur_nr = -1;
	std::string pending;        // description of the pending (not yet executed) syscall
	std::map<long, std::string> fdpath;
	int sig = 0;
};

static char proc_state(pid_t pid)
{
	char path[64], buf[512];
	snprintf(path, sizeof path, "/proc/%d/stat", (int)pid);
	int fd = open(path, O_RDONLY);
	if (fd < 0) return '?';
	ssize_t n = read(fd, buf, sizeof buf - 1);
	close(fd);
	if (n <= 0) return '?';
	buf[n] = 0;
	char* p = strrchr(buf, ')');
	return (p && p[1] == ' ') ? p[2] : '?';
}

static bool skip_path(const std::string& path)
{
	return path.compare(0, 5, "/dev/") == 0 || path.compare(0, 6, "/proc/") == 0 || path.compare(0, 5, "/etc/") == 0 || path.compare(0, 5, "/usr/") == 0 || path.compare(0, 5, "/lib/") == 0 || path.compare(0, 5, "/sys/") == 0;
}

// classify the syscall a tracee is about to enter; returns true when it is a scheduling point (file-system operation on the shared directory)
static bool interesting(Tr& t, const struct user_regs_struct& regs, std::string& desc)
{
	long nr = regs.orig_rax;
	std::string path;
	const char* name = NULL;
	switch (nr) {
	case SYS_open: name = "open"; path = read_string(t.pid, regs.rdi); break;
	case SYS_openat: name = "openat"; path = read_string(t.pid, regs.rsi); break;
	case SYS_creat: name = "creat"; path = read_string(t.pid, regs.rdi); break;
	case SYS_stat: name = "stat"; path = read_string(t.pid, regs.rdi); break;
	case SYS_lstat: name = "lstat"; path = read_string(t.pid, regs.rdi); break;
	case SYS_access: name = "access"; path = read_string(t.pid, regs.rdi); break;
	case SYS_newfstatat: name = "fstatat"; path = read_string(t.pid, regs.rsi); if (path.empty()) { auto it = t.fdpath.find((long)(int)regs.rdi); if (it == t.fdpath.end()) return false; path = it->second; } break;
	case SYS_unlink: name = "unlink"; path = read_string(t.pid, regs.rdi); break;
	case SYS_unlinkat: name = "unlinkat"; path = read_string(t.pid, regs.rsi); break;
	case SYS_rename: name = "rename"; path = read_string(t.pid, regs.rdi) + ">" + read_string(t.pid, regs.rsi); break;
	case SYS_renameat: case SYS_renameat2: name = "renameat"; path = read_string(t.pid, regs.rsi) + ">" + read_string(t.pid, regs.r10); break;
	case SYS_mkdir: name = "mkdir"; path = read_string(t.pid, regs.rdi); break;
	case SYS_rmdir: name = "rmdir"; path = read_string(t.pid, regs.rdi); break;
	case SYS_truncate: name = "truncate"; path = read_string(t.pid, regs.rdi); break;
	case SYS_read: case SYS_pread64: case SYS_write: case SYS_pwrite64: case SYS_writev: case SYS_ftruncate: case SYS_close: case SYS_fcntl: case SYS_flock: case SYS_getdents64: case SYS_fstat: {
		long fd = (long)(int)regs.rdi;
		if (fd >= 0 && fd <= 2) return false;
		auto it = t.fdpath.find(fd);
		if (it == t.fdpath.end()) return false;
		path = it->second;
		name = nr == SYS_read ? "read" : nr == SYS_pread64 ? "pread" : nr == SYS_write ? "write" : nr == SYS_pwrite64 ? "pwrite" : nr == SYS_writev ? "writev" : nr == SYS_ftruncate ? "ftruncate" :
		       nr == SYS_close ? "close" : nr == SYS_fcntl ? "fcntl" : nr == SYS_flock ? "flock" : nr == SYS_getdents64 ? "getdents" : "fstat";
		if (nr == SYS_fcntl) {
			long cmd = (long)regs.rsi;
			if (cmd != F_SETLK && cmd != F_SETLKW && cmd != F_GETLK) return false;      // F_GETFL, F_SETFD ... do not touch shared state
			struct flock fl; memset(&fl, 0, sizeof fl);
			struct iovec l = {&fl, sizeof fl}, r = {(void*)regs.rdx, sizeof fl};
			process_vm_readv(t.pid, &l, 1, &r, 1, 0);
			static std::string nm; nm = std::string(cmd == F_SETLKW ? "lockw" : cmd == F_SETLK ? "lock" : "getlk") + (fl.l_type == F_RDLCK ? ":rd" : fl.l_type == F_WRLCK ? ":wr" : ":un");
			name = nm.c_str();
		}
		break; }
	default: return false;
	}
	if (path.empty() || skip_path(path)) return false;
	// keep only the file name part below the token directory: absolute scratch paths differ between runs
	size_t k = path.find("/tokens/");
	std::string shortp = (k == std::string::npos) ? path : path.substr(k + 8);
	size_t k2 = shortp.find(">");
	if (k2 != std::string::npos) { std::string b = shortp.substr(k2 + 1); size_t k3 = b.find("/tokens/"); if (k3 != std::string::npos) shortp = shortp.substr(0, k2 + 1) + b.substr(k3 + 8); }
	desc = std::string(name) + " " + shortp;
	return true;
}

static void track_exit(Tr& t, const struct user_regs_struct& regs)
{
	long nr = t.cur_nr;
	if ((nr == SYS_openat || nr == SYS_open || nr == SYS_creat) && (long)regs.rax >= 0) {
		std::string p = read_string(t.pid, nr == SYS_openat ? regs.rsi : regs.rdi);
		if (!skip_path(p)) t.fdpath[(long)regs.rax] = p; else t.fdpath.erase((long)regs.rax);
	}
	if (nr == SYS_close) t.fdpath.erase((long)(int)regs.rdi);
}

// wait for the next stop of tracee t; returns 0 = syscall stop, 1 = exited, 2 = blocked in F_SETLKW (only when may_block)
static int wait_stop(Tr& t, bool may_block)
{
	int st = 0;
	int sleeps = 0;
	for (;;) {
		pid_t r = waitpid(t.pid, &st, may_block ? (WNOHANG | __WALL) : __WALL);
		if (r < 0) { if (errno == EINTR) continue; return 1; }
		if (r == 0) {
			char c = proc_state(t.pid);
			if (c == 'S') { if (++sleeps >= 3) return 2; } else sleeps = 0;
			usleep(100);
			continue;
		}
		if (WIFEXITED(st) || WIFSIGNALED(st)) { t.state = 3; return 1; }
		if (!WIFSTOPPED(st)) continue;
		int ss = WSTOPSIG(st);
		if (ss == (SIGTRAP | 0x80)) return 0;
		// signal delivery stop: pass the signal on and keep going
		int sig = (ss != SIGTRAP && ss != SIGSTOP) ? ss : 0;
		if (ptrace(PTRACE_SYSCALL, t.pid, 0, sig) != 0) { t.state = 3; return 1; }
	}
}

// run tracee t from its current stop up to its next scheduling stop.  returns 0 = stopped at an interesting entry (t.pending set),
// 1 = exited, 2 = blocked, 3 = reached MARK 2
static int advance(Tr& t)
{
	for (;;) {
		bool lockw = false;
		if (!t.at_exit_pending) {
			if (!t.entry && t.cur_nr == SYS_fcntl) lockw = true;       // we are at the entry stop of an fcntl: its exit may not come
			if (ptrace(PTRACE_SYSCALL, t.pid, 0, 0) != 0) { t.state = 3; return 1; }
			int w = wait_stop(t, lockw);
			if (w == 1) return 1;
			if (w == 2) { t.blocked = true; return 2; }
		}
		t.at_exit_pending = false;
		struct user_regs_struct regs;
		if (ptrace(PTRACE_GETREGS, t.pid, 0, &regs) != 0) { t.state = 3; return 1; }
		if (t.entry) {
			t.entry = false;
			t.cur_nr = regs.orig_rax;
			if (t.cur_nr == SYS_ioctl && (int)regs.rdi == -1 && (regs.rsi & 0xFFFF0000UL) == MAGIC) {
				if ((regs.rsi & 0xFFFF) == 2) { t.state = 2; t.pending = "window-end"; return 3; }
				continue;
			}
			std::string d;
			if (interesting(t, regs, d)) { t.pending = d; return 0; }
		} else {
			t.entry = true;
			track_exit(t, regs);
		}
	}
}

static int schedule_main(std::vector<std::string>& margs, char** prog)
{
	std::string outfile = margs.at(0);
	std::vector<int> choices;
	{ const char* c = margs.at(1).c_str(); char* e; while (*c) { if (*c == ',' || *c == '-') { c++; continue; } long v = strtol(c, &e, 10); if (e == c) break; choices.push_back((int)v); c = e; } }
	int n = atoi(margs.at(2).c_str());
	std::vector<Tr> T(n);
	for (int i = 0; i < n; i++) {
		int fin = atoi(margs.at(3 + 2 * i).c_str()), fout = atoi(margs.at(4 + 2 * i).c_str());
		pid_t pid = fork();
		if (pid == 0) {
			dup2(fin, 0); dup2(fout, 1);
			for (int fd = 3; fd < 256; fd++) close(fd);
			ptrace(PTRACE_TRACEME, 0, 0, 0);
			raise(SIGSTOP);
			execv(prog[0], prog);
			_exit(127);
		}
		T[i].pid = pid;
		int st; waitpid(pid, &st, __WALL);
		ptrace(PTRACE_SETOPTIONS, pid, 0, PTRACE_O_TRACESYSGOOD | PTRACE_O_EXITKILL);
	}
	for (int i = 0; i < n; i++) { close(atoi(margs.at(3 + 2 * i).c_str())); close(atoi(margs.at(4 + 2 * i).c_str())); }
	std::string points, error;
	long blocked_events = 0, npoints = 0;
	bool window_done = false;
	for (int i = 0; i < n; i++) ptrace(PTRACE_SYSCALL, T[i].pid, 0, 0);
	// free-running multiplexer
	for (;;) {
		int alive = 0; for (auto& t : T) if (t.state != 3) alive++;
		if (!alive) break;
		int held = 0, inwin = 0; for (auto& t : T) { if (t.state == 1) held++; if (t.state != 3) inwin++; }
		if (!window_done && held > 0 && held == inwin) {
			// ---------------- the window: one tracee at a time
			int cur = -1;
			size_t ci = 0;
			for (;;) {
				// blocked tracees whose lock has been granted meanwhile (state is no longer 'S') become enabled again
				for (auto& t : T) if (t.state == 1 && t.blocked) {
					char c = proc_state(t.pid);
					if (c != 'S') { int w = wait_stop(t, false); if (w == 0) { t.blocked = false; t.at_exit_pending = true; } }
				}
				std::vector<int> en;
				if (cur >= 0 && T[cur].state == 1 && !T[cur].blocked) en.push_back(cur);
				for (int i = 0; i < n; i++) if (i != cur && T[i].state == 1 && !T[i].blocked) en.push_back(i);
				if (en.empty()) {
					bool anyb = false; for (auto& t : T) if (t.state == 1 && t.blocked) anyb = true;
					if (anyb) error = "deadlock: every unfinished process waits for a file lock";
					break;
				}
				int idx = ci < choices.size() ? choices[ci] : 0;
				ci++;
				if (idx < 0 || idx >= (int)en.size()) { error = "schedule choice out of range"; break; }
				int ch = en[idx];
				char tmp[64];
				snprintf(tmp, sizeof tmp, "%s[%d,%d,\"", npoints ? "," : "", (cur >= 0 && T[cur].state == 1 && !T[cur].blocked) ? cur : -1, ch);
				points += tmp; points += jesc(T[ch].pending); points += "\",[";
				for (size_t k = 0; k < en.size(); k++) { snprintf(tmp, sizeof tmp, "%s%d", k ? "," : "", en[k]); points += tmp; }
				points += "]]";
				npoints++;
				int w = advance(T[ch]);
				if (w == 2) blocked_events++;
				cur = ch;
				if (npoints > 20000) { error = "more than 20000 scheduling points"; break; }
			}
			window_done = true;
			// release everybody (window done, blocked or not)
			for (auto& t : T) if (t.state == 1 || t.state == 2) { t.state = 0; if (!t.blocked) ptrace(PTRACE_SYSCALL, t.pid, 0, 0); t.blocked = false; t.at_exit_pending = false; }
			FILE* f = fopen(outfile.c_str(), "w");
			if (f) { fprintf(f, "{\"points\":[%s],\"error\":\"%s\",\"blocked_events\":%ld}\n", points.c_str(), jesc(error).c_str(), blocked_events); fclose(f); }
			continue;
		}
		int st = 0;
		pid_t r = waitpid(-1, &st, __WALL);
		if (r < 0) { if (errno == EINTR) continue; break; }
		Tr* t = NULL; for (auto& x : T) if (x.pid == r) t = &x;
		if (!t) continue;
		if (WIFEXITED(st) || WIFSIGNALED(st)) { t->state = 3; continue; }
		if (!WIFSTOPPED(st)) continue;
		int ss = WSTOPSIG(st);
		if (ss != (SIGTRAP | 0x80)) { ptrace(PTRACE_SYSCALL, r, 0, (ss != SIGTRAP && ss != SIGSTOP) ? ss : 0); continue; }
		struct user_regs_struct regs;
		if (ptrace(PTRACE_GETREGS, r, 0, &regs) != 0) { t->state = 3; continue; }
		if (t->entry) {
			t->entry = false;
			t->cur_nr = regs.orig_rax;
			if (!window_done && t->cur_nr == SYS_ioctl && (int)regs.rdi == -1 && (regs.rsi & 0xFFFF0000UL) == MAGIC && (regs.rsi & 0xFFFF) == 1) {
				t->state = 1; t->pending = "window-start";
				continue;       // held at the entry of the marker
			}
		} else {
			t->entry = true;
			track_exit(*t, regs);
		}
		ptrace(PTRACE_SYSCALL, r, 0, 0);
	}
	if (!window_done) { FILE* f = fopen(outfile.c_str(), "w"); if (f) { fprintf(f, "{\"points\":[],\"error\":\"window never started\",\"blocked_events\":0}\n"); fclose(f); } }
	return 0;
}

int main(int argc, char** argv)
{
	if (argc < 4) { fprintf(stderr, "usage: fsx <mode> [args] -- program...\n"); return 2; }
	std::string mode = argv[1];
	std::vector<std::string> margs;
	int i = 2;
	for (; i < argc && strcmp(argv[i], "--"); i++) margs.push_back(argv[i]);
	if (i >= argc - 0 || i + 1 >= argc) { fprintf(stderr, "fsx: missing program\n"); return 2; }
	char** prog = argv + i + 1;
	if (mode == "schedule") return schedule_main(margs, prog);

	pid_t pid = fork();
	if (pid < 0) { perror("fork"); return 2; }
	if (pid == 0) {
		ptrace(PTRACE_TRACEME, 0, 0, 0);
		raise(SIGSTOP);
		execv(prog[0], prog);
		perror("execv");
		_exit(127);
	}
	int st = 0;
	waitpid(pid, &st, 0);
	ptrace(PTRACE_SETOPTIONS, pid, 0, PTRACE_O_TRACESYSGOOD | PTRACE_O_EXITKILL);

	FILE* log = NULL;
	std::string snapdir, subdir;
	long target_k = -1, fault_errno = 0, short_n = -1;
	if (mode == "record") log = fopen(margs.at(0).c_str(), "w");
	else if (mode == "crashpoints") { snapdir = margs.at(0); subdir = margs.at(1); mkdir(snapdir.c_str(), 0700); log = fopen((snapdir + "/points.jsonl").c_str(), "w"); }
	else if (mode == "kill") target_k = atol(margs.at(0).c_str());
	else if (mode == "fault") { target_k = atol(margs.at(0).c_str()); fault_errno = atol(margs.at(1).c_str()); if (margs.size() > 2) log = fopen(margs[2].c_str(), "w"); }
	else if (mode == "shortwrite") { target_k = atol(margs.at(0).c_str()); short_n = atol(margs.at(1).c_str()); }
	else { fprintf(stderr, "fsx: unknown mode %s\n", mode.c_str()); kill(pid, SIGKILL); return 2; }

	std::map<long, std::string> fdpath;      // fd -> path of files opened inside or before the window (best effort)
	bool in_window = false, entry = true, injected = false;
	long nfs = 0, nmut = 0;
	long cur_nr = -1;
	bool cur_mut = false;
	std::string cur_desc;
	int sig = 0;
	for (;;) {
		if (ptrace(PTRACE_SYSCALL, pid, 0, sig) != 0) break;
		sig = 0;
		if (waitpid(pid, &st, 0) < 0) break;
		if (WIFEXITED(st) || WIFSIGNALED(st)) break;
		if (!WIFSTOPPED(st)) continue;
		int ss = WSTOPSIG(st);
		if (ss != (SIGTRAP | 0x80)) { if (ss != SIGTRAP && ss != SIGSTOP) sig = ss; continue; }
		struct user_regs_struct regs;
		if (ptrace(PTRACE_GETREGS, pid, 0, &regs) != 0) break;
		if (entry) {
			entry = false;
			cur_nr = regs.orig_rax;
			cur_mut = false;
			injected = false;
			if (cur_nr == SYS_ioctl && (int)regs.rdi == -1 && (regs.rsi & 0xFFFF0000UL) == MAGIC) {
				unsigned long n = regs.rsi & 0xFFFF;
				if (n == 1) { in_window = true; nfs = nmut = 0; }
				else if (n == 2) {
					if (in_window && mode == "crashpoints") {
						copytree(subdir, snapdir + "/" + std::to_string(nmut + 1));
						if (log) { fprintf(log, "{\"point\":%ld,\"before\":\"window-end\"}\n", nmut + 1); fflush(log); }
					}
					in_window = false;
				}
				continue;
			}
			if (!in_window) continue;
			const Sc* sc = NULL;
			for (const Sc& t : TABLE) if (t.nr == cur_nr) { sc = &t; break; }
			if (!sc) continue;
			std::string path;
			long fd = -1;
			if (sc->path0) path = read_string(pid, regs.rdi);
			if (sc->path1) path = read_string(pid, regs.rsi);
			if (sc->fd0) { fd = (long)regs.rdi; auto it = fdpath.find(fd); if (it != fdpath.end()) path = it->second; }
			if (sc->fd0 && fd >= 0 && fd <= 2) continue;                       // the protocol pipes
			if ((cur_nr == SYS_read || cur_nr == SYS_close || cur_nr == SYS_write || cur_nr == SYS_fcntl) && path.empty()) continue;    // descriptors we know nothing about (sockets, pipes, /dev/urandom)
			long flags = (cur_nr == SYS_open) ? regs.rsi : (cur_nr == SYS_openat ? regs.rdx : 0);
			if (cur_nr == SYS_creat) flags = O_CREAT | O_WRONLY | O_TRUNC;
			bool is_open = (cur_nr == SYS_open || cur_nr == SYS_openat || cur_nr == SYS_creat);
			if (is_open && (path.compare(0, 5, "/dev/") == 0 || path.compare(0, 6, "/proc/") == 0 || path.compare(0, 5, "/etc/") == 0 || path.compare(0, 5, "/usr/") == 0 || path.compare(0, 5, "/lib/") == 0)) continue;
			nfs++;
			cur_mut = (cur_nr == SYS_write || cur_nr == SYS_pwrite64 || cur_nr == SYS_writev || cur_nr == SYS_ftruncate || cur_nr == SYS_truncate || cur_nr == SYS_unlink || cur_nr == SYS_unlinkat ||
			           cur_nr == SYS_mkdir || cur_nr == SYS_mkdirat || cur_nr == SYS_rmdir || cur_nr == SYS_rename || cur_nr == SYS_renameat || cur_nr == SYS_renameat2 || cur_nr == SYS_link ||
			           cur_nr == SYS_linkat || cur_nr == SYS_fchmod || cur_nr == SYS_chmod || (is_open && (flags & (O_CREAT | O_TRUNC))));
			char tmp[96];
			snprintf(tmp, sizeof tmp, "\"n\":%ld,\"sys\":\"%s\"", nfs, sc->name);
			cur_desc = std::string(tmp) + ",\"path\":\"" + jesc(path) + "\"";
			if (is_open) { snprintf(tmp, sizeof tmp, ",\"flags\":%ld", flags); cur_desc += tmp; }
			if (cur_nr == SYS_write || cur_nr == SYS_pwrite64) { snprintf(tmp, sizeof tmp, ",\"count\":%llu", (unsigned long long)regs.rdx); cur_desc += tmp; }
			if (cur_nr == SYS_ftruncate) { snprintf(tmp, sizeof tmp, ",\"length\":%llu", (unsigned long long)regs.rsi); cur_desc += tmp; }
			if (cur_nr == SYS_fcntl) { snprintf(tmp, sizeof tmp, ",\"cmd\":%llu", (unsigned long long)regs.rsi); cur_desc += tmp; }
			if (cur_mut) {
				nmut++;
				if (mode == "crashpoints") {
					copytree(subdir, snapdir + "/" + std::to_string(nmut));
					if (log) { fprintf(log, "{\"point\":%ld,\"before\":{%s}}\n", nmut, cur_desc.c_str()); fflush(log); }
				}
				if (mode == "kill" && nmut == target_k) { kill(pid, SIGKILL); waitpid(pid, &st, 0); return 0; }
			}
			if ((mode == "fault" && nfs == target_k) || (mode == "shortwrite" && nfs == target_k && (cur_nr == SYS_write || cur_nr == SYS_pwrite64))) {
				if (mode == "fault") { regs.orig_rax = (unsigned long long)-1; injected = true; }
				else if ((long)regs.rdx > short_n) regs.rdx = short_n;
				ptrace(PTRACE_SETREGS, pid, 0, &regs);
			}
		} else {
			entry = true;
			if (injected) { regs.rax = (unsigned long long)(-fault_errno); ptrace(PTRACE_SETREGS, pid, 0, &regs); }
			if (!in_window) {
				// keep the fd table roughly right outside the window too (files opened during set-up)
				if ((cur_nr == SYS_openat || cur_nr == SYS_open) && (long)regs.rax >= 0) fdpath[(long)regs.rax] = read_string(pid, cur_nr == SYS_open ? regs.rdi : regs.rsi);
				if (cur_nr == SYS_close) fdpath.erase((long)regs.rdi);
				continue;
			}
			if ((cur_nr == SYS_openat || cur_nr == SYS_open || cur_nr == SYS_creat) && (long)regs.rax >= 0) fdpath[(long)regs.rax] = read_string(pid, cur_nr == SYS_openat ? regs.rsi : regs.rdi);
			if (cur_nr == SYS_close && (long)regs.rax == 0) fdpath.erase((long)regs.rdi);
			if (log && mode != "crashpoints" && !cur_desc.empty()) { fprintf(log, "{%s,\"mut\":%s,\"ret\":%lld%s}\n", cur_desc.c_str(), cur_mut ? "true" : "false", (long long)regs.rax, injected ? ",\"injected\":true" : ""); fflush(log); }
			cur_desc.clear();
		}
	}
	if (log) fclose(log);
	if (WIFEXITED(st)) return WEXITSTATUS(st);
	if (WIFSIGNALED(st)) return 128 + WTERMSIG(st);
	return 0;
}
