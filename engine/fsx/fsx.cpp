// fsx - file-system level control of a traced p11sh (ptrace).   usage:  fsx <mode> [args] -- <program> [args...]
//
// The tracee (p11sh) brackets the call under test with marker syscalls  ioctl(-1, 0x56460000 + n)  (command MARK n):
//   n = 1 window start, n = 2 window end.  Only syscalls inside the window are acted upon.
//
// modes
//   record <logfile>                 log every file-system syscall of the window (one JSON object per line)
//   crashpoints <snapdir> <subdir>   before EVERY mutating syscall of the window (and at the window end) copy <subdir> (relative to the
//                                    tracee's cwd) to <snapdir>/<k>: the copy is the disk state a process killed at that instant leaves
//                                    (unflushed stdio buffers live in the dead process, completed syscalls are in the kernel).
//                                    <snapdir>/points.jsonl describes each point (index, the syscall about to happen).
//   kill <k>                         literal crash: SIGKILL the tracee right before the k-th mutating syscall of the window
//   fault <k> <errno> [<logfile>]    make the k-th file-system syscall of the window (1-based, counted over the `record` order) fail with -errno
//                                    without executing it; `shortwrite <k> <n>` truncates the byte count of the k-th write instead
// The tracee's stdin/stdout are inherited, so the Python client talks to p11sh as usual.
#include <cerrno>
#include <cstdio>
#include <cstdlib>
#include <cstring>
#include <map>
#include <string>
#include <vector>
#include <dirent.h>
#include <fcntl.h>
#include <signal.h>
#include <unistd.h>
#include <sys/ptrace.h>
#include <sys/stat.h>
#include <sys/syscall.h>
#include <sys/types.h>
#include <sys/uio.h>
#include <sys/user.h>
#include <sys/wait.h>

static const unsigned long MAGIC = 0x56460000UL;

static void copytree(const std::string& from, const std::string& to)
{
	struct stat st;
	if (lstat(from.c_str(), &st) != 0) return;
	if (S_ISDIR(st.st_mode)) {
		mkdir(to.c_str(), 0700);
		DIR* d = opendir(from.c_str());
		if (!d) return;
		struct dirent* e;
		while ((e = readdir(d))) {
			if (!strcmp(e->d_name, ".") || !strcmp(e->d_name, "..")) continue;
			copytree(from + "/" + e->d_name, to + "/" + e->d_name);
		}
		closedir(d);
		chmod(to.c_str(), st.st_mode & 07777);
	} else if (S_ISREG(st.st_mode)) {
		int a = open(from.c_str(), O_RDONLY);
		int b = open(to.c_str(), O_WRONLY | O_CREAT | O_TRUNC, 0600);
		char buf[65536]; ssize_t n;
		while (a >= 0 && b >= 0 && (n = read(a, buf, sizeof buf)) > 0) { ssize_t w = write(b, buf, n); (void)w; }
		if (a >= 0) close(a);
		if (b >= 0) { fchmod(b, st.st_mode & 07777); close(b); }
	}
}

static std::string read_string(pid_t pid, unsigned long addr)
{
	std::string out;
	if (!addr) return out;
	char buf[256];
	for (int round = 0; round < 16; round++) {
		struct iovec l = {buf, sizeof buf}, r = {(void*)(addr + out.size()), sizeof buf};
		ssize_t n = process_vm_readv(pid, &l, 1, &r, 1, 0);
		if (n <= 0) {
			// page boundary: read word by word
			errno = 0;
			long w = ptrace(PTRACE_PEEKDATA, pid, (void*)(addr + out.size()), 0);
			if (errno) break;
			memcpy(buf, &w, sizeof w); n = sizeof w;
		}
		for (ssize_t i = 0; i < n; i++) { if (!buf[i]) return out; out.push_back(buf[i]); }
	}
	return out;
}

static std::string jesc(const std::string& s)
{
	std::string o;
	for (char c : s) { if (c == '"' || c == '\\') { o += '\\'; o += c; } else if ((unsigned char)c < 0x20) o += '?'; else o += c; }
	return o;
}

struct Sc { long nr; const char* name; bool path0; bool path1; bool fd0; };
static const Sc TABLE[] = {
	{SYS_open, "open", true, false, false}, {SYS_openat, "openat", false, true, false}, {SYS_creat, "creat", true, false, false},
	{SYS_write, "write", false, false, true}, {SYS_pwrite64, "pwrite64", false, false, true}, {SYS_writev, "writev", false, false, true},
	{SYS_ftruncate, "ftruncate", false, false, true}, {SYS_truncate, "truncate", true, false, false},
	{SYS_unlink, "unlink", true, false, false}, {SYS_unlinkat, "unlinkat", false, true, false}, {SYS_mkdir, "mkdir", true, false, false}, {SYS_mkdirat, "mkdirat", false, true, false},
	{SYS_rmdir, "rmdir", true, false, false}, {SYS_rename, "rename", true, false, false}, {SYS_renameat, "renameat", false, true, false}, {SYS_renameat2, "renameat2", false, true, false},
	{SYS_link, "link", true, false, false}, {SYS_linkat, "linkat", false, true, false}, {SYS_fsync, "fsync", false, false, true}, {SYS_fdatasync, "fdatasync", false, false, true},
	{SYS_close, "close", false, false, true}, {SYS_fcntl, "fcntl", false, false, true}, {SYS_flock, "flock", false, false, true}, {SYS_getdents64, "getdents64", false, false, true},
	{SYS_read, "read", false, false, true}, {SYS_fchmod, "fchmod", false, false, true}, {SYS_chmod, "chmod", true, false, false},
};

int main(int argc, char** argv)
{
	if (argc < 4) { fprintf(stderr, "usage: fsx <mode> [args] -- program...\n"); return 2; }
	std::string mode = argv[1];
	std::vector<std::string> margs;
	int i = 2;
	for (; i < argc && strcmp(argv[i], "--"); i++) margs.push_back(argv[i]);
	if (i >= argc - 0 || i + 1 >= argc) { fprintf(stderr, "fsx: missing program\n"); return 2; }
	char** prog = argv + i + 1;

	pid_t pid = fork();
	if (pid < 0) { perror("fork"); return 2; }
	if (pid == 0) {
		ptrace(PTRACE_TRACEME, 0, 0, 0);
		raise(SIGSTOP);
		execv(prog[0], prog);
		perror("execv");
		_exit(127);
	}
	int st = 0;
	waitpid(pid, &st, 0);
	ptrace(PTRACE_SETOPTIONS, pid, 0, PTRACE_O_TRACESYSGOOD | PTRACE_O_EXITKILL);

	FILE* log = NULL;
	std::string snapdir, subdir;
	long target_k = -1, fault_errno = 0, short_n = -1;
	if (mode == "record") log = fopen(margs.at(0).c_str(), "w");
	else if (mode == "crashpoints") { snapdir = margs.at(0); subdir = margs.at(1); mkdir(snapdir.c_str(), 0700); log = fopen((snapdir + "/points.jsonl").c_str(), "w"); }
	else if (mode == "kill") target_k = atol(margs.at(0).c_str());
	else if (mode == "fault") { target_k = atol(margs.at(0).c_str()); fault_errno = atol(margs.at(1).c_str()); if (margs.size() > 2) log = fopen(margs[2].c_str(), "w"); }
	else if (mode == "shortwrite") { target_k = atol(margs.at(0).c_str()); short_n = atol(margs.at(1).c_str()); }
	else { fprintf(stderr, "fsx: unknown mode %s\n", mode.c_str()); kill(pid, SIGKILL); return 2; }

	std::map<long, std::string> fdpath;      // fd -> path of files opened inside or before the window (best effort)
	bool in_window = false, entry = true, injected = false;
	long nfs = 0, nmut = 0;
	long cur_nr = -1;
	bool cur_mut = false;
	std::string cur_desc;
	int sig = 0;
	for (;;) {
		if (ptrace(PTRACE_SYSCALL, pid, 0, sig) != 0) break;
		sig = 0;
		if (waitpid(pid, &st, 0) < 0) break;
		if (WIFEXITED(st) || WIFSIGNALED(st)) break;
		if (!WIFSTOPPED(st)) continue;
		int ss = WSTOPSIG(st);
		if (ss != (SIGTRAP | 0x80)) { if (ss != SIGTRAP && ss != SIGSTOP) sig = ss; continue; }
		struct user_regs_struct regs;
		if (ptrace(PTRACE_GETREGS, pid, 0, &regs) != 0) break;
		if (entry) {
			entry = false;
			cur_nr = regs.orig_rax;
			cur_mut = false;
			injected = false;
			if (cur_nr == SYS_ioctl && (int)regs.rdi == -1 && (regs.rsi & 0xFFFF0000UL) == MAGIC) {
				unsigned long n = regs.rsi & 0xFFFF;
				if (n == 1) { in_window = true; nfs = nmut = 0; }
				else if (n == 2) {
					if (in_window && mode == "crashpoints") {
						copytree(subdir, snapdir + "/" + std::to_string(nmut + 1));
						if (log) { fprintf(log, "{\"point\":%ld,\"before\":\"window-end\"}\n", nmut + 1); fflush(log); }
					}
					in_window = false;
				}
				continue;
			}
			if (!in_window) continue;
			const Sc* sc = NULL;
			for (const Sc& t : TABLE) if (t.nr == cur_nr) { sc = &t; break; }
			if (!sc) continue;
			std::string path;
			long fd = -1;
			if (sc->path0) path = read_string(pid, regs.rdi);
			if (sc->path1) path = read_string(pid, regs.rsi);
			if (sc->fd0) { fd = (long)regs.rdi; auto it = fdpath.find(fd); if (it != fdpath.end()) path = it->second; }
			if (sc->fd0 && fd >= 0 && fd <= 2) continue;                       // the protocol pipes
			if ((cur_nr == SYS_read || cur_nr == SYS_close || cur_nr == SYS_write || cur_nr == SYS_fcntl) && path.empty()) continue;    // descriptors we know nothing about (sockets, pipes, /dev/urandom)
			long flags = (cur_nr == SYS_open) ? regs.rsi : (cur_nr == SYS_openat ? regs.rdx : 0);
			if (cur_nr == SYS_creat) flags = O_CREAT | O_WRONLY | O_TRUNC;
			bool is_open = (cur_nr == SYS_open || cur_nr == SYS_openat || cur_nr == SYS_creat);
			if (is_open && (path.compare(0, 5, "/dev/") == 0 || path.compare(0, 6, "/proc/") == 0 || path.compare(0, 5, "/etc/") == 0 || path.compare(0, 5, "/usr/") == 0 || path.compare(0, 5, "/lib/") == 0)) continue;
			nfs++;
			cur_mut = (cur_nr == SYS_write || cur_nr == SYS_pwrite64 || cur_nr == SYS_writev || cur_nr == SYS_ftruncate || cur_nr == SYS_truncate || cur_nr == SYS_unlink || cur_nr == SYS_unlinkat ||
			           cur_nr == SYS_mkdir || cur_nr == SYS_mkdirat || cur_nr == SYS_rmdir || cur_nr == SYS_rename || cur_nr == SYS_renameat || cur_nr == SYS_renameat2 || cur_nr == SYS_link ||
			           cur_nr == SYS_linkat || cur_nr == SYS_fchmod || cur_nr == SYS_chmod || (is_open && (flags & (O_CREAT | O_TRUNC))));
			char tmp[96];
			snprintf(tmp, sizeof tmp, "\"n\":%ld,\"sys\":\"%s\"", nfs, sc->name);
			cur_desc = std::string(tmp) + ",\"path\":\"" + jesc(path) + "\"";
			if (is_open) { snprintf(tmp, sizeof tmp, ",\"flags\":%ld", flags); cur_desc += tmp; }
			if (cur_nr == SYS_write || cur_nr == SYS_pwrite64) { snprintf(tmp, sizeof tmp, ",\"count\":%llu", (unsigned long long)regs.rdx); cur_desc += tmp; }
			if (cur_nr == SYS_ftruncate) { snprintf(tmp, sizeof tmp, ",\"length\":%llu", (unsigned long long)regs.rsi); cur_desc += tmp; }
			if (cur_nr == SYS_fcntl) { snprintf(tmp, sizeof tmp, ",\"cmd\":%llu", (unsigned long long)regs.rsi); cur_desc += tmp; }
			if (cur_mut) {
				nmut++;
				if (mode == "crashpoints") {
					copytree(subdir, snapdir + "/" + std::to_string(nmut));
					if (log) { fprintf(log, "{\"point\":%ld,\"before\":{%s}}\n", nmut, cur_desc.c_str()); fflush(log); }
				}
				if (mode == "kill" && nmut == target_k) { kill(pid, SIGKILL); waitpid(pid, &st, 0); return 0; }
			}
			if ((mode == "fault" && nfs == target_k) || (mode == "shortwrite" && nfs == target_k && (cur_nr == SYS_write || cur_nr == SYS_pwrite64))) {
				if (mode == "fault") { regs.orig_rax = (unsigned long long)-1; injected = true; }
				else if ((long)regs.rdx > short_n) regs.rdx = short_n;
				ptrace(PTRACE_SETREGS, pid, 0, &regs);
			}
		} else {
			entry = true;
			if (injected) { regs.rax = (unsigned long long)(-fault_errno); ptrace(PTRACE_SETREGS, pid, 0, &regs); }
			if (!in_window) {
				// keep the fd table roughly right outside the window too (files opened during set-up)
				if ((cur_nr == SYS_openat || cur_nr == SYS_open) && (long)regs.rax >= 0) fdpath[(long)regs.rax] = read_string(pid, cur_nr == SYS_open ? regs.rdi : regs.rsi);
				if (cur_nr == SYS_close) fdpath.erase((long)regs.rdi);
				continue;
			}
			if ((cur_nr == SYS_openat || cur_nr == SYS_open || cur_nr == SYS_creat) && (long)regs.rax >= 0) fdpath[(long)regs.rax] = read_string(pid, cur_nr == SYS_openat ? regs.rsi : regs.rdi);
			if (cur_nr == SYS_close && (long)regs.rax == 0) fdpath.erase((long)regs.rdi);
			if (log && mode != "crashpoints" && !cur_desc.empty()) { fprintf(log, "{%s,\"mut\":%s,\"ret\":%lld%s}\n", cur_desc.c_str(), cur_mut ? "true" : "false", (long long)regs.rax, injected ? ",\"injected\":true" : ""); fflush(log); }
			cur_desc.clear();
		}
	}
	if (log) fclose(log);
	if (WIFEXITED(st)) return WEXITSTATUS(st);
	if (WIFSIGNALED(st)) return 128 + WTERMSIG(st);
	return 0;
}
