// p11sh - a line-oriented PKCS#11 shell linked statically against the SoftHSMv2 variant under test.
// One request per line on stdin, one JSON answer per line on stdout (DESIGN.md 2.2 / Appendix B).
// The shell is a dumb marshaller: all typing knowledge (attribute kinds, struct layouts of mechanism
// parameters) lives in the Python client.  Every buffer handed to the library sits directly in front
// of a PROT_NONE guard page (outputs: announced bytes + 32 canary bytes + guard page).
//
// Blob syntax        x<hex> bytes | n<dec> NULL pointer with announced length | b<dec> canary-filled output buffer
// Template syntax    <hextype>:<blob>[#<len override>] , ...   with t[ ... ] for nested templates
// Mechanism syntax   null | <hextype>:- | <hextype>:<blob> | <hextype>:p(<hexstruct>|<off>:<blob>|...)  (pointer patching)
//
// SNAP forks: the parent blocks in waitpid, the child copies the current directory (conf + token dir)
// to a sibling, chdirs into it and goes on serving; BACK ends the child, the parent resumes.  The input
// buffer lives in a MAP_SHARED mapping so that pipelined requests are consumed exactly once.
#include <cstdio>
#include <cstdlib>
#include <cstring>
#include <cstdint>
#include <cerrno>
#include <string>
#include <vector>
#include <map>
#include <unistd.h>
#include <fcntl.h>
#include <dirent.h>
#include <signal.h>
#include <pthread.h>
#include <sys/mman.h>
#include <sys/stat.h>
#include <sys/wait.h>
#include <sys/types.h>
#include <sys/syscall.h>
#include "cryptoki.h"

#if defined(__SANITIZE_ADDRESS__)
#define HAVE_ASAN 1
#endif

// ------------------------------------------------------------------------------------------------
// shared state between the processes of one fork chain
struct Shared {
	volatile unsigned long asan_errors;
	volatile int back_ok;
	volatile unsigned long snap_counter;
	size_t rd, wr;
	char data[1];
};
static Shared* sh;
static const size_t INBUF = 8u << 20;
static int depth = 0;
static bool draining = false;

#ifdef HAVE_ASAN
extern "C" void __asan_on_error() { if (sh) sh->asan_errors++; }
#endif

// ------------------------------------------------------------------------------------------------
// guarded allocations, freed after each command
struct Region { void* base; size_t len; };
static thread_local std::vector<Region> regions;
static const size_t PG = 4096;
static const size_t TRAIL = 32;

static uint8_t* galloc(size_t n, size_t trail)
{
	size_t total = n + trail;
	size_t dpages = (total + PG - 1) / PG;
	if (dpages == 0) dpages = 1;
	size_t len = (dpages + 1) * PG;
	uint8_t* base = (uint8_t*)mmap(NULL, len, PROT_READ | PROT_WRITE, MAP_PRIVATE | MAP_ANONYMOUS, -1, 0);
	if (base == MAP_FAILED) { perror("mmap"); _exit(99); }
	mprotect(base + dpages * PG, PG, PROT_NONE);
	regions.push_back({base, len});
	return base + dpages * PG - total;
}
static void gfree_all()
{
	for (auto& r : regions) munmap(r.base, r.len);
	regions.clear();
}
static inline uint8_t canary(size_t i) { return (uint8_t)(0xC5 ^ (i * 37)); }

// ------------------------------------------------------------------------------------------------
static int hexv(char c) { if (c >= '0' && c <= '9') return c - '0'; if (c >= 'a' && c <= 'f') return c - 'a' + 10; if (c >= 'A' && c <= 'F') return c - 'A' + 10; return -1; }
static void hexout(std::string& o, const uint8_t* p, size_t n)
{
	static const char* d = "0123456789abcdef";
	size_t at = o.size(); o.resize(at + 2 * n);
	for (size_t i = 0; i < n; i++) { o[at + 2 * i] = d[p[i] >> 4]; o[at + 2 * i + 1] = d[p[i] & 15]; }
}

struct Blob {
	char kind = 'n';           // x input, n null, b output buffer, t nested template
	uint8_t* p = NULL;
	unsigned long len = 0;     // announced length
	size_t cap = 0;            // real bytes behind p (without trailing canary)
	std::vector<struct Ent> *nested = NULL;
};
struct Ent { CK_ATTRIBUTE_TYPE type; Blob b; };

static bool parse_tpl(const char*& s, std::vector<Ent>& ents, std::string& err);
static CK_ATTRIBUTE* build_tpl(std::vector<Ent>& ents);

// parses x.. n.. b.. (and t[..] when allow_t) starting at s; stops at , ] | ) or end
static bool parse_blob(const char*& s, Blob& b, bool allow_t, std::string& err)
{
	b.kind = *s;
	if (*s == 'x') {
		s++;
		const char* e = s; while (hexv(*e) >= 0) e++;
		size_t n = (e - s) / 2;
		b.p = galloc(n, 0); b.len = n; b.cap = n;
		for (size_t i = 0; i < n; i++) b.p[i] = (uint8_t)(hexv(s[2 * i]) * 16 + hexv(s[2 * i + 1]));
		s = e;
	} else if (*s == 'n') {
		s++; b.p = NULL; b.len = strtoul(s, (char**)&s, 10); b.cap = 0;
	} else if (*s == 'b') {
		s++; size_t n = strtoul(s, (char**)&s, 10);
		b.p = galloc(n, TRAIL); b.len = n; b.cap = n;
		for (size_t i = 0; i < n + TRAIL; i++) b.p[i] = canary(i);
	} else if (*s == 't' && allow_t) {
		s++; if (*s != '[') { err = "expected ["; return false; }
		s++;
		b.nested = new std::vector<Ent>();
		if (!parse_tpl(s, *b.nested, err)) return false;
		if (*s != ']') { err = "expected ]"; return false; }
		s++;
		b.p = (uint8_t*)build_tpl(*b.nested);
		b.len = b.nested->size() * sizeof(CK_ATTRIBUTE); b.cap = b.len;
	} else { err = std::string("bad blob kind '") + *s + "'"; return false; }
	if (*s == '#') { s++; b.len = strtoul(s, (char**)&s, 10); }
	return true;
}

static bool parse_tpl(const char*& s, std::vector<Ent>& ents, std::string& err)
{
	while (*s && *s != ']') {
		Ent e;
		e.type = strtoul(s, (char**)&s, 16);
		if (*s != ':') { err = "expected : in template"; return false; }
		s++;
		if (!parse_blob(s, e.b, true, err)) return false;
		ents.push_back(e);
		if (*s == ',') s++;
	}
	return true;
}

static CK_ATTRIBUTE* build_tpl(std::vector<Ent>& ents)
{
	CK_ATTRIBUTE* a = (CK_ATTRIBUTE*)galloc(ents.size() * sizeof(CK_ATTRIBUTE), 0);
	for (size_t i = 0; i < ents.size(); i++) { a[i].type = ents[i].type; a[i].pValue = ents[i].b.p; a[i].ulValueLen = ents[i].b.len; }
	return a;
}

// highest modified offset + 1 in an output buffer (including the trailing canary zone)
static size_t wmax_of(const Blob& b)
{
	if (b.kind != 'b' || !b.p) return 0;
	size_t m = 0;
	for (size_t i = 0; i < b.cap + TRAIL; i++) if (b.p[i] != canary(i)) m = i + 1;
	return m;
}

static void dump_tpl(std::string& o, CK_ATTRIBUTE* a, std::vector<Ent>& ents)
{
	o += "[";
	for (size_t i = 0; i < ents.size(); i++) {
		if (i) o += ",";
		char tmp[64];
		long l = (a[i].ulValueLen == CK_UNAVAILABLE_INFORMATION) ? -1L : (long)a[i].ulValueLen;
		snprintf(tmp, sizeof tmp, "[%lu,%ld,", (unsigned long)a[i].type, l);
		o += tmp;
		Blob& b = ents[i].b;
		if (b.kind == 'b') {
			size_t w = wmax_of(b);
			size_t n = w;
			if (l >= 0 && (size_t)l <= b.cap && (size_t)l > n) n = (size_t)l;
			if (n > b.cap + TRAIL) n = b.cap + TRAIL;
			o += "\""; hexout(o, b.p, n); o += "\"";
			snprintf(tmp, sizeof tmp, ",%zu", w); o += tmp;
		} else if (b.kind == 't' && b.nested) {
			dump_tpl(o, (CK_ATTRIBUTE*)b.p, *b.nested);
		} else o += "null";
		o += "]";
	}
	o += "]";
}


// ------------------------------------------------------------------------------------------------
// thrmc: deterministic thread scheduler behind the application mutex callbacks (C18, DESIGN 2.5).
// Only the baton holder runs.  LockMutex is a scheduling point and blocks in the scheduler (never in the kernel) while the mutex is
// owned; thread start and thread end are scheduling points as well.  The choice at each point comes from the schedule prefix given
// by the explorer, afterwards the default policy applies: keep the running thread if it is enabled, else the lowest enabled id.
struct SMutex { int owner; bool alive; };
struct SPoint { int running; std::vector<int> enabled; int chosen; char kind; };
struct Sched {
	bool active = false;
	int nthreads = 0;
	int current = -1;                 // baton
	std::vector<int> waiting_on;      // per thread: index of the mutex it wants (-1 none)
	std::vector<bool> finished, started;
	std::vector<SMutex> mutexes;      // index = id stored behind the CK_VOID_PTR
	std::vector<int> prefix;
	std::vector<SPoint> points;
	std::string error;                // deadlock / protocol violation
	pthread_mutex_t mu = PTHREAD_MUTEX_INITIALIZER;
	pthread_cond_t cv = PTHREAD_COND_INITIALIZER;
	unsigned long created = 0, destroyed = 0, locks = 0, unlocks = 0;
	size_t max_points = 200000;
};
static Sched S;
static thread_local int my_tid = -1;

// scheduler-internal synchronisation.  Normal builds: a pthread mutex + condition variable.  ThreadSanitizer build: raw futex primitives from
// rawsync.c (uninstrumented), so that the baton hand-over is NOT a happens-before edge for the detector; the library's own mutexes (the
// callbacks below) are announced with __tsan_acquire / __tsan_release instead.
#if defined(__SANITIZE_THREAD__)
extern "C" { void raw_lock(volatile int*); void raw_unlock(volatile int*); int raw_load(volatile int*); void raw_bump_and_wake(volatile int*); void raw_wait_while(volatile int*, int);
             void __tsan_acquire(void*); void __tsan_release(void*); }
static volatile int S_rawmu = 0, S_rawseq = 0;
static char S_tsan_keys[8192][8];
#define SLOCK() raw_lock(&S_rawmu)
#define SUNLOCK() raw_unlock(&S_rawmu)
#define SBROADCAST() raw_bump_and_wake(&S_rawseq)
#define SWAIT() do { int seq_ = raw_load(&S_rawseq); raw_unlock(&S_rawmu); raw_wait_while(&S_rawseq, seq_); raw_lock(&S_rawmu); } while (0)
#define TSAN_ACQ(i) __tsan_acquire((void*)S_tsan_keys[(i) % 8192])
#define TSAN_REL(i) __tsan_release((void*)S_tsan_keys[(i) % 8192])
#define NOTSAN __attribute__((no_sanitize_thread))
#else
#define SLOCK() pthread_mutex_lock(&S.mu)
#define SUNLOCK() pthread_mutex_unlock(&S.mu)
#define SBROADCAST() pthread_cond_broadcast(&S.cv)
#define SWAIT() pthread_cond_wait(&S.cv, &S.mu)
#define TSAN_ACQ(i) do {} while (0)
#define TSAN_REL(i) do {} while (0)
#define NOTSAN
#endif

NOTSAN static bool s_enabled(int t)
{
	if (S.finished[t]) return false;
	int w = S.waiting_on[t];
	if (w < 0) return true;
	return S.mutexes[w].owner < 0;
}
// called with S.mu held by the baton holder `me` (or -1 for the initial choice); picks the next runner and waits until `me` holds the baton again
NOTSAN static void s_choose(int me, char kind)
{
	std::vector<int> en;
	if (me >= 0 && s_enabled(me)) en.push_back(me);
	for (int t = 0; t < S.nthreads; t++) if (t != me && s_enabled(t)) en.push_back(t);
	if (en.empty()) {
		bool all_done = true;
		for (int t = 0; t < S.nthreads; t++) if (!S.finished[t]) all_done = false;
		if (!all_done && S.error.empty()) S.error = "deadlock: no enabled thread";
		S.current = -2;                       // release everybody: the run is over (or broken)
		SBROADCAST();
		return;
	}
	size_t i = S.points.size();
	int choice = 0;
	if (i < S.prefix.size()) { choice = S.prefix[i]; if (choice < 0 || choice >= (int)en.size()) { if (S.error.empty()) S.error = "schedule prefix diverged at point " + std::to_string(i); choice = 0; } }
	SPoint pt; pt.running = me; pt.enabled = en; pt.chosen = en[choice]; pt.kind = kind;
	if (S.points.size() < S.max_points) S.points.push_back(pt);
	else if (S.error.empty()) S.error = "too many scheduling points";
	S.current = en[choice];
	SBROADCAST();
}
NOTSAN static void s_wait_baton(int me)
{
	while (S.current != me && S.current != -2) SWAIT();
}
NOTSAN static CK_RV scb_create(CK_VOID_PTR_PTR pp)
{
	SLOCK();
	S.mutexes.push_back({-1, true});
	*pp = (CK_VOID_PTR)(uintptr_t)(S.mutexes.size());       // id + 1, never NULL
	S.created++;
	SUNLOCK();
	return CKR_OK;
}
NOTSAN static int s_index(CK_VOID_PTR p, const char* what)
{
	uintptr_t v = (uintptr_t)p;
	if (v == 0 || v > S.mutexes.size() || !S.mutexes[v - 1].alive) { if (S.error.empty()) S.error = std::string("mutex protocol: ") + what + " on a mutex the application did not create (or destroyed)"; return -1; }
	return (int)(v - 1);
}
NOTSAN static CK_RV scb_destroy(CK_VOID_PTR p)
{
	SLOCK();
	int i = s_index(p, "DestroyMutex");
	if (i >= 0) { if (S.mutexes[i].owner >= 0 && S.error.empty()) S.error = "mutex protocol: DestroyMutex on a locked mutex"; S.mutexes[i].alive = false; S.destroyed++; }
	SUNLOCK();
	return CKR_OK;
}
NOTSAN static CK_RV scb_lock(CK_VOID_PTR p)
{
	SLOCK();
	S.locks++;
	int i = s_index(p, "LockMutex");
	if (i < 0) { SUNLOCK(); return CKR_OK; }
	int me = S.active ? my_tid : -1;
	if (me < 0) {          // single-threaded phase (set-up / final observations): no scheduling
		if (S.mutexes[i].owner != -1 && S.error.empty()) S.error = "mutex protocol: LockMutex on an owned mutex outside the threaded phase";
		S.mutexes[i].owner = 100;
		SUNLOCK();
		TSAN_ACQ(i);
		return CKR_OK;
	}
	if (S.mutexes[i].owner == me && S.error.empty()) S.error = "mutex protocol: re-lock by the owner";
	S.waiting_on[me] = i;
	s_choose(me, 'L');
	s_wait_baton(me);
	if (S.current == -2) { S.waiting_on[me] = -1; SUNLOCK(); return CKR_OK; }      // run aborted (deadlock): let the thread unwind
	// we hold the baton and the mutex is free (that is what enabled means)
	S.mutexes[i].owner = me;
	S.waiting_on[me] = -1;
	SUNLOCK();
	TSAN_ACQ(i);
	return CKR_OK;
}
NOTSAN static CK_RV scb_unlock(CK_VOID_PTR p)
{
	{ uintptr_t v_ = (uintptr_t)p; if (v_) TSAN_REL((int)(v_ - 1)); }
	SLOCK();
	S.unlocks++;
	int i = s_index(p, "UnlockMutex");
	if (i >= 0) {
		int me = S.active ? my_tid : 100;
		if (S.mutexes[i].owner != me && S.current != -2 && S.error.empty()) S.error = "mutex protocol: UnlockMutex by a thread that does not own the mutex";
		S.mutexes[i].owner = -1;
	}
	SUNLOCK();
	return CKR_OK;
}

// ------------------------------------------------------------------------------------------------
// request
struct Req {
	std::string cmd;
	std::vector<std::pair<std::string, std::string>> kv;
	const char* get(const char* k) const { for (auto& p : kv) if (p.first == k) return p.second.c_str(); return NULL; }
	bool has(const char* k) const { return get(k) != NULL; }
	unsigned long U(const char* k, unsigned long dflt = 0) const { const char* v = get(k); if (!v) return dflt; return strtoul(v, NULL, 0); }
};

struct Mech { CK_MECHANISM* m = NULL; };
static bool parse_mech(const Req& r, const char* key, Mech& out, std::string& err)
{
	const char* s = r.get(key);
	if (!s || !strcmp(s, "null")) { out.m = NULL; return true; }
	CK_MECHANISM* m = (CK_MECHANISM*)galloc(sizeof(CK_MECHANISM), 0);
	m->mechanism = strtoul(s, (char**)&s, 16);
	m->pParameter = NULL; m->ulParameterLen = 0;
	if (*s != ':') { err = "expected : in mechanism"; return false; }
	s++;
	if (*s == '-') { s++; }
	else if (*s == 'p') {
		s++; if (*s != '(') { err = "expected ("; return false; }
		s++;
		Blob st; if (*s != 'x') { err = "struct must be x"; return false; }
		if (!parse_blob(s, st, false, err)) return false;
		while (*s == '|') {
			s++;
			size_t off = strtoul(s, (char**)&s, 10);
			if (*s != ':') { err = "expected : in patch"; return false; }
			s++;
			Blob inner; if (!parse_blob(s, inner, false, err)) return false;
			if (off + sizeof(void*) <= st.cap) memcpy(st.p + off, &inner.p, sizeof(void*));
		}
		if (*s != ')') { err = "expected )"; return false; }
		s++;
		m->pParameter = st.p; m->ulParameterLen = st.len;
	} else {
		Blob b; if (!parse_blob(s, b, false, err)) return false;
		m->pParameter = b.p; m->ulParameterLen = b.len;
	}
	out.m = m;
	return true;
}

struct Tpl { CK_ATTRIBUTE* a = NULL; unsigned long n = 0; std::vector<Ent> ents; };
static bool parse_template(const Req& r, const char* key, Tpl& t, std::string& err)
{
	const char* s = r.get(key);
	if (!s) { t.a = NULL; t.n = 0; return true; }
	if (!strncmp(s, "null:", 5)) { t.a = NULL; t.n = strtoul(s + 5, NULL, 10); return true; }
	if (!parse_tpl(s, t.ents, err)) return false;
	t.a = build_tpl(t.ents); t.n = t.ents.size();
	std::string ck = std::string(key) + "cnt";
	if (r.has(ck.c_str())) t.n = r.U(ck.c_str());
	return true;
}
static bool parse_inblob(const Req& r, const char* key, Blob& b, std::string& err)
{
	const char* s = r.get(key);
	if (!s) { b.kind = 'n'; b.p = NULL; b.len = 0; return true; }
	return parse_blob(s, b, false, err);
}

// output helper: appends ,"len":L,"out":"hex","wmax":W for an output blob + returned length
static void out_fields(std::string& o, const Blob& b, unsigned long retlen, bool lenptr, CK_RV rv)
{
	char tmp[96];
	if (lenptr) { snprintf(tmp, sizeof tmp, ",\"len\":%lu", retlen); o += tmp; }
	if (b.kind == 'b') {
		size_t w = wmax_of(b);
		size_t n = w;
		if (rv == CKR_OK && lenptr && retlen <= b.cap && retlen > n) n = retlen;
		if (rv == CKR_OK && !lenptr && b.cap > n) n = b.cap;
		o += ",\"out\":\""; hexout(o, b.p, n); o += "\"";
		snprintf(tmp, sizeof tmp, ",\"wmax\":%zu", w); o += tmp;
	}
}

// ------------------------------------------------------------------------------------------------
// mutex callbacks (plain pthread mutexes) for args=cb
static unsigned long mtx_created, mtx_destroyed, mtx_locks, mtx_unlocks;
static CK_RV cb_create(CK_VOID_PTR_PTR pp) { pthread_mutex_t* m = new pthread_mutex_t; pthread_mutex_init(m, NULL); *pp = m; mtx_created++; return CKR_OK; }
static CK_RV cb_destroy(CK_VOID_PTR p) { pthread_mutex_destroy((pthread_mutex_t*)p); delete (pthread_mutex_t*)p; mtx_destroyed++; return CKR_OK; }
static CK_RV cb_lock(CK_VOID_PTR p) { mtx_locks++; return pthread_mutex_lock((pthread_mutex_t*)p) ? CKR_GENERAL_ERROR : CKR_OK; }
static CK_RV cb_unlock(CK_VOID_PTR p) { mtx_unlocks++; return pthread_mutex_unlock((pthread_mutex_t*)p) ? CKR_GENERAL_ERROR : CKR_OK; }

// ------------------------------------------------------------------------------------------------
static void copytree(const std::string& from, const std::string& to)
{
	struct stat st;
	if (lstat(from.c_str(), &st) != 0) return;
	if (S_ISDIR(st.st_mode)) {
		mkdir(to.c_str(), 0700);
		DIR* d = opendir(from.c_str());
		if (!d) return;
		struct dirent* e;
		while ((e = readdir(d))) {
			if (!strcmp(e->d_name, ".") || !strcmp(e->d_name, "..")) continue;
			copytree(from + "/" + e->d_name, to + "/" + e->d_name);
		}
		closedir(d);
		chmod(to.c_str(), st.st_mode & 07777);
	} else if (S_ISREG(st.st_mode)) {
		int a = open(from.c_str(), O_RDONLY);
		int b = open(to.c_str(), O_WRONLY | O_CREAT | O_TRUNC, 0600);
		char buf[65536]; ssize_t n;
		while (a >= 0 && b >= 0 && (n = read(a, buf, sizeof buf)) > 0) { ssize_t w = write(b, buf, n); (void)w; }
		if (a >= 0) close(a);
		if (b >= 0) { fchmod(b, st.st_mode & 07777); close(b); }
	}
}
static void rmtree(const std::string& p)
{
	struct stat st;
	if (lstat(p.c_str(), &st) != 0) return;
	if (S_ISDIR(st.st_mode)) {
		DIR* d = opendir(p.c_str());
		if (d) {
			struct dirent* e;
			while ((e = readdir(d))) {
				if (!strcmp(e->d_name, ".") || !strcmp(e->d_name, "..")) continue;
				rmtree(p + "/" + e->d_name);
			}
			closedir(d);
		}
		rmdir(p.c_str());
	} else unlink(p.c_str());
}


// in-place restore: make every file under `to` have exactly the content of its counterpart under `from` WITHOUT replacing
// inodes (open descriptors and SQLite connections of the resuming parent stay valid); files that only exist in `to` are removed
static void restoretree(const std::string& from, const std::string& to)
{
	struct stat st;
	if (lstat(from.c_str(), &st) != 0) return;
	if (S_ISDIR(st.st_mode)) {
		mkdir(to.c_str(), 0700);
		// remove what the child added
		DIR* d = opendir(to.c_str());
		if (d) {
			struct dirent* e;
			std::vector<std::string> extra;
			while ((e = readdir(d))) {
				if (!strcmp(e->d_name, ".") || !strcmp(e->d_name, "..")) continue;
				struct stat s2;
				if (lstat((from + "/" + e->d_name).c_str(), &s2) != 0) extra.push_back(to + "/" + e->d_name);
			}
			closedir(d);
			for (auto& x : extra) rmtree(x);
		}
		d = opendir(from.c_str());
		if (!d) return;
		struct dirent* e;
		while ((e = readdir(d))) {
			if (!strcmp(e->d_name, ".") || !strcmp(e->d_name, "..")) continue;
			restoretree(from + "/" + e->d_name, to + "/" + e->d_name);
		}
		closedir(d);
		chmod(to.c_str(), st.st_mode & 07777);
	} else if (S_ISREG(st.st_mode)) {
		int a = open(from.c_str(), O_RDONLY);
		int b = open(to.c_str(), O_WRONLY | O_CREAT, 0600);
		if (a >= 0 && b >= 0) {
			if (ftruncate(b, 0) != 0) {}
			char buf[65536]; ssize_t n;
			while ((n = read(a, buf, sizeof buf)) > 0) { ssize_t w = write(b, buf, n); (void)w; }
			fchmod(b, st.st_mode & 07777);
		}
		if (a >= 0) close(a);
		if (b >= 0) close(b);
	}
}

// ------------------------------------------------------------------------------------------------
static bool read_line(std::string& line)
{
	for (;;) {
		char* nl = (char*)memchr(sh->data + sh->rd, '\n', sh->wr - sh->rd);
		if (nl) {
			line.assign(sh->data + sh->rd, nl - (sh->data + sh->rd));
			sh->rd = (nl - sh->data) + 1;
			if (sh->rd == sh->wr) sh->rd = sh->wr = 0;
			return true;
		}
		if (sh->rd > 0) { memmove(sh->data, sh->data + sh->rd, sh->wr - sh->rd); sh->wr -= sh->rd; sh->rd = 0; }
		if (sh->wr >= INBUF) { fprintf(stderr, "p11sh: line too long\n"); _exit(98); }
		ssize_t n = read(0, sh->data + sh->wr, INBUF - sh->wr);
		if (n < 0 && errno == EINTR) continue;
		if (n <= 0) return false;
		sh->wr += n;
	}
}
static void reply(const std::string& s)
{
	std::string o = s; o += "\n";
	size_t off = 0;
	while (off < o.size()) {
		ssize_t n = write(1, o.data() + off, o.size() - off);
		if (n < 0 && errno == EINTR) continue;
		if (n <= 0) _exit(97);
		off += n;
	}
}
static std::string jstr_hex(const unsigned char* p, size_t n) { std::string o = "\""; hexout(o, p, n); o += "\""; return o; }

#define RV(o, rv) do { char _t[48]; snprintf(_t, sizeof _t, "{\"rv\":%lu", (unsigned long)(rv)); o = _t; } while (0)
#define ADDU(o, name, v) do { char _t[96]; snprintf(_t, sizeof _t, ",\"%s\":%lu", name, (unsigned long)(v)); o += _t; } while (0)

// ------------------------------------------------------------------------------------------------
static std::string handle(const Req& r)
{
	std::string o, err;
	const std::string& c = r.cmd;
	CK_SESSION_HANDLE s = r.U("s");
	bool nullout = r.U("nullout") != 0;

	// ---- general
	if (c == "C_Initialize") {
		const char* a = r.get("args");
		CK_C_INITIALIZE_ARGS ia; memset(&ia, 0, sizeof ia);
		CK_RV rv;
		if (!a || !strcmp(a, "null")) rv = C_Initialize(NULL_PTR);
		else {
			if (!strcmp(a, "os")) ia.flags = CKF_OS_LOCKING_OK;
			else if (!strcmp(a, "none")) ia.flags = 0;
			else if (!strcmp(a, "cb") || !strcmp(a, "cbos")) {
				ia.CreateMutex = cb_create; ia.DestroyMutex = cb_destroy; ia.LockMutex = cb_lock; ia.UnlockMutex = cb_unlock;
				ia.flags = !strcmp(a, "cbos") ? CKF_OS_LOCKING_OK : 0;
			} else if (!strcmp(a, "partial")) { ia.CreateMutex = cb_create; ia.LockMutex = cb_lock; }
			else if (!strcmp(a, "sched")) { ia.CreateMutex = scb_create; ia.DestroyMutex = scb_destroy; ia.LockMutex = scb_lock; ia.UnlockMutex = scb_unlock; ia.flags = 0; }
			else if (!strcmp(a, "raw")) {
				unsigned long cb = r.U("cb");
				if (cb & 1) ia.CreateMutex = cb_create;
				if (cb & 2) ia.DestroyMutex = cb_destroy;
				if (cb & 4) ia.LockMutex = cb_lock;
				if (cb & 8) ia.UnlockMutex = cb_unlock;
			}
			if (r.has("flags")) ia.flags = r.U("flags");
			if (r.U("reserved")) ia.pReserved = (void*)&ia;
			rv = C_Initialize(&ia);
		}
		RV(o, rv); return o + "}";
	}
	if (c == "C_Finalize") { CK_RV rv = C_Finalize(r.U("reserved") ? (void*)&o : NULL_PTR); RV(o, rv); return o + "}"; }
	if (c == "C_GetInfo") {
		CK_INFO* i = (CK_INFO*)galloc(sizeof(CK_INFO), 0); memset(i, 0, sizeof *i);
		CK_RV rv = C_GetInfo(nullout ? NULL : i); RV(o, rv);
		ADDU(o, "cmaj", i->cryptokiVersion.major); ADDU(o, "cmin", i->cryptokiVersion.minor);
		ADDU(o, "lmaj", i->libraryVersion.major); ADDU(o, "lmin", i->libraryVersion.minor);
		o += ",\"manuf\":" + jstr_hex(i->manufacturerID, 32) + ",\"desc\":" + jstr_hex(i->libraryDescription, 32);
		return o + "}";
	}
	if (c == "C_GetFunctionList") {
		CK_FUNCTION_LIST_PTR fl = NULL;
		CK_RV rv = C_GetFunctionList(nullout ? NULL : &fl); RV(o, rv);
		unsigned long nn = 0;
		if (fl) { void** p = (void**)((char*)fl + sizeof(void*)); for (size_t i = 0; i < (sizeof(CK_FUNCTION_LIST) / sizeof(void*)) - 1; i++) if (p[i]) nn++; }
		ADDU(o, "nonnull", nn);
		return o + "}";
	}
	if (c == "C_GetSlotList") {
		CK_BBOOL tp = (CK_BBOOL)r.U("present");
		const char* cnt = r.get("cnt");
		CK_ULONG* pn = (CK_ULONG*)galloc(sizeof(CK_ULONG), 0);
		CK_RV rv;
		Blob b;
		if (!cnt || !strcmp(cnt, "q")) { *pn = r.U("init", 0); rv = C_GetSlotList(tp, NULL, nullout ? NULL : pn); }
		else {
			unsigned long n = strtoul(cnt, NULL, 10);
			const char* sp; std::string spec = "b" + std::to_string(n * sizeof(CK_SLOT_ID)); sp = spec.c_str();
			parse_blob(sp, b, false, err);
			*pn = n;
			rv = C_GetSlotList(tp, (CK_SLOT_ID*)b.p, nullout ? NULL : pn);
		}
		RV(o, rv); ADDU(o, "n", *pn);
		o += ",\"slots\":[";
		if (rv == CKR_OK && b.p) for (unsigned long i = 0; i < *pn && i * sizeof(CK_SLOT_ID) < b.cap; i++) { if (i) o += ","; o += std::to_string(((CK_SLOT_ID*)b.p)[i]); }
		o += "]";
		if (b.p) ADDU(o, "wmax", wmax_of(b));
		return o + "}";
	}
	if (c == "C_GetSlotInfo") {
		CK_SLOT_INFO* i = (CK_SLOT_INFO*)galloc(sizeof(CK_SLOT_INFO), 0); memset(i, 0, sizeof *i);
		CK_RV rv = C_GetSlotInfo(r.U("slot"), nullout ? NULL : i); RV(o, rv);
		ADDU(o, "flags", i->flags); o += ",\"desc\":" + jstr_hex(i->slotDescription, 64);
		return o + "}";
	}
	if (c == "C_GetTokenInfo") {
		CK_TOKEN_INFO* i = (CK_TOKEN_INFO*)galloc(sizeof(CK_TOKEN_INFO), 0); memset(i, 0, sizeof *i);
		CK_RV rv = C_GetTokenInfo(r.U("slot"), nullout ? NULL : i); RV(o, rv);
		o += ",\"label\":" + jstr_hex(i->label, 32) + ",\"serial\":" + jstr_hex(i->serialNumber, 16) + ",\"model\":" + jstr_hex(i->model, 16);
		ADDU(o, "flags", i->flags); ADDU(o, "sessions", i->ulSessionCount); ADDU(o, "rwsessions", i->ulRwSessionCount);
		ADDU(o, "maxsessions", i->ulMaxSessionCount); ADDU(o, "maxrw", i->ulMaxRwSessionCount);
		ADDU(o, "maxpin", i->ulMaxPinLen); ADDU(o, "minpin", i->ulMinPinLen);
		return o + "}";
	}
	if (c == "C_GetMechanismList") {
		const char* cnt = r.get("cnt");
		CK_ULONG* pn = (CK_ULONG*)galloc(sizeof(CK_ULONG), 0);
		CK_RV rv; Blob b;
		if (!cnt || !strcmp(cnt, "q")) { *pn = r.U("init", 0); rv = C_GetMechanismList(r.U("slot"), NULL, nullout ? NULL : pn); }
		else {
			unsigned long n = strtoul(cnt, NULL, 10);
			std::string spec = "b" + std::to_string(n * sizeof(CK_MECHANISM_TYPE)); const char* sp = spec.c_str();
			parse_blob(sp, b, false, err);
			*pn = n;
			rv = C_GetMechanismList(r.U("slot"), (CK_MECHANISM_TYPE*)b.p, nullout ? NULL : pn);
		}
		RV(o, rv); ADDU(o, "n", *pn);
		o += ",\"mechs\":[";
		if (rv == CKR_OK && b.p) for (unsigned long i = 0; i < *pn && i * sizeof(CK_MECHANISM_TYPE) < b.cap; i++) { if (i) o += ","; o += std::to_string(((CK_MECHANISM_TYPE*)b.p)[i]); }
		o += "]";
		if (b.p) ADDU(o, "wmax", wmax_of(b));
		return o + "}";
	}
	if (c == "C_GetMechanismInfo") {
		CK_MECHANISM_INFO* i = (CK_MECHANISM_INFO*)galloc(sizeof(CK_MECHANISM_INFO), 0); memset(i, 0, sizeof *i);
		CK_RV rv = C_GetMechanismInfo(r.U("slot"), r.U("type"), nullout ? NULL : i); RV(o, rv);
		ADDU(o, "min", i->ulMinKeySize); ADDU(o, "max", i->ulMaxKeySize); ADDU(o, "flags", i->flags);
		return o + "}";
	}
	if (c == "C_InitToken") {
		Blob pin, label;
		if (!parse_inblob(r, "pin", pin, err) || !parse_inblob(r, "label", label, err)) return "{\"error\":\"" + err + "\"}";
		CK_RV rv = C_InitToken(r.U("slot"), pin.p, pin.len, label.p); RV(o, rv); return o + "}";
	}
	if (c == "C_InitPIN") {
		Blob pin; if (!parse_inblob(r, "pin", pin, err)) return "{\"error\":\"" + err + "\"}";
		CK_RV rv = C_InitPIN(s, pin.p, pin.len); RV(o, rv); return o + "}";
	}
	if (c == "C_SetPIN") {
		Blob a, b; if (!parse_inblob(r, "old", a, err) || !parse_inblob(r, "new", b, err)) return "{\"error\":\"" + err + "\"}";
		CK_RV rv = C_SetPIN(s, a.p, a.len, b.p, b.len); RV(o, rv); return o + "}";
	}
	if (c == "C_OpenSession") {
		CK_SESSION_HANDLE* ph = (CK_SESSION_HANDLE*)galloc(sizeof(CK_SESSION_HANDLE), 0); *ph = 0;
		CK_RV rv = C_OpenSession(r.U("slot"), r.U("flags"), NULL, NULL, nullout ? NULL : ph); RV(o, rv); ADDU(o, "h", *ph); return o + "}";
	}
	if (c == "C_CloseSession") { CK_RV rv = C_CloseSession(s); RV(o, rv); return o + "}"; }
	if (c == "C_CloseAllSessions") { CK_RV rv = C_CloseAllSessions(r.U("slot")); RV(o, rv); return o + "}"; }
	if (c == "C_GetSessionInfo") {
		CK_SESSION_INFO* i = (CK_SESSION_INFO*)galloc(sizeof(CK_SESSION_INFO), 0); memset(i, 0xEE, sizeof *i);
		CK_RV rv = C_GetSessionInfo(s, nullout ? NULL : i); RV(o, rv);
		if (rv == CKR_OK) { ADDU(o, "slot", i->slotID); ADDU(o, "state", i->state); ADDU(o, "flags", i->flags); ADDU(o, "deverr", i->ulDeviceError); }
		return o + "}";
	}
	if (c == "C_GetOperationState") {
		Blob b; if (!parse_inblob(r, "out", b, err)) return "{\"error\":\"" + err + "\"}";
		CK_ULONG* pl = (CK_ULONG*)galloc(sizeof(CK_ULONG), 0); *pl = b.len;
		CK_RV rv = C_GetOperationState(s, b.p, nullout ? NULL : pl); RV(o, rv); out_fields(o, b, *pl, true, rv); return o + "}";
	}
	if (c == "C_SetOperationState") {
		Blob b; if (!parse_inblob(r, "in", b, err)) return "{\"error\":\"" + err + "\"}";
		CK_RV rv = C_SetOperationState(s, b.p, b.len, r.U("ek"), r.U("ak")); RV(o, rv); return o + "}";
	}
	if (c == "C_Login") {
		Blob pin; if (!parse_inblob(r, "pin", pin, err)) return "{\"error\":\"" + err + "\"}";
		CK_RV rv = C_Login(s, r.U("user"), pin.p, pin.len); RV(o, rv); return o + "}";
	}
	if (c == "C_Logout") { CK_RV rv = C_Logout(s); RV(o, rv); return o + "}"; }

	// ---- objects
	if (c == "C_CreateObject" || c == "C_CopyObject" || c == "C_GenerateKey" || c == "C_DeriveKey" || c == "C_UnwrapKey") {
		Tpl t; Mech m; Blob in;
		if (!parse_template(r, "tpl", t, err) || !parse_mech(r, "mech", m, err) || !parse_inblob(r, "in", in, err)) return "{\"error\":\"" + err + "\"}";
		CK_OBJECT_HANDLE* ph = (CK_OBJECT_HANDLE*)galloc(sizeof(CK_OBJECT_HANDLE), 0); *ph = r.U("hinit");      // hinit: what the application's output variable holds before the call (default 0)
		CK_RV rv;
		if (c == "C_CreateObject") rv = C_CreateObject(s, t.a, t.n, nullout ? NULL : ph);
		else if (c == "C_CopyObject") rv = C_CopyObject(s, r.U("o"), t.a, t.n, nullout ? NULL : ph);
		else if (c == "C_GenerateKey") rv = C_GenerateKey(s, m.m, t.a, t.n, nullout ? NULL : ph);
		else if (c == "C_DeriveKey") rv = C_DeriveKey(s, m.m, r.U("k"), t.a, t.n, nullout ? NULL : ph);
		else rv = C_UnwrapKey(s, m.m, r.U("k"), in.p, in.len, t.a, t.n, nullout ? NULL : ph);
		RV(o, rv); ADDU(o, "h", *ph); return o + "}";
	}
	if (c == "C_GenerateKeyPair") {
		Tpl t1, t2; Mech m;
		if (!parse_template(r, "pub", t1, err) || !parse_template(r, "priv", t2, err) || !parse_mech(r, "mech", m, err)) return "{\"error\":\"" + err + "\"}";
		CK_OBJECT_HANDLE* ph = (CK_OBJECT_HANDLE*)galloc(2 * sizeof(CK_OBJECT_HANDLE), 0); ph[0] = ph[1] = r.U("hinit");
		unsigned long no = r.U("nullout");
		CK_RV rv = C_GenerateKeyPair(s, m.m, t1.a, t1.n, t2.a, t2.n, (no & 1) ? NULL : &ph[0], (no & 2) ? NULL : &ph[1]);
		RV(o, rv); ADDU(o, "hpub", ph[0]); ADDU(o, "hpriv", ph[1]); return o + "}";
	}
	if (c == "C_DestroyObject") { CK_RV rv = C_DestroyObject(s, r.U("o")); RV(o, rv); return o + "}"; }
	if (c == "C_GetObjectSize") {
		CK_ULONG* pl = (CK_ULONG*)galloc(sizeof(CK_ULONG), 0); *pl = 0xEEEEEEEE;
		CK_RV rv = C_GetObjectSize(s, r.U("o"), nullout ? NULL : pl); RV(o, rv);
		if (*pl == CK_UNAVAILABLE_INFORMATION) o += ",\"size\":-1"; else ADDU(o, "size", *pl);
		return o + "}";
	}
	if (c == "C_GetAttributeValue" || c == "C_SetAttributeValue" || c == "C_FindObjectsInit") {
		Tpl t; if (!parse_template(r, "tpl", t, err)) return "{\"error\":\"" + err + "\"}";
		CK_RV rv;
		if (c == "C_GetAttributeValue") rv = C_GetAttributeValue(s, r.U("o"), t.a, t.n);
		else if (c == "C_SetAttributeValue") rv = C_SetAttributeValue(s, r.U("o"), t.a, t.n);
		else rv = C_FindObjectsInit(s, t.a, t.n);
		RV(o, rv);
		if (c == "C_GetAttributeValue" && t.a) { o += ",\"attrs\":"; dump_tpl(o, t.a, t.ents); }
		return o + "}";
	}
	if (c == "C_FindObjects") {
		unsigned long max = r.U("max");
		Blob b; std::string spec = "b" + std::to_string(max * sizeof(CK_OBJECT_HANDLE)); const char* sp = spec.c_str();
		parse_blob(sp, b, false, err);
		CK_ULONG* pn = (CK_ULONG*)galloc(sizeof(CK_ULONG), 0); *pn = 0xEEEE;
		unsigned long no = r.U("nullout");
		CK_RV rv = C_FindObjects(s, (no & 1) ? NULL : (CK_OBJECT_HANDLE*)b.p, r.has("announce") ? r.U("announce") : max, (no & 2) ? NULL : pn);
		RV(o, rv); ADDU(o, "n", *pn);
		o += ",\"hs\":[";
		if (rv == CKR_OK) for (unsigned long i = 0; i < *pn && i < max; i++) { if (i) o += ","; o += std::to_string(((CK_OBJECT_HANDLE*)b.p)[i]); }
		o += "]"; ADDU(o, "wmax", wmax_of(b));
		return o + "}";
	}
	if (c == "C_FindObjectsFinal") { CK_RV rv = C_FindObjectsFinal(s); RV(o, rv); return o + "}"; }
	// convenience: FindObjectsInit + drain + Final
	if (c == "FINDALL") {
		Tpl t; if (!parse_template(r, "tpl", t, err)) return "{\"error\":\"" + err + "\"}";
		CK_RV rv = C_FindObjectsInit(s, t.a, t.n);
		RV(o, rv); o += ",\"hs\":[";
		if (rv == CKR_OK) {
			CK_OBJECT_HANDLE hs[64]; CK_ULONG n = 0; bool first = true; CK_RV rv2;
			while ((rv2 = C_FindObjects(s, hs, 64, &n)) == CKR_OK && n > 0) for (CK_ULONG i = 0; i < n; i++) { if (!first) o += ","; first = false; o += std::to_string(hs[i]); }
			o += "]"; ADDU(o, "rvfind", rv2);
			rv2 = C_FindObjectsFinal(s); ADDU(o, "rvfinal", rv2);
		} else o += "]";
		return o + "}";
	}

	// ---- crypto: Init family
	if (c == "C_EncryptInit" || c == "C_DecryptInit" || c == "C_SignInit" || c == "C_VerifyInit" || c == "C_SignRecoverInit" || c == "C_VerifyRecoverInit" || c == "C_DigestInit") {
		Mech m; if (!parse_mech(r, "mech", m, err)) return "{\"error\":\"" + err + "\"}";
		CK_OBJECT_HANDLE k = r.U("k"); CK_RV rv;
		if (c == "C_EncryptInit") rv = C_EncryptInit(s, m.m, k);
		else if (c == "C_DecryptInit") rv = C_DecryptInit(s, m.m, k);
		else if (c == "C_SignInit") rv = C_SignInit(s, m.m, k);
		else if (c == "C_VerifyInit") rv = C_VerifyInit(s, m.m, k);
		else if (c == "C_SignRecoverInit") rv = C_SignRecoverInit(s, m.m, k);
		else if (c == "C_VerifyRecoverInit") rv = C_VerifyRecoverInit(s, m.m, k);
		else rv = C_DigestInit(s, m.m);
		RV(o, rv); return o + "}";
	}
	// (session, in, inlen, out, &outlen)
	{
		typedef CK_RV (*F5)(CK_SESSION_HANDLE, CK_BYTE_PTR, CK_ULONG, CK_BYTE_PTR, CK_ULONG_PTR);
		static const std::map<std::string, F5> f5 = {
			{"C_Encrypt", C_Encrypt}, {"C_Decrypt", C_Decrypt}, {"C_Sign", C_Sign}, {"C_Digest", C_Digest},
			{"C_EncryptUpdate", C_EncryptUpdate}, {"C_DecryptUpdate", C_DecryptUpdate}, {"C_SignRecover", C_SignRecover},
			{"C_VerifyRecover", C_VerifyRecover}, {"C_DigestEncryptUpdate", C_DigestEncryptUpdate}, {"C_DecryptDigestUpdate", C_DecryptDigestUpdate},
			{"C_SignEncryptUpdate", C_SignEncryptUpdate}, {"C_DecryptVerifyUpdate", C_DecryptVerifyUpdate}};
		auto it = f5.find(c);
		if (it != f5.end()) {
			Blob in, out; if (!parse_inblob(r, "in", in, err) || !parse_inblob(r, "out", out, err)) return "{\"error\":\"" + err + "\"}";
			CK_ULONG* pl = (CK_ULONG*)galloc(sizeof(CK_ULONG), 0); *pl = out.len;
			CK_RV rv = it->second(s, in.p, in.len, out.p, nullout ? NULL : pl);
			RV(o, rv); out_fields(o, out, *pl, true, rv); return o + "}";
		}
		typedef CK_RV (*F3)(CK_SESSION_HANDLE, CK_BYTE_PTR, CK_ULONG);
		static const std::map<std::string, F3> f3 = {{"C_DigestUpdate", C_DigestUpdate}, {"C_SignUpdate", C_SignUpdate}, {"C_VerifyUpdate", C_VerifyUpdate}, {"C_SeedRandom", C_SeedRandom}, {"C_VerifyFinal", C_VerifyFinal}};
		auto i3 = f3.find(c);
		if (i3 != f3.end()) {
			Blob in; if (!parse_inblob(r, "in", in, err)) return "{\"error\":\"" + err + "\"}";
			CK_RV rv = i3->second(s, in.p, in.len); RV(o, rv); return o + "}";
		}
		typedef CK_RV (*F3o)(CK_SESSION_HANDLE, CK_BYTE_PTR, CK_ULONG_PTR);
		static const std::map<std::string, F3o> f3o = {{"C_EncryptFinal", C_EncryptFinal}, {"C_DecryptFinal", C_DecryptFinal}, {"C_SignFinal", C_SignFinal}, {"C_DigestFinal", C_DigestFinal}};
		auto i3o = f3o.find(c);
		if (i3o != f3o.end()) {
			Blob out; if (!parse_inblob(r, "out", out, err)) return "{\"error\":\"" + err + "\"}";
			CK_ULONG* pl = (CK_ULONG*)galloc(sizeof(CK_ULONG), 0); *pl = out.len;
			CK_RV rv = i3o->second(s, out.p, nullout ? NULL : pl);
			RV(o, rv); out_fields(o, out, *pl, true, rv); return o + "}";
		}
	}
	if (c == "C_Verify") {
		Blob in, sig; if (!parse_inblob(r, "in", in, err) || !parse_inblob(r, "sig", sig, err)) return "{\"error\":\"" + err + "\"}";
		CK_RV rv = C_Verify(s, in.p, in.len, sig.p, sig.len); RV(o, rv); return o + "}";
	}
	if (c == "C_DigestKey") { CK_RV rv = C_DigestKey(s, r.U("k")); RV(o, rv); return o + "}"; }
	if (c == "C_GenerateRandom") {
		Blob out; if (!parse_inblob(r, "out", out, err)) return "{\"error\":\"" + err + "\"}";
		CK_RV rv = C_GenerateRandom(s, out.p, out.len); RV(o, rv); out_fields(o, out, out.len, false, rv); return o + "}";
	}
	if (c == "C_WrapKey") {
		Mech m; Blob out; if (!parse_mech(r, "mech", m, err) || !parse_inblob(r, "out", out, err)) return "{\"error\":\"" + err + "\"}";
		CK_ULONG* pl = (CK_ULONG*)galloc(sizeof(CK_ULONG), 0); *pl = out.len;
		CK_RV rv = C_WrapKey(s, m.m, r.U("wk"), r.U("k"), out.p, nullout ? NULL : pl);
		RV(o, rv); out_fields(o, out, *pl, true, rv); return o + "}";
	}
	if (c == "C_GetFunctionStatus") { CK_RV rv = C_GetFunctionStatus(s); RV(o, rv); return o + "}"; }
	if (c == "C_CancelFunction") { CK_RV rv = C_CancelFunction(s); RV(o, rv); return o + "}"; }
	if (c == "C_WaitForSlotEvent") {
		CK_SLOT_ID* ps = (CK_SLOT_ID*)galloc(sizeof(CK_SLOT_ID), 0); *ps = 0;
		CK_RV rv = C_WaitForSlotEvent(r.U("flags"), nullout ? NULL : ps, r.U("reserved") ? (void*)ps : NULL); RV(o, rv); return o + "}";
	}

	// ---- shell commands
	if (c == "PING") return "{\"pong\":1}";
	if (c == "MARK") { long rc = syscall(SYS_ioctl, -1, 0x56460000UL + (r.U("n") & 0xFFFF), 0); (void)rc; return "{\"mark\":1}"; }
	if (c == "PWD") { char b[4096]; if (!getcwd(b, sizeof b)) b[0] = 0; return std::string("{\"dir\":\"") + b + "\",\"depth\":" + std::to_string(depth) + ",\"pid\":" + std::to_string(getpid()) + "}"; }
	if (c == "ENV") { for (auto& p : r.kv) setenv(p.first.c_str(), p.second.c_str(), 1); return "{\"ok\":1}"; }
	if (c == "UNSETENV") { for (auto& p : r.kv) unsetenv(p.first.c_str()); return "{\"ok\":1}"; }
	if (c == "UMASK") { umask((mode_t)strtoul(r.get("mask") ? r.get("mask") : "077", NULL, 8)); return "{\"ok\":1}"; }
	if (c == "CHDIR") { int e = chdir(r.get("dir") ? r.get("dir") : "."); return std::string("{\"ok\":") + (e == 0 ? "1" : "0") + "}"; }
	if (c == "MUTEXSTATS") {
		o = "{\"created\":" + std::to_string(mtx_created) + ",\"destroyed\":" + std::to_string(mtx_destroyed) + ",\"locks\":" + std::to_string(mtx_locks) + ",\"unlocks\":" + std::to_string(mtx_unlocks) + "}";
		return o;
	}
	return "{\"error\":\"unknown command " + c + "\"}";
}


// ------------------------------------------------------------------------------------------------
// RUNTHREADS: run thread bodies (lists of request lines) under the scheduler, or in a given sequential order
struct TBody { std::vector<std::string> lines; std::vector<std::string> answers; std::vector<unsigned long> hs; };
static std::vector<TBody> T_bodies;
static std::vector<std::string> T_final, T_final_answers;

static std::string subst(const std::string& line, const TBody& b)
{
	std::string o;
	for (size_t i = 0; i < line.size(); i++) {
		if (line[i] == '$' && i + 2 < line.size() && line[i + 1] == 'T' && isdigit((unsigned char)line[i + 2])) {
			// $T<t>.<k>: the handle returned by line k of thread t (used by the final, sequential observations)
			size_t j = i + 2; unsigned long t = 0, k = 0;
			while (j < line.size() && isdigit((unsigned char)line[j])) { t = t * 10 + (line[j] - '0'); j++; }
			if (j < line.size() && line[j] == '.') j++;
			while (j < line.size() && isdigit((unsigned char)line[j])) { k = k * 10 + (line[j] - '0'); j++; }
			o += std::to_string((t < T_bodies.size() && k < T_bodies[t].hs.size()) ? T_bodies[t].hs[k] : 0);
			i = j - 1;
		} else if (line[i] == '$' && i + 1 < line.size() && isdigit((unsigned char)line[i + 1])) {
			size_t j = i + 1; unsigned long k = 0;
			while (j < line.size() && isdigit((unsigned char)line[j])) { k = k * 10 + (line[j] - '0'); j++; }
			o += std::to_string(k < b.hs.size() ? b.hs[k] : 0);
			i = j - 1;
		} else o += line[i];
	}
	return o;
}
static bool parse_req(const std::string& line, Req& r);
static void run_line(TBody& b, size_t i)
{
	Req r;
	std::string line = subst(b.lines[i], b);
	std::string ans = "{\"error\":\"empty\"}";
	if (parse_req(line, r)) { ans = handle(r); gfree_all(); }
	unsigned long h = 0;
	size_t at = ans.find("\"h\":");
	if (at != std::string::npos) h = strtoul(ans.c_str() + at + 4, NULL, 10);
	b.hs.push_back(h);
	b.answers.push_back(ans);
}
static void* thread_main(void* arg)
{
	int t = (int)(intptr_t)arg;
	my_tid = t;
	SLOCK();
	s_wait_baton(t);
	SUNLOCK();
	TBody& b = T_bodies[t];
	for (size_t i = 0; i < b.lines.size(); i++) {
		if (S.current == -2 && !S.error.empty()) break;      // run aborted
		run_line(b, i);
	}
	SLOCK();
	S.finished[t] = true;
	s_choose(t, 'E');
	SUNLOCK();
	return NULL;
}
// free-running threads (race-detector side pass: the library uses OS mutexes, nothing is scheduled; all threads start together)
static pthread_barrier_t T_barrier;
static void* thread_main_free(void* arg)
{
	TBody& b = T_bodies[(int)(intptr_t)arg];
	pthread_barrier_wait(&T_barrier);
	for (size_t i = 0; i < b.lines.size(); i++) run_line(b, i);
	return NULL;
}
// serial order without any synchronisation a race detector can see: thread k of the given order starts when thread k-1 has finished, the hand-over is a
// plain volatile int polled in functions that are not instrumented.  Executions are deterministic (one thread at a time), and the detector's
// happens-before relation contains exactly the library's own locks, so every pair of conflicting accesses no common lock orders is reported.
static volatile int T_gate = 0;
static std::vector<int> T_order;
__attribute__((no_sanitize_thread)) static void gate_wait(int pos) { while (T_gate != pos) syscall(SYS_sched_yield); }
__attribute__((no_sanitize_thread)) static void gate_next() { T_gate = T_gate + 1; }
static void* thread_main_gated(void* arg)
{
	int pos = (int)(intptr_t)arg;
	gate_wait(pos);
	TBody& b = T_bodies[T_order[pos]];
	for (size_t i = 0; i < b.lines.size(); i++) run_line(b, i);
	gate_next();
	return NULL;
}
static std::string run_threads(const std::string& spec)
{
	unsigned long asan_at_start = sh->asan_errors;
	T_bodies.clear(); T_final.clear(); T_final_answers.clear();
	std::vector<int> prefix;
	std::vector<std::pair<int, int>> seq;
	bool sequential = false, freerun = false, gated = false;
	size_t pos = 0;
	while (pos < spec.size()) {
		size_t nl = spec.find('\n', pos);
		if (nl == std::string::npos) nl = spec.size();
		std::string l = spec.substr(pos, nl - pos);
		pos = nl + 1;
		if (l.empty()) continue;
		if (l.compare(0, 9, "schedule ") == 0 || l == "schedule") { const char* c = l.c_str() + 8; char* e; while (*c) { long v = strtol(c, &e, 10); if (e == c) break; prefix.push_back((int)v); c = e; } }
		else if (l == "free") freerun = true;
		else if (l.compare(0, 6, "gated ") == 0) { gated = true; T_order.clear(); const char* c = l.c_str() + 6; char* e; while (*c) { long v = strtol(c, &e, 10); if (e == c) break; T_order.push_back((int)v); c = e; } }
		else if (l.compare(0, 4, "seq ") == 0) { sequential = true; const char* c = l.c_str() + 4; char* e; while (*c) { long a = strtol(c, &e, 10); if (e == c || *e != ':') break; c = e + 1; long b2 = strtol(c, &e, 10); seq.push_back({(int)a, (int)b2}); c = e; } }
		else if (l[0] == 'T') { char* e; long t = strtol(l.c_str() + 1, &e, 10); if ((size_t)t >= T_bodies.size()) T_bodies.resize(t + 1); T_bodies[t].lines.push_back(std::string(*e == ' ' ? e + 1 : e)); }
		else if (l[0] == 'F' && l.size() > 2) T_final.push_back(l.substr(2));
	}
	int n = (int)T_bodies.size();
	S.error.clear(); S.points.clear(); S.prefix = prefix;
	if (gated) {
		S.active = false;
		int m = (int)T_order.size();
		for (int k = 0; k < m; k++) if (T_order[k] < 0 || T_order[k] >= n) { m = 0; S.error = "bad thread order"; }
		std::vector<pthread_t> th(m);
		T_gate = -1;
		for (int k = 0; k < m; k++) pthread_create(&th[k], NULL, thread_main_gated, (void*)(intptr_t)k);
		gate_next();
		for (int k = 0; k < m; k++) pthread_join(th[k], NULL);
	} else if (freerun) {
		S.active = false;
		std::vector<pthread_t> th(n);
		pthread_barrier_init(&T_barrier, NULL, n);
		for (int t = 0; t < n; t++) pthread_create(&th[t], NULL, thread_main_free, (void*)(intptr_t)t);
		for (int t = 0; t < n; t++) pthread_join(th[t], NULL);
		pthread_barrier_destroy(&T_barrier);
	} else if (sequential) {
		S.active = false;
		for (auto& pr : seq) if (pr.first < n && (size_t)pr.second < T_bodies[pr.first].lines.size()) run_line(T_bodies[pr.first], pr.second);
	} else {
		S.nthreads = n; S.current = -1;
		S.waiting_on.assign(n, -1); S.finished.assign(n, false); S.started.assign(n, false);
		S.active = true;
		std::vector<pthread_t> th(n);
		for (int t = 0; t < n; t++) pthread_create(&th[t], NULL, thread_main, (void*)(intptr_t)t);
		SLOCK();
		s_choose(-1, 'S');
		SUNLOCK();
		for (int t = 0; t < n; t++) pthread_join(th[t], NULL);
		S.active = false;
		// mutexes still owned after the threaded phase are a protocol problem of the library, not of the harness
		for (size_t i = 0; i < S.mutexes.size(); i++) if (S.mutexes[i].alive && S.mutexes[i].owner >= 0 && S.mutexes[i].owner < 100 && S.error.empty()) S.error = "mutex still locked after all threads finished";
	}
	my_tid = -1;
	TBody fb; fb.lines = T_final;
	if (S.error.compare(0, 8, "deadlock") != 0) for (size_t i = 0; i < fb.lines.size(); i++) run_line(fb, i);
	std::string o = "{\"threads\":[";
	for (int t = 0; t < n; t++) { if (t) o += ","; o += "["; for (size_t i = 0; i < T_bodies[t].answers.size(); i++) { if (i) o += ","; o += T_bodies[t].answers[i]; } o += "]"; }
	o += "],\"final\":[";
	for (size_t i = 0; i < fb.answers.size(); i++) { if (i) o += ","; o += fb.answers[i]; }
	o += "],\"points\":[";
	for (size_t i = 0; i < S.points.size(); i++) {
		if (i) o += ",";
		o += "[" + std::to_string(S.points[i].running) + "," + std::to_string(S.points[i].chosen) + ",\"" + std::string(1, S.points[i].kind) + "\",[";
		for (size_t k = 0; k < S.points[i].enabled.size(); k++) { if (k) o += ","; o += std::to_string(S.points[i].enabled[k]); }
		o += "]]";
	}
	o += "],\"serr\":\"" + S.error + "\",\"mutexes\":" + std::to_string(S.created) + ",\"locks\":" + std::to_string(S.locks) + ",\"asan\":" + std::to_string(sh->asan_errors - asan_at_start) + "}";
	return o;
}

// ------------------------------------------------------------------------------------------------
static bool parse_req(const std::string& line, Req& r)
{
	size_t i = 0, n = line.size();
	while (i < n && line[i] == ' ') i++;
	size_t j = i; while (j < n && line[j] != ' ') j++;
	r.cmd = line.substr(i, j - i);
	i = j;
	while (i < n) {
		while (i < n && line[i] == ' ') i++;
		if (i >= n) break;
		j = i; while (j < n && line[j] != ' ') j++;
		size_t eq = line.find('=', i);
		if (eq == std::string::npos || eq >= j) r.kv.push_back({line.substr(i, j - i), ""});
		else r.kv.push_back({line.substr(i, eq - i), line.substr(eq + 1, j - eq - 1)});
		i = j;
	}
	return !r.cmd.empty();
}

int main(int, char**)
{
	signal(SIGPIPE, SIG_IGN);
	sh = (Shared*)mmap(NULL, sizeof(Shared) + INBUF, PROT_READ | PROT_WRITE, MAP_SHARED | MAP_ANONYMOUS, -1, 0);
	if (sh == MAP_FAILED) { perror("mmap"); return 99; }
	memset(sh, 0, sizeof(Shared));
	std::string line;
	std::string mydir;   // directory owned by this (child) process, removed on BACK
	while (read_line(line)) {
		Req r;
		if (!parse_req(line, r)) continue;
		if (draining) {
			if (r.cmd == "RESUME") { draining = false; reply("{\"resumed\":1}"); }
			else reply("{\"skipped\":1}");
			continue;
		}
		if (r.cmd == "QUIT") { reply("{\"bye\":1}"); break; }
		if (r.cmd == "RESUME") { reply("{\"resumed\":1}"); continue; }
		if (r.cmd == "SNAP") {
			bool copy = r.U("copy", 1) != 0;
			bool inplace = r.U("inplace", 0) != 0;     // child keeps the original files (open descriptors stay valid); the parent restores them in place afterwards
			unsigned long id = ++sh->snap_counter;
			std::string nd = "../s" + std::to_string(id);
			sh->back_ok = 0;
			if (inplace) copytree(".", nd);
			pid_t pid = fork();
			if (pid < 0) { reply("{\"error\":\"fork failed\"}"); continue; }
			if (pid == 0) {
				depth++;
				if (copy && !inplace) { copytree(".", nd); if (chdir(nd.c_str()) != 0) { reply("{\"error\":\"chdir failed\"}"); _exit(96); } mydir = nd; }
				else mydir.clear();
				reply("{\"snap\":" + std::to_string(depth) + "}");
				continue;
			}
			int st = 0;
			while (waitpid(pid, &st, 0) < 0 && errno == EINTR) {}
			if (inplace) restoretree(nd, ".");
			if (copy || inplace) rmtree(nd);
			if (sh->back_ok && WIFEXITED(st) && WEXITSTATUS(st) == 0) { sh->back_ok = 0; reply("{\"back\":1}"); }
			else {
				std::string d = "{\"died\":{";
				if (WIFSIGNALED(st)) d += "\"signal\":" + std::to_string(WTERMSIG(st));
				else d += "\"exit\":" + std::to_string(WEXITSTATUS(st));
				d += "},\"asan\":" + std::to_string(sh->asan_errors) + "}";
				draining = true;
				reply(d);
			}
			continue;
		}
		if (r.cmd == "RUNTHREADS") {
			// spec: hex-encoded text (see run_threads); runs in a forked child on a private copy of the directory, the child answers
			std::string spec;
			const char* hx = r.get("spec");
			if (hx) for (size_t i = 0; hx[i] && hx[i + 1]; i += 2) spec.push_back((char)(hexv(hx[i]) * 16 + hexv(hx[i + 1])));
			unsigned long id = ++sh->snap_counter;
			std::string nd = "../t" + std::to_string(id);
			sh->back_ok = 0;
			pid_t pid = fork();
			if (pid < 0) { reply("{\"error\":\"fork failed\"}"); continue; }
			if (pid == 0) {
				copytree(".", nd);
				if (chdir(nd.c_str()) != 0) _exit(96);
				alarm(r.U("timeout", 30));
				std::string res = run_threads(spec);
				reply(res);
				sh->back_ok = 1;
				_exit(0);
			}
			int st = 0;
			while (waitpid(pid, &st, 0) < 0 && errno == EINTR) {}
			rmtree(nd);
			if (!(sh->back_ok && WIFEXITED(st) && WEXITSTATUS(st) == 0)) {
				std::string d = "{\"tdied\":{";
				if (WIFSIGNALED(st)) d += "\"signal\":" + std::to_string(WTERMSIG(st)); else d += "\"exit\":" + std::to_string(WEXITSTATUS(st));
				d += "},\"asan\":" + std::to_string(sh->asan_errors) + "}";
				reply(d);
			}
			sh->back_ok = 0;
			continue;
		}
		if (r.cmd == "BACK") {
			if (depth == 0) { reply("{\"error\":\"BACK at depth 0\"}"); continue; }
			sh->back_ok = 1;
			_exit(0);
		}
		unsigned long asan0 = sh->asan_errors;
		std::string ans = handle(r);
		gfree_all();
		if (sh->asan_errors != asan0 && !ans.empty() && ans.back() == '}') { ans.pop_back(); ans += ",\"asan\":" + std::to_string(sh->asan_errors - asan0) + "}"; }
		// C_Initialize args=sched outside RUNTHREADS: the callbacks still police the mutex protocol (a re-lock of an owned mutex would be a self-deadlock with real mutexes)
		if (!S.error.empty() && !ans.empty() && ans.back() == '}') { ans.pop_back(); ans += ",\"serr\":\"" + S.error + "\"}"; }
		reply(ans);
	}
	if (depth > 0) { sh->back_ok = 0; _exit(95); }
	_exit(0);   // skip static destructors of the library: the harness ends here, not a library call
}
