/* Synchronisation primitives that a race detector must NOT see (this file is compiled without any sanitizer): the baton of the
 * deterministic thread scheduler in p11sh is handed over with them in the ThreadSanitizer build, so that the detector's happens-before
 * relation contains the library's own locks only (announced with __tsan_acquire/__tsan_release) and not the scheduler's hand-overs. */
#define _GNU_SOURCE
#include <limits.h>
#include <unistd.h>
#include <sys/syscall.h>
#include <linux/futex.h>

void raw_lock(volatile int* w)
{
	while (__atomic_exchange_n(w, 1, __ATOMIC_ACQUIRE) != 0) syscall(SYS_futex, w, FUTEX_WAIT, 1, (void*)0, (void*)0, 0);
}
void raw_unlock(volatile int* w)
{
	__atomic_store_n(w, 0, __ATOMIC_RELEASE);
	syscall(SYS_futex, w, FUTEX_WAKE, INT_MAX, (void*)0, (void*)0, 0);
}
int raw_load(volatile int* w) { return __atomic_load_n(w, __ATOMIC_ACQUIRE); }
void raw_bump_and_wake(volatile int* w)
{
	__atomic_add_fetch(w, 1, __ATOMIC_RELEASE);
	syscall(SYS_futex, w, FUTEX_WAKE, INT_MAX, (void*)0, (void*)0, 0);
}
void raw_wait_while(volatile int* w, int v)
{
	syscall(SYS_futex, w, FUTEX_WAIT, v, (void*)0, (void*)0, 0);
}
