#include "../config.common.h"
#define HAVE_LIBCRYPTO 1
#define HAVE_OPENSSL_SSL_H 1
#define WITH_OPENSSL 1
