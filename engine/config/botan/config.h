#include "../config.common.h"
#define WITH_BOTAN 1
