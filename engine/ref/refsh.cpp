// refsh - reference crypto helper (Botan 2), independent of the SUT's OpenSSL code paths.  One request per line:
//   <CMD> key=value ...   (values hex unless noted)   ->   one JSON line  {"ok":true,"out":"hex"} | {"ok":false,"err":"..."}
// Used by the oracles of C06 (at-rest decryption), C10 (mechanism outputs), C13 (wrap formats, PKCS#8, derivations).
#include <botan/cipher_mode.h>
#include <botan/stream_cipher.h>
#include <botan/block_cipher.h>
#include <botan/aead.h>
#include <botan/mac.h>
#include <botan/hash.h>
#include <botan/hex.h>
#include <botan/rfc3394.h>
#include <botan/nist_keywrap.h>
#include <botan/rsa.h>
#include <botan/dsa.h>
#include <botan/dh.h>
#include <botan/ecdsa.h>
#include <botan/ecdh.h>
#include <botan/ed25519.h>
#include <botan/curve25519.h>
#include <botan/dl_group.h>
#include <botan/ec_group.h>
#include <botan/pubkey.h>
#include <botan/pkcs8.h>
#include <botan/data_src.h>
#include <botan/auto_rng.h>
#include <botan/bigint.h>
#include <botan/numthry.h>
#include <botan/der_enc.h>
#include <botan/ber_dec.h>
#include <iostream>
#include <map>
#include <sstream>
#include <string>
#include <memory>

using namespace Botan;
typedef std::map<std::string, std::string> Args;
static AutoSeeded_RNG rng;

static std::vector<uint8_t> H(const Args& a, const char* k) { auto it = a.find(k); if (it == a.end() || it->second.empty()) return {}; return hex_decode(it->second); }
static std::string S(const Args& a, const char* k, const char* d = "") { auto it = a.find(k); return it == a.end() ? d : it->second; }
static BigInt B(const Args& a, const char* k) { auto v = H(a, k); return BigInt(v.data(), v.size()); }
static std::string okout(const uint8_t* p, size_t n) { return "{\"ok\":true,\"out\":\"" + hex_encode(p, n, false) + "\"}"; }
template <class V> static std::string okout(const V& v) { return okout(v.data(), v.size()); }

static std::string hexstr_unescape(std::string s) { for (auto& c : s) if (c == '~') c = ' '; return s; }

static std::unique_ptr<Private_Key> load_priv(const Args& a)
{
	std::string t = S(a, "type");
	if (t == "rsa") return std::unique_ptr<Private_Key>(new RSA_PrivateKey(B(a, "p"), B(a, "q"), B(a, "e"), B(a, "d"), B(a, "n")));
	if (t == "dsa") return std::unique_ptr<Private_Key>(new DSA_PrivateKey(rng, DL_Group(B(a, "p"), B(a, "q"), B(a, "g")), B(a, "x")));
	if (t == "dh") return std::unique_ptr<Private_Key>(new DH_PrivateKey(rng, DL_Group(B(a, "p"), B(a, "g")), B(a, "x")));
	if (t == "ecdsa") return std::unique_ptr<Private_Key>(new ECDSA_PrivateKey(rng, EC_Group(S(a, "curve")), B(a, "x")));
	if (t == "ecdh") return std::unique_ptr<Private_Key>(new ECDH_PrivateKey(rng, EC_Group(S(a, "curve")), B(a, "x")));
	if (t == "ed25519") { auto v = H(a, "x"); return std::unique_ptr<Private_Key>(new Ed25519_PrivateKey(secure_vector<uint8_t>(v.begin(), v.end()))); }
	if (t == "x25519") { auto v = H(a, "x"); return std::unique_ptr<Private_Key>(new Curve25519_PrivateKey(secure_vector<uint8_t>(v.begin(), v.end()))); }
	throw std::runtime_error("unknown key type " + t);
}
static std::unique_ptr<Public_Key> load_pub(const Args& a)
{
	std::string t = S(a, "type");
	if (t == "rsa") return std::unique_ptr<Public_Key>(new RSA_PublicKey(B(a, "n"), B(a, "e")));
	if (t == "dsa") return std::unique_ptr<Public_Key>(new DSA_PublicKey(DL_Group(B(a, "p"), B(a, "q"), B(a, "g")), B(a, "y")));
	if (t == "ecdsa") { EC_Group g(S(a, "curve")); return std::unique_ptr<Public_Key>(new ECDSA_PublicKey(g, g.OS2ECP(H(a, "point")))); }
	if (t == "ed25519") return std::unique_ptr<Public_Key>(new Ed25519_PublicKey(H(a, "point")));
	throw std::runtime_error("unknown key type " + t);
}

static std::string handle(const std::string& cmd, const Args& a)
{
	if (cmd == "PING") return "{\"ok\":true}";
	if (cmd == "HASH") { auto h = HashFunction::create_or_throw(hexstr_unescape(S(a, "alg"))); h->update(H(a, "in")); return okout(h->final()); }
	if (cmd == "MAC") {
		auto m = MessageAuthenticationCode::create_or_throw(hexstr_unescape(S(a, "alg")));
		m->set_key(H(a, "key")); m->update(H(a, "in")); return okout(m->final());
	}
	if (cmd == "CIPHER") {     // alg e.g. AES-128/CBC/PKCS7, AES-256/CBC/NoPadding, TripleDES/ECB/NoPadding, AES-128/GCM(16)
		std::string alg = hexstr_unescape(S(a, "alg"));
		bool enc = S(a, "dir") == "enc";
		auto c = Cipher_Mode::create(alg, enc ? ENCRYPTION : DECRYPTION);
		if (!c) throw std::runtime_error("no such cipher mode " + alg);
		c->set_key(H(a, "key"));
		if (a.count("aad")) { AEAD_Mode* ae = dynamic_cast<AEAD_Mode*>(c.get()); if (ae) ae->set_associated_data_vec(H(a, "aad")); }
		auto in = H(a, "in");
		secure_vector<uint8_t> buf(in.begin(), in.end());
		c->start(H(a, "iv"));
		c->finish(buf);
		return okout(buf);
	}
	if (cmd == "STREAM") {     // alg e.g. CTR-BE(AES-128,4)
		auto c = StreamCipher::create_or_throw(hexstr_unescape(S(a, "alg")));
		c->set_key(H(a, "key")); c->set_iv(H(a, "iv").data(), H(a, "iv").size());
		auto in = H(a, "in"); std::vector<uint8_t> out(in.size());
		if (!in.empty()) c->cipher(in.data(), out.data(), in.size());
		return okout(out);
	}
	if (cmd == "BLOCK") {      // single block encryption (check values)
		auto c = BlockCipher::create_or_throw(hexstr_unescape(S(a, "alg")));
		c->set_key(H(a, "key")); auto in = H(a, "in"); std::vector<uint8_t> out(in.size());
		if (in.size() % c->block_size()) throw std::runtime_error("input is not a multiple of the block size");
		if (S(a, "dir") == "dec") c->decrypt_n(in.data(), out.data(), in.size() / c->block_size());
		else c->encrypt_n(in.data(), out.data(), in.size() / c->block_size());
		return okout(out);
	}
	if (cmd == "KEYWRAP") {    // RFC 3394 / RFC 5649
		bool wrap = S(a, "dir") == "wrap", pad = S(a, "pad") == "1";
		auto kek = H(a, "kek"); auto in = H(a, "in");
		auto bc = BlockCipher::create_or_throw("AES-" + std::to_string(kek.size() * 8));
		bc->set_key(kek);
		if (wrap) { auto o = pad ? nist_key_wrap_padded(in.data(), in.size(), *bc) : nist_key_wrap(in.data(), in.size(), *bc); return okout(o); }
		auto o = pad ? nist_key_unwrap_padded(in.data(), in.size(), *bc) : nist_key_unwrap(in.data(), in.size(), *bc);
		return okout(o);
	}
	if (cmd == "SIGN") {       // pad e.g. EMSA3(SHA-256), EMSA3(Raw), EMSA4(SHA-256,MGF1,32), Raw, EMSA1(SHA-1), Pure
		auto k = load_priv(a);
		PK_Signer s(*k, rng, hexstr_unescape(S(a, "pad")), S(a, "fmt") == "der" ? DER_SEQUENCE : IEEE_1363);
		return okout(s.sign_message(H(a, "in"), rng));
	}
	if (cmd == "VERIFY") {
		auto k = load_pub(a);
		PK_Verifier v(*k, hexstr_unescape(S(a, "pad")), S(a, "fmt") == "der" ? DER_SEQUENCE : IEEE_1363);
		bool ok = v.verify_message(H(a, "in"), H(a, "sig"));
		return std::string("{\"ok\":true,\"valid\":") + (ok ? "true" : "false") + "}";
	}
	if (cmd == "PKENC") { auto k = load_pub(a); PK_Encryptor_EME e(*k, rng, hexstr_unescape(S(a, "pad"))); return okout(e.encrypt(H(a, "in"), rng)); }
	if (cmd == "PKDEC") { auto k = load_priv(a); PK_Decryptor_EME d(*k, rng, hexstr_unescape(S(a, "pad"))); return okout(d.decrypt(H(a, "in"))); }
	if (cmd == "RSARAW") {     // m^e or c^d mod n on raw integers, output left-padded to the modulus length
		BigInt n = B(a, "n"), x = B(a, "in"), e = a.count("d") ? B(a, "d") : B(a, "e");
		if (x >= n) throw std::runtime_error("input >= modulus");
		BigInt r = power_mod(x, e, n);
		return okout(BigInt::encode_1363(r, n.bytes()));
	}
	if (cmd == "AGREE") {      // DH / ECDH / X25519 raw shared secret
		auto k = load_priv(a);
		PK_Key_Agreement ka(*k, rng, "Raw");
		return okout(ka.derive_key(0, H(a, "peer")).bits_of());
	}
	if (cmd == "PKCS8") {      // parse an unencrypted PKCS#8 PrivateKeyInfo; returns algorithm name and the private value(s)
		auto in = H(a, "in");
		DataSource_Memory src(in.data(), in.size());
		std::unique_ptr<Private_Key> k = PKCS8::load_key(src);
		std::string o = "{\"ok\":true,\"algo\":\"" + k->algo_name() + "\"";
		if (auto r = dynamic_cast<RSA_PrivateKey*>(k.get())) {
			o += ",\"n\":\"" + hex_encode(BigInt::encode(r->get_n()), false) + "\",\"d\":\"" + hex_encode(BigInt::encode(r->get_d()), false) + "\",\"e\":\"" + hex_encode(BigInt::encode(r->get_e()), false) + "\"";
		} else if (auto d = dynamic_cast<DL_Scheme_PrivateKey*>(k.get())) {
			o += ",\"x\":\"" + hex_encode(BigInt::encode(d->get_x()), false) + "\",\"p\":\"" + hex_encode(BigInt::encode(d->group_p()), false) + "\"";
		} else if (auto e = dynamic_cast<EC_PrivateKey*>(k.get())) {
			o += ",\"x\":\"" + hex_encode(BigInt::encode(e->private_value()), false) + "\",\"curve_oid\":\"" + e->domain().get_curve_oid().to_string() + "\"";
		} else if (auto ed = dynamic_cast<Ed25519_PrivateKey*>(k.get())) {
			o += ",\"x\":\"" + hex_encode(ed->get_private_key().data(), 32, false) + "\"";
		}
		return o + "}";
	}
	throw std::runtime_error("unknown command " + cmd);
}

int main()
{
	std::string line;
	while (std::getline(std::cin, line)) {
		std::istringstream is(line);
		std::string cmd, tok;
		is >> cmd;
		Args a;
		while (is >> tok) { size_t eq = tok.find('='); if (eq == std::string::npos) a[tok] = ""; else a[tok.substr(0, eq)] = tok.substr(eq + 1); }
		std::string out;
		try { out = handle(cmd, a); }
		catch (std::exception& e) { std::string m = e.what(); for (auto& c : m) if (c == '"' || c == '\\' || c == '\n') c = ' '; out = "{\"ok\":false,\"err\":\"" + m + "\"}"; }
		std::cout << out << std::endl;
	}
	return 0;
}
