"""Client of engine/p11sh: spawns a shell in a state directory, formats requests, parses answers.

All PKCS#11 typing knowledge lives here (the shell is a raw marshaller).  Nothing in this module looks at
the library's private state: only exported C_* calls, the files under the state directory and exit status.
"""
import json, os, select, shutil, signal, struct, subprocess, tempfile
from . import consts as C
from .consts import *  # noqa: F401,F403

VERIF = os.path.dirname(os.path.dirname(os.path.dirname(os.path.abspath(__file__))))

BOOL_ATTRS = {C.CKA_TOKEN, C.CKA_PRIVATE, C.CKA_TRUSTED, C.CKA_SENSITIVE, C.CKA_ENCRYPT, C.CKA_DECRYPT, C.CKA_WRAP,
              C.CKA_UNWRAP, C.CKA_SIGN, C.CKA_SIGN_RECOVER, C.CKA_VERIFY, C.CKA_VERIFY_RECOVER, C.CKA_DERIVE,
              C.CKA_EXTRACTABLE, C.CKA_LOCAL, C.CKA_NEVER_EXTRACTABLE, C.CKA_ALWAYS_SENSITIVE, C.CKA_MODIFIABLE,
              C.CKA_COPYABLE, C.CKA_DESTROYABLE, C.CKA_ALWAYS_AUTHENTICATE, C.CKA_WRAP_WITH_TRUSTED}
ULONG_ATTRS = {C.CKA_CLASS, C.CKA_CERTIFICATE_TYPE, C.CKA_KEY_TYPE, C.CKA_MODULUS_BITS, C.CKA_PRIME_BITS,
               C.CKA_SUB_PRIME_BITS, C.CKA_VALUE_BITS, C.CKA_VALUE_LEN, C.CKA_KEY_GEN_MECHANISM,
               C.CKA_CERTIFICATE_CATEGORY, C.CKA_JAVA_MIDP_SECURITY_DOMAIN, C.CKA_NAME_HASH_ALGORITHM,
               C.CKA_MECHANISM_TYPE}
TEMPLATE_ATTRS = {C.CKA_WRAP_TEMPLATE, C.CKA_UNWRAP_TEMPLATE}
MECHLIST_ATTRS = {C.CKA_ALLOWED_MECHANISMS}

UNAVAILABLE = -1


class Out:
    """canary-filled output buffer of n bytes"""
    def __init__(self, n): self.n = n


class Null:
    """NULL pointer with announced length n"""
    def __init__(self, n=0): self.n = n


class Raw:
    """pre-formatted blob spec"""
    def __init__(self, s): self.s = s


def ul(v):
    return struct.pack("<Q", v & 0xFFFFFFFFFFFFFFFF)


def blob(v):
    if v is None:
        return "n0"
    if isinstance(v, Out):
        return "b%d" % v.n
    if isinstance(v, Null):
        return "n%d" % v.n
    if isinstance(v, Raw):
        return v.s
    if isinstance(v, bool):
        return "x01" if v else "x00"
    if isinstance(v, int):
        return "x" + ul(v).hex()
    if isinstance(v, (bytes, bytearray)):
        return "x" + bytes(v).hex()
    if isinstance(v, str):
        return "x" + v.encode().hex()
    if isinstance(v, (list, tuple)):   # nested template
        return "t[" + tpl(v) + "]"
    raise TypeError(v)


def mechlist(ms):
    return b"".join(ul(m) for m in ms)


def tpl(entries):
    """entries: iterable of (type, value)"""
    return ",".join("%x:%s" % (t, blob(v)) for t, v in entries)


def mech(m, param=None):
    """m: mechanism type or None (NULL mechanism pointer).  param: None, bytes, Null, or ('p', structbytes, [(off, blobvalue)...])"""
    if m is None:
        return "null"
    if param is None:
        return "%x:-" % m
    if isinstance(param, tuple) and param and param[0] == "p":
        _, st, patches = param
        return "%x:p(x%s%s)" % (m, st.hex(), "".join("|%d:%s" % (o, blob(b)) for o, b in patches))
    return "%x:%s" % (m, blob(param))


# ---- mechanism parameter builders (LP64 layouts of the v2.40 structs)
def gcm_params(iv, aad, tagbits, ivbits=None):
    st = struct.pack("<QQQQQQ", 0, len(iv), len(iv) * 8 if ivbits is None else ivbits, 0, len(aad), tagbits)
    return ("p", st, [(0, iv), (24, aad if len(aad) else None)])


def ctr_params(bits, cb):
    return struct.pack("<Q", bits) + bytes(cb)


def oaep_params(hashalg=C.CKM_SHA_1, mgf=C.CKG_MGF1_SHA1, source=C.CKZ_DATA_SPECIFIED, srcdata=b""):
    st = struct.pack("<QQQQQ", hashalg, mgf, source, 0, len(srcdata))
    return ("p", st, [(24, srcdata if srcdata else None)])


def pss_params(hashalg, mgf, slen):
    return struct.pack("<QQQ", hashalg, mgf, slen)


def ecdh_params(pubdata, kdf=C.CKD_NULL, shared=b""):
    st = struct.pack("<QQQQQ", kdf, len(shared), 0, len(pubdata), 0)
    return ("p", st, [(16, shared if shared else None), (32, pubdata)])


def keyderiv_string(data):
    st = struct.pack("<QQ", 0, len(data))
    return ("p", st, [(0, data)])


def cbc_encrypt_data_params(iv, data):
    st = bytes(iv) + struct.pack("<QQ", 0, len(data))
    return ("p", st, [(len(iv), data)])


def decode_attr(t, raw):
    if t in BOOL_ATTRS and len(raw) == 1:
        return raw != b"\x00"
    if t in ULONG_ATTRS and len(raw) == 8:
        return struct.unpack("<Q", raw)[0]
    if t in MECHLIST_ATTRS and len(raw) % 8 == 0:
        return tuple(struct.unpack("<%dQ" % (len(raw) // 8), raw))
    return raw


class Died(Exception):
    def __init__(self, info, during=None):
        Exception.__init__(self, "p11sh died: %r during %r" % (info, during))
        self.info = info
        self.during = during


CONF_TEMPLATE = """directories.tokendir = tokens
objectstore.backend = %(backend)s
objectstore.umask = %(umask)s
log.level = ERROR
slots.removable = false
slots.mechanisms = %(mechanisms)s
library.reset_on_fork = false
"""


def write_conf(statedir, backend="file", mechanisms="ALL", umask="0077", extra=""):
    os.makedirs(os.path.join(statedir, "tokens"), exist_ok=True)
    with open(os.path.join(statedir, "softhsm2.conf"), "w") as f:
        f.write(CONF_TEMPLATE % dict(backend=backend, mechanisms=mechanisms, umask=umask) + extra)


def scratch_root():
    base = "/dev/shm" if os.path.isdir("/dev/shm") and shutil.disk_usage("/dev/shm").free > (1 << 30) else os.path.join(VERIF, "build", "scratch")
    os.makedirs(base, exist_ok=True)
    return tempfile.mkdtemp(prefix="verif.%d." % os.getpid(), dir=base)


CALL_TIMEOUT = float(os.environ.get("VERIF_CALL_TIMEOUT", "150"))      # seconds without any answer from the shell before a call is declared hanging


class Shell:
    """one p11sh process; cwd = state directory (softhsm2.conf + tokens/)"""

    def __init__(self, variant, statedir, env=None, prog="p11sh"):
        self.variant = variant
        self.statedir = statedir
        e = dict(os.environ)
        e["SOFTHSM2_CONF"] = "softhsm2.conf"
        e["ASAN_OPTIONS"] = "halt_on_error=0:detect_leaks=0:abort_on_error=0:allocator_may_return_null=1:log_path=%s" % os.path.join(statedir, "..", "asan.log")
        e["TSAN_OPTIONS"] = "halt_on_error=0:report_signal_unsafe=0:exitcode=0:log_path=%s" % os.path.join(statedir, "..", "tsan.log")
        if env:
            e.update(env)
        self.p = subprocess.Popen([os.path.join(os.environ.get("VERIF_BUILD", os.path.join(VERIF, "build")), variant, prog)], cwd=statedir, env=e,
                                  stdin=subprocess.PIPE, stdout=subprocess.PIPE, bufsize=0, start_new_session=True)
        self.ifd = self.p.stdin.fileno()
        self.ofd = self.p.stdout.fileno()
        self.buf = b""
        self.ncalls = 0
        self.last = None

    def _readline(self):
        while True:
            i = self.buf.find(b"\n")
            if i >= 0:
                line, self.buf = self.buf[:i], self.buf[i + 1:]
                return line
            self._wait_readable(self.last)
            chunk = os.read(self.ofd, 1 << 16)
            if not chunk:
                rc = self.p.wait()
                raise Died({"eof": True, "returncode": rc}, self.last)
            self.buf += chunk

    def _hang(self, during):
        """no answer within CALL_TIMEOUT: the call hangs (endless loop, dead lock).  The shell and every snapshot child are killed (own process group)."""
        try:
            os.killpg(self.p.pid, signal.SIGKILL)
        except Exception:
            pass
        try:
            self.p.wait(timeout=10)
        except Exception:
            pass
        raise Died({"eof": True, "hang": True, "no_answer_within_s": CALL_TIMEOUT, "returncode": None}, during)

    def _wait_readable(self, during):
        r, _, _ = select.select([self.ofd], [], [], CALL_TIMEOUT)
        if not r:
            self._hang(during)

    def cmd(self, line):
        self.last = line
        self.ncalls += 1
        data = (line + "\n").encode()
        try:
            off = 0
            while off < len(data):
                off += os.write(self.ifd, data[off:off + (1 << 16)])
        except BrokenPipeError:
            rc = self.p.wait()
            raise Died({"eof": True, "returncode": rc}, line)
        r = json.loads(self._readline())
        if "error" in r:
            raise RuntimeError("p11sh protocol error: %s for %s" % (r["error"], line[:200]))
        return r

    def batch(self, lines):
        """pipelined: write all, read all; returns list of answers (a 'died' answer is followed by 'skipped' ones)"""
        data = ("\n".join(lines) + "\n").encode()
        self.ncalls += len(lines)
        out = []
        off = 0
        while len(out) < len(lines):
            wl = [self.ifd] if off < len(data) else []
            r, w, _ = select.select([self.ofd], wl, [], CALL_TIMEOUT)
            if not r and not w:
                self._hang(lines[len(out)] if len(out) < len(lines) else None)
            if w:
                try:
                    off += os.write(self.ifd, data[off:off + (1 << 15)])
                except BrokenPipeError:
                    off = len(data)
            if r:
                chunk = os.read(self.ofd, 1 << 16)
                if not chunk:
                    rc = self.p.wait()
                    raise Died({"eof": True, "returncode": rc}, lines[len(out)] if len(out) < len(lines) else None)
                self.buf += chunk
                while len(out) < len(lines):
                    i = self.buf.find(b"\n")
                    if i < 0:
                        break
                    line, self.buf = self.buf[:i], self.buf[i + 1:]
                    out.append(json.loads(line))
        return out

    def close(self):
        try:
            if self.p.poll() is None:
                os.write(self.ifd, b"QUIT\n")
                self.p.stdin.close()
                self.p.wait(timeout=10)
        except Exception:
            try:
                self.p.kill()
            except Exception:
                pass
        try:
            self.p.stdout.close()
        except Exception:
            pass

    def kill(self):
        try:
            try:
                os.killpg(self.p.pid, signal.SIGKILL)
            except Exception:
                self.p.kill()
            self.p.wait()
        except Exception:
            pass

    # ---- snapshots
    inplace = False      # set for stores that keep descriptors open (SQLite): snapshots restore the directory in place

    def snap(self, copy=True):
        r = self.cmd(("SNAP inplace=1" if self.inplace else "SNAP") if copy else "SNAP copy=0")
        assert "snap" in r, r
        return r["snap"]

    def back(self):
        r = self.cmd("BACK")
        if "died" in r:
            self.cmd("RESUME")
            raise Died(r["died"], "BACK")
        assert r.get("back") == 1, r
        return r

    def pwd(self):
        return self.cmd("PWD")["dir"]


def rvname(rv):
    return C.CKR_NAMES.get(rv, "0x%x" % rv)


class P11:
    """typed convenience layer over a Shell; every method returns the raw answer dict (with 'rv')"""

    def __init__(self, shell):
        self.sh = shell

    def call(self, line):
        r = self.sh.cmd(line)
        if "died" in r:
            self.sh.cmd("RESUME")
            raise Died(r["died"], line)
        return r

    def batch(self, lines):
        """pipelined calls; a death inside the batch raises Died (remaining answers are drained first)"""
        rs = self.sh.batch(lines)
        for i, r in enumerate(rs):
            if "died" in r:
                if hasattr(self.sh, "depth"):
                    self.sh.depth -= 1
                self.sh.cmd("RESUME")
                raise Died(r["died"], lines[i])
            if "error" in r:
                raise RuntimeError("p11sh protocol error: %s for %s" % (r["error"], lines[i][:200]))
        return rs

    def Initialize(self, args="null"): return self.call("C_Initialize args=%s" % args)
    def Finalize(self): return self.call("C_Finalize")
    def GetSlotList(self, present=1, cnt="q"): return self.call("C_GetSlotList present=%d cnt=%s" % (present, cnt))
    def GetSlotInfo(self, slot): return self.call("C_GetSlotInfo slot=%d" % slot)
    def GetTokenInfo(self, slot): return self.call("C_GetTokenInfo slot=%d" % slot)
    def GetMechanismList(self, slot, cnt="q"): return self.call("C_GetMechanismList slot=%d cnt=%s" % (slot, cnt))
    def GetMechanismInfo(self, slot, m): return self.call("C_GetMechanismInfo slot=%d type=%d" % (slot, m))
    def InitToken(self, slot, pin, label): return self.call("C_InitToken slot=%d pin=%s label=%s" % (slot, blob(pin), blob(label.ljust(32)[:32] if isinstance(label, (str, bytes)) else label)))
    def InitPIN(self, s, pin): return self.call("C_InitPIN s=%d pin=%s" % (s, blob(pin)))
    def SetPIN(self, s, old, new): return self.call("C_SetPIN s=%d old=%s new=%s" % (s, blob(old), blob(new)))
    def OpenSession(self, slot, flags=C.CKF_SERIAL_SESSION | C.CKF_RW_SESSION): return self.call("C_OpenSession slot=%d flags=%d" % (slot, flags))
    def CloseSession(self, s): return self.call("C_CloseSession s=%d" % s)
    def CloseAllSessions(self, slot): return self.call("C_CloseAllSessions slot=%d" % slot)
    def GetSessionInfo(self, s): return self.call("C_GetSessionInfo s=%d" % s)
    def Login(self, s, user, pin): return self.call("C_Login s=%d user=%d pin=%s" % (s, user, blob(pin)))
    def Logout(self, s): return self.call("C_Logout s=%d" % s)
    def CreateObject(self, s, t): return self.call("C_CreateObject s=%d tpl=%s" % (s, tpl(t)))
    def CopyObject(self, s, o, t): return self.call("C_CopyObject s=%d o=%d tpl=%s" % (s, o, tpl(t)))
    def DestroyObject(self, s, o): return self.call("C_DestroyObject s=%d o=%d" % (s, o))
    def GetObjectSize(self, s, o): return self.call("C_GetObjectSize s=%d o=%d" % (s, o))
    def GetAttributeValue(self, s, o, t): return self.call("C_GetAttributeValue s=%d o=%d tpl=%s" % (s, o, tpl(t)))
    def SetAttributeValue(self, s, o, t): return self.call("C_SetAttributeValue s=%d o=%d tpl=%s" % (s, o, tpl(t)))
    def FindObjectsInit(self, s, t): return self.call("C_FindObjectsInit s=%d tpl=%s" % (s, tpl(t)))
    def FindObjects(self, s, maxn): return self.call("C_FindObjects s=%d max=%d" % (s, maxn))
    def FindObjectsFinal(self, s): return self.call("C_FindObjectsFinal s=%d" % s)
    def FindAll(self, s, t=()): return self.call("FINDALL s=%d tpl=%s" % (s, tpl(t)))
    def GenerateKey(self, s, m, t): return self.call("C_GenerateKey s=%d mech=%s tpl=%s" % (s, m, tpl(t)))
    def GenerateKeyPair(self, s, m, pub, priv): return self.call("C_GenerateKeyPair s=%d mech=%s pub=%s priv=%s" % (s, m, tpl(pub), tpl(priv)))
    def WrapKey(self, s, m, wk, k, out): return self.call("C_WrapKey s=%d mech=%s wk=%d k=%d out=%s" % (s, m, wk, k, blob(out)))
    def UnwrapKey(self, s, m, k, data, t): return self.call("C_UnwrapKey s=%d mech=%s k=%d in=%s tpl=%s" % (s, m, k, blob(data), tpl(t)))
    def DeriveKey(self, s, m, k, t): return self.call("C_DeriveKey s=%d mech=%s k=%d tpl=%s" % (s, m, k, tpl(t)))
    def init_op(self, kind, s, m, k=0): return self.call("C_%sInit s=%d mech=%s k=%d" % (kind, s, m, k))
    def op(self, name, s, data=None, out=None, sig=None):
        line = "C_%s s=%d" % (name, s)
        if data is not None: line += " in=" + blob(data)
        if out is not None: line += " out=" + blob(out)
        if sig is not None: line += " sig=" + blob(sig)
        return self.call(line)
    def DigestKey(self, s, k): return self.call("C_DigestKey s=%d k=%d" % (s, k))
    def GenerateRandom(self, s, n): return self.call("C_GenerateRandom s=%d out=b%d" % (s, n))

    # ---- helpers used by oracles (pure compositions of the calls above)
    def get_attr(self, s, o, t, maxlen=None):
        """two-step read of one attribute: returns (rv, value|None). value decoded by type."""
        r = self.GetAttributeValue(s, o, [(t, Null(0))])
        if r["rv"] != C.CKR_OK:
            return r["rv"], None
        n = r["attrs"][0][1]
        if n < 0:
            return r["rv"], None
        if t in TEMPLATE_ATTRS:
            return self.get_template_attr(s, o, t, n)
        r = self.GetAttributeValue(s, o, [(t, Out(n))])
        if r["rv"] != C.CKR_OK:
            return r["rv"], None
        a = r["attrs"][0]
        return r["rv"], decode_attr(t, bytes.fromhex(a[2])[:a[1]])

    def get_template_attr(self, s, o, t, n):
        cnt = n // 24
        # first pass: inner lengths
        r = self.call("C_GetAttributeValue s=%d o=%d tpl=%x:t[%s]" % (s, o, t, ",".join("0:n0" for _ in range(cnt))))
        if r["rv"] != C.CKR_OK:
            return r["rv"], None
        inner = r["attrs"][0][2]
        spec = ",".join("%x:b%d" % (e[0], max(e[1], 0)) for e in inner)
        r = self.call("C_GetAttributeValue s=%d o=%d tpl=%x:t[%s]" % (s, o, t, spec))
        if r["rv"] != C.CKR_OK:
            return r["rv"], None
        inner = r["attrs"][0][2]
        return r["rv"], tuple(sorted((e[0], decode_attr(e[0], bytes.fromhex(e[2])[:max(e[1], 0)])) for e in inner))

    def get_attrs(self, s, o, types):
        """read many attributes at once (sizes first). returns dict type -> value | ('rv', code) for unreadable ones"""
        r = self.GetAttributeValue(s, o, [(t, Null(0)) for t in types])
        out = {}
        if "attrs" not in r:
            return {t: ("rv", r["rv"]) for t in types}
        want = []
        for (t, n, _x) in r["attrs"]:
            if n < 0:
                out[t] = ("unavailable",)
            elif t in TEMPLATE_ATTRS:
                rv, v = self.get_template_attr(s, o, t, n)
                out[t] = v if rv == C.CKR_OK else ("rv", rv)
            else:
                want.append((t, n))
        if want:
            r2 = self.GetAttributeValue(s, o, [(t, Out(n)) for t, n in want])
            for (t, n, hx, _w) in r2.get("attrs", []):
                out[t] = decode_attr(t, bytes.fromhex(hx)[:n]) if n >= 0 else ("unavailable",)
        return out
