"""Glue shared by all checks: known findings, replay files, evidence files, exit codes (DESIGN.md 2.8, 2.9)."""
import json, os, sys, time

VERIF = os.path.dirname(os.path.dirname(os.path.dirname(os.path.abspath(__file__))))
KNOWN = os.path.join(VERIF, "known_findings.json")


def load_known():
    if not os.path.exists(KNOWN):
        return {}
    d = json.load(open(KNOWN))
    return {(f["property"], f["signature"]): f for f in d.get("findings", [])}


def tier_seed():
    return int(os.environ.get("VERIF_SEED", "0") or 0)


def jsonable(x):
    if isinstance(x, (bytes, bytearray)):
        return "hex:" + bytes(x).hex()
    if isinstance(x, dict):
        return {str(k): jsonable(v) for k, v in x.items()}
    if isinstance(x, (list, tuple, set, frozenset)):
        return [jsonable(v) for v in x]
    if isinstance(x, (int, float, str, bool)) or x is None:
        return x
    return repr(x)


class Report:
    """collects violations (already replayed by the check), prints the interface lines, writes evidence"""

    def __init__(self, prop, tier, level):
        self.prop = prop
        self.tier = tier
        self.level = level
        self.t0 = time.time()
        self.violations = []      # dicts with 'signature', 'detail', ...
        self.harness_errors = []
        self.coverage = {}
        self.assumptions = []
        import glob
        for f in glob.glob(os.path.join(VERIF, "replays", "tmp", "%s-%s-*.json" % (prop, tier))):
            try:
                os.remove(f)
            except OSError:
                pass

    def add_violation(self, v):
        self.violations.append(v)

    def finish(self):
        known = load_known()
        nviol = 0
        nknown = 0
        printed = set()
        os.makedirs(os.path.join(VERIF, "replays", "tmp"), exist_ok=True)
        for i, v in enumerate(self.violations):
            sig = v["signature"]
            if sig in printed:
                continue
            printed.add(sig)
            kf = known.get((self.prop, sig))
            if kf is not None:
                nknown += 1
                print("KNOWN-FINDING: property=%s %s [%s]" % (self.prop, kf.get("what", ""), sig))
                continue
            nviol += 1
            path = os.path.join(VERIF, "replays", "tmp", "%s-%s-%d.json" % (self.prop, self.tier, nviol))
            rec = dict(v)
            rec["property"] = self.prop
            with open(path, "w") as f:
                json.dump(jsonable(rec), f, indent=1)
            print("VIOLATION property=%s replay=%s" % (self.prop, path))
            print("  signature: %s" % sig)
            if v.get("detail") is not None:
                print("  detail: %s" % (json.dumps(jsonable(v["detail"]))[:600]))
        cov = dict(self.coverage)
        cov["known_findings_seen"] = nknown
        ev = {"property_id": self.prop, "tier": self.tier, "seed": tier_seed(), "level": self.level,
              "coverage": jsonable(cov), "assumptions": self.assumptions, "wall_s": round(time.time() - self.t0, 2),
              "violations": nviol}
        os.makedirs(os.path.join(VERIF, "evidence"), exist_ok=True)
        tmp = os.path.join(VERIF, "evidence", "%s.json.tmp" % self.prop)
        with open(tmp, "w") as f:
            json.dump(ev, f, indent=1)
        os.replace(tmp, os.path.join(VERIF, "evidence", "%s.json" % self.prop))
        for h in self.harness_errors[:5]:
            sys.stderr.write("HARNESS-ERROR %s: %s\n" % (self.prop, h))
        if nviol:
            return 1
        if self.harness_errors:
            return 2
        return 0
