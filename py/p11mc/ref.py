"""Client of engine/ref/refsh (Botan): the independent crypto reference of the oracles."""
import json, os, subprocess
from .p11 import VERIF


class RefError(Exception):
    pass


class Ref:
    def __init__(self):
        self.p = subprocess.Popen([os.path.join(VERIF, "build", "ref", "refsh")], stdin=subprocess.PIPE, stdout=subprocess.PIPE, bufsize=0)
        self.n = 0

    def call(self, cmd, **kw):
        parts = [cmd]
        for k, v in kw.items():
            if isinstance(v, (bytes, bytearray)):
                v = bytes(v).hex()
            elif isinstance(v, int) and not isinstance(v, bool):
                v = "%x" % v
                if len(v) % 2:
                    v = "0" + v
            parts.append("%s=%s" % (k, str(v).replace(" ", "~")))
        self.p.stdin.write((" ".join(parts) + "\n").encode())
        line = self.p.stdout.readline()
        self.n += 1
        r = json.loads(line)
        return r

    def out(self, cmd, **kw):
        r = self.call(cmd, **kw)
        if not r.get("ok"):
            raise RefError(r.get("err", "?"))
        return bytes.fromhex(r["out"])

    def try_out(self, cmd, **kw):
        r = self.call(cmd, **kw)
        return bytes.fromhex(r["out"]) if r.get("ok") else None

    def close(self):
        try:
            self.p.stdin.close()
            self.p.wait(timeout=5)
        except Exception:
            self.p.kill()
