"""Independent decoder of SoftHSMv2's token directory (file store) and of its at-rest encryption.

Written from the on-disk format, not from File.cpp:
  object file   = generation(8, big endian)  then records  type(8) kind(8) value
                  kind 1 bool (1 byte, 0 = false, anything else = true) | 2 ulong (8) | 3 byte string (len(8) + bytes)
                  | 4 attribute map (byte length(8) + nested type(8) kind'(8) value, kind' 1 bool, 2 ulong, 3 bytes, 5 mech set)
                  | 5 mechanism set (count(8) + 8 each)
  token.object  = same container with the vendor attributes 0x80005349.. (label, serial, flags, SO blob, user blob)
  PIN blob      = salt(8) || IV(16) || AES-256-CBC-PKCS7( "RJR" || master key(32) ),  PBE key = SHA-256 iterated 1500 + salt[7] times over salt||PIN
  private attr  = IV(16) || AES-256-CBC-PKCS7(value) under the master key
"""
import hashlib, os, struct

OS_TOKENLABEL, OS_TOKENSERIAL, OS_TOKENFLAGS, OS_SOPIN, OS_USERPIN = 0x80005349, 0x8000534A, 0x8000534B, 0x8000534C, 0x8000534D
MAGIC = b"RJR"


class FormatError(Exception):
    pass


def _u64(b, off):
    if off + 8 > len(b):
        raise FormatError("truncated ulong at %d" % off)
    return struct.unpack(">Q", b[off:off + 8])[0], off + 8


def _value(b, off, kind, nested=False):
    if kind == 1:
        if off + 1 > len(b):
            raise FormatError("truncated bool")
        return b[off] != 0, off + 1
    if kind == 2:
        return _u64(b, off)
    if kind == 3:
        n, off = _u64(b, off)
        if off + n > len(b):
            raise FormatError("truncated byte string (%d bytes at %d of %d)" % (n, off, len(b)))
        return bytes(b[off:off + n]), off + n
    if kind == 5:
        n, off = _u64(b, off)
        out = []
        for _ in range(n):
            v, off = _u64(b, off)
            out.append(v)
        return tuple(sorted(out)), off
    if kind == 4 and not nested:
        n, off = _u64(b, off)
        end = off + n
        if end > len(b):
            raise FormatError("truncated attribute map")
        m = {}
        while off < end:
            t, off = _u64(b, off)
            k, off = _u64(b, off)
            v, off = _value(b, off, k, nested=True)
            if t == 0x40000600 and isinstance(v, bytes) and len(v) % 8 == 0:
                # CKA_ALLOWED_MECHANISMS inside a nested template is kept as the caller's raw CK_MECHANISM_TYPE array (host byte order)
                v = tuple(sorted(struct.unpack("<%dQ" % (len(v) // 8), v)))
            m[t] = v
        if off != end:
            raise FormatError("attribute map length mismatch")
        return m, off
    raise FormatError("unknown attribute kind %d" % kind)


def parse_object(data):
    """-> (generation, {type: (kind, value)})"""
    gen, off = _u64(data, 0)
    attrs = {}
    while off < len(data):
        t, off = _u64(data, off)
        k, off = _u64(data, off)
        v, off = _value(data, off, k)
        attrs[t] = (k, v)
    return gen, attrs


def pbe_key(pin, salt):
    it = 1500 + salt[-1]
    h = hashlib.sha256(salt + pin).digest()
    for _ in range(it - 1):
        h = hashlib.sha256(h).digest()
    return h


def unwrap_master(ref, blob, pin):
    """master key from a PIN blob, or None when the PIN does not fit"""
    if len(blob) < 8 + 16 + 16:
        return None
    salt, iv, ct = blob[:8], blob[8:24], blob[24:]
    pt = ref.try_out("CIPHER", alg="AES-256/CBC/PKCS7", dir="dec", key=pbe_key(pin, salt), iv=iv, **{"in": ct})
    if pt is None or pt[:3] != MAGIC or len(pt) != 35:
        return None
    return pt[3:]


def decrypt_attr(ref, master, enc):
    if len(enc) < 32 or (len(enc) % 16) != 0:
        return None
    return ref.try_out("CIPHER", alg="AES-256/CBC/PKCS7", dir="dec", key=master, iv=enc[:16], **{"in": enc[16:]})


def parse_db_attrmap(blob):
    """the SQLite store's serialisation of a nested template (table attribute_array), host byte order:
    type(8) kind(4: 1 bool, 2 ulong, 3 bytes, 5 mech set) value (bool 1 byte | ulong 8 | len(8) + bytes | len(8) + 8 each)  ->  {type: value}"""
    m, off = {}, 0
    while off < len(blob):
        if off + 12 > len(blob):
            raise FormatError("truncated map entry header")
        t, k = struct.unpack("<QI", blob[off:off + 12])
        off += 12
        if k == 1:
            if off + 1 > len(blob):
                raise FormatError("truncated bool")
            v = blob[off] != 0
            off += 1
        elif k == 2:
            if off + 8 > len(blob):
                raise FormatError("truncated ulong")
            v = struct.unpack("<Q", blob[off:off + 8])[0]
            off += 8
        elif k in (3, 5):
            if off + 8 > len(blob):
                raise FormatError("truncated length")
            n = struct.unpack("<Q", blob[off:off + 8])[0]
            off += 8
            if off + n > len(blob):
                raise FormatError("truncated value")
            v = bytes(blob[off:off + n])
            off += n
            if (k == 5 or t == 0x40000600) and len(v) % 8 == 0:
                v = tuple(sorted(struct.unpack("<%dQ" % (len(v) // 8), v)))
        else:
            raise FormatError("unknown kind %d in attribute map" % k)
        m[t] = v
    return m


def read_token_db(tokdir):
    """the SQLite store (sqlite3.db): same shape as read_token_dir; object names are 'object-<id>', the token object is id 1.
    Independent of the library: read with Python's sqlite3 module from a private copy of the database file."""
    import sqlite3, shutil, tempfile
    out = {"token": None, "objects": {}, "errors": {}, "files": sorted(os.listdir(tokdir))}
    tmp = tempfile.mkdtemp(prefix="storefmt-db.")
    try:
        for f in out["files"]:
            if f.startswith("sqlite3.db"):
                shutil.copy(os.path.join(tokdir, f), tmp)
        try:
            con = sqlite3.connect(os.path.join(tmp, "sqlite3.db"))
            ids = [r[0] for r in con.execute("select id from object order by id")]
            objs = {i: {} for i in ids}
            for table, kind, conv in (("attribute_boolean", 1, lambda v: bool(v)), ("attribute_integer", 2, lambda v: int(v) & 0xFFFFFFFFFFFFFFFF), ("attribute_binary", 3, lambda v: bytes(v) if v is not None else b""),
                                      ("attribute_array", 4, lambda v: parse_db_attrmap(bytes(v) if v is not None else b""))):
                for oid, t, v in con.execute("select object_id, type, value from %s" % table):
                    if oid in objs:
                        objs[oid][int(t)] = (kind, conv(v))
            con.close()
        except Exception as e:      # sqlite3.Error and friends
            out["errors"]["sqlite3.db"] = str(e)
            return out
        for i, attrs in objs.items():
            if i == 1 and OS_TOKENLABEL in attrs or (OS_SOPIN in attrs):
                out["token"] = attrs
            else:
                out["objects"]["object-%d" % i] = attrs
        return out
    finally:
        shutil.rmtree(tmp, ignore_errors=True)


def read_token_dir(tokdir):
    """-> {'token': attrs of token.object, 'objects': {filename: attrs}, 'errors': {...}, 'files': [...]}"""
    if os.path.exists(os.path.join(tokdir, "sqlite3.db")):
        return read_token_db(tokdir)
    out = {"token": None, "objects": {}, "errors": {}, "files": sorted(os.listdir(tokdir))}
    for f in out["files"]:
        if not f.endswith(".object"):
            continue
        try:
            gen, attrs = parse_object(open(os.path.join(tokdir, f), "rb").read())
        except (FormatError, OSError) as e:
            out["errors"][f] = str(e)
            continue
        if f == "token.object":
            out["token"] = attrs
        else:
            out["objects"][f] = attrs
    return out


def token_dirs(root):
    return sorted(os.path.join(root, d) for d in os.listdir(root) if os.path.isdir(os.path.join(root, d)))
