"""Explorer core (DESIGN.md 2.3): level-synchronous breadth-first search over the *real* library.

A check supplies
    world(ctx)            build the on-disk template (tokens, PINs, token objects) with the current tree -> picklable dict
    setup(ctx, world)     after a fresh C_Initialize on a copy of the template: open sessions etc. -> model (picklable, deepcopy-able)
    actions(model)        finite menu of enabled actions (hashable, picklable tuples), simplest first
    step(ctx, model, a)   execute a on the real library through ctx.p, compare with the reference model, return the new model
                          (raise Violation(signature, detail) when the oracle fails)
    probe(ctx, model)     state invariants / probe matrix evaluated in every new state (raise Violation)
    key(ctx, model)       canonical form of model + API-visible observation (hashable)

States are kept as the shortest action history reaching them.  A worker owns one p11sh whose depth-0 process
is the post-setup state; a task SNAPs, replays the history (the key must equal the key seen at discovery -
determinism gate), expands one level with SNAP/step/probe/key/BACK per action, and BACKs.
"""
import copy, json, multiprocessing as mp, os, shutil, sys, time, traceback
from . import p11 as P
from .p11 import Died


class Violation(Exception):
    def __init__(self, signature, detail=None):
        Exception.__init__(self, signature)
        self.signature = signature
        self.detail = detail


class HarnessError(Exception):
    pass


class Ctx:
    def __init__(self, variant, store, root):
        self.variant = variant
        self.store = store
        self.root = root          # private scratch root of this worker
        self.sh = None
        self.p = None
        self.world = None
        self.counters = {}
        self.pending = []

    def report(self, signature, detail=None):
        """record a violation and go on (the first one per signature is kept)"""
        if not any(v.signature == signature for v in self.pending):
            self.pending.append(Violation(signature, detail))

    def count(self, name, n=1):
        self.counters[name] = self.counters.get(name, 0) + n

    def start_shell(self, statedir, env=None):
        self.sh = ShellD(self.variant, statedir, env=env)
        self.sh.inplace = (self.store == "db")
        self.p = P.P11(self.sh)
        return self.p

    def stop_shell(self):
        if self.sh:
            self.sh.close()
        self.sh = None
        self.p = None


class ShellD(P.Shell):
    """Shell that tracks its SNAP depth so that callers can unwind after a death"""

    def __init__(self, *a, **k):
        P.Shell.__init__(self, *a, **k)
        self.depth = 0

    def cmd(self, line):
        r = P.Shell.cmd(self, line)
        if "died" in r:
            self.depth -= 1
        return r

    def snap(self, copy=True):
        r = P.Shell.snap(self, copy)
        self.depth += 1
        return r

    def back(self):
        r = P.Shell.cmd(self, "BACK")
        self.depth -= 1
        if "died" in r:
            P.Shell.cmd(self, "RESUME")
            raise Died(r["died"], "BACK")
        return r

    def unwind(self, d0):
        while self.depth > d0:
            self.back()


# ------------------------------------------------------------------------------------------------
# worker side
_W = {}


def _worker_init(check, variant, store, template, base_root):
    try:
        root = os.path.join(base_root, "w%d" % os.getpid())
        os.makedirs(root, exist_ok=True)
        ctx = Ctx(variant, store, root)
        _W.update(check=check, ctx=ctx, template=template, gen=0)
        _fresh_shell()
    except Exception:
        traceback.print_exc()
        raise


def _fresh_shell():
    ctx = _W["ctx"]
    check = _W["check"]
    ctx.stop_shell()
    _W["gen"] += 1
    sd = os.path.join(ctx.root, "g%d" % _W["gen"], "d0")
    if os.path.exists(os.path.dirname(sd)):
        shutil.rmtree(os.path.dirname(sd))
    shutil.copytree(_W["template"]["dir"], sd)
    ctx.start_shell(sd)
    ctx.world = _W["template"]["world"]
    _W["model0"] = check.setup(ctx, ctx.world)


def _viol(v, history, action):
    return {"signature": v.signature, "detail": v.detail, "history": list(history), "action": action}


def _expand(task):
    history, expected_key = task[0], task[1]
    part, nparts = (task[2], task[3]) if len(task) > 2 else (0, 1)     # the enabled actions of one state may be split over several tasks (short frontiers)
    ctx = _W["ctx"]
    check = _W["check"]
    ctx.counters = {}
    out = {"succ": [], "viol": [], "transitions": 0, "harness": None, "counters": None}
    for attempt in (0, 1):
        try:
            sh = ctx.sh
            sh.snap()
            try:
                model = copy.deepcopy(_W["model0"])
                for a in history:
                    model = check.step(ctx, model, a)
                    out["transitions"] += 1
                k = check.key(ctx, model)
                if expected_key is not None and k != expected_key:
                    out["harness"] = "determinism: replayed key differs from key at discovery for history %r\n discovered=%r\n replayed=%r" % (history, expected_key, k)
                    return out
                for a in check.actions(model)[part::nparts]:
                    d0 = sh.depth
                    sh.snap()
                    try:
                        ctx.pending = []
                        m2 = check.step(ctx, copy.deepcopy(model), a)
                        out["transitions"] += 1
                        check.probe(ctx, m2)
                        k2 = check.key(ctx, m2)
                        out["succ"].append((a, k2))
                        for v in ctx.pending:
                            out["viol"].append(_viol(v, history, a))
                    except Violation as v:
                        for pv in ctx.pending:
                            out["viol"].append(_viol(pv, history, a))
                        out["viol"].append(_viol(v, history, a))
                    except Died as d:
                        if d.info.get("eof"):
                            raise
                        out["viol"].append(_viol(Violation("died|%s" % check.died_sig(a, d), {"died": d.info, "during": d.during}), history, a))
                    finally:
                        sh.unwind(d0)
            finally:
                sh.unwind(0)
            out["counters"] = ctx.counters
            return out
        except Died as d:
            # the depth-0 process itself died (no parent to report): restart the worker shell
            out["viol"].append(_viol(Violation("died|top|%r" % (d.info,), {"died": d.info, "during": d.during}), history, None))
            _fresh_shell()
            out["counters"] = ctx.counters
            return out
        except Violation as v:
            # a violation while *replaying* an already accepted history: nondeterminism -> harness error
            out["harness"] = "violation %s while replaying accepted history %r" % (v.signature, history)
            return out
        except Exception:
            out["harness"] = traceback.format_exc()
            try:
                _fresh_shell()
            except Exception:
                pass
            return out
    return out


def _dfs_task(task):
    """unmerged enumeration: replay prefix, then every action sequence up to `remaining` more steps"""
    prefix, remaining = task
    ctx = _W["ctx"]
    check = _W["check"]
    ctx.counters = {}
    out = {"paths": 0, "viol": [], "transitions": 0, "harness": None, "keys": set(), "counters": None}
    sh = ctx.sh

    def rec(model, hist, rem):
        if rem == 0:
            out["paths"] += 1
            return
        acts = check.actions(model)
        if not acts:
            out["paths"] += 1
        for a in acts:
            d0 = sh.depth
            sh.snap()
            try:
                ctx.pending = []
                m2 = check.step(ctx, copy.deepcopy(model), a)
                out["transitions"] += 1
                # probes may open sessions, create helper objects ...: unlike in the BFS (where the state is rebuilt by replay) the recursion
                # continues from THIS process image, so the probe runs in a snapshot of its own and on a copy of the model
                d1 = sh.depth
                sh.snap()
                try:
                    check.probe(ctx, copy.deepcopy(m2))
                finally:
                    sh.unwind(d1)
                out["keys"].add(hash(check.key(ctx, m2)))
                for v in ctx.pending:
                    if len(out["viol"]) < 200:
                        out["viol"].append(_viol(v, hist, a))
                rec(m2, hist + [a], rem - 1)
            except Violation as v:
                if len(out["viol"]) < 200:
                    for pv in ctx.pending:
                        out["viol"].append(_viol(pv, hist, a))
                    out["viol"].append(_viol(v, hist, a))
            except Died as d:
                if d.info.get("eof"):
                    raise
                out["viol"].append(_viol(Violation("died|%s" % check.died_sig(a, d), {"died": d.info, "during": d.during}), hist, a))
            finally:
                sh.unwind(d0)

    try:
        sh.snap()
        try:
            model = copy.deepcopy(_W["model0"])
            for a in prefix:
                model = check.step(ctx, model, a)
                out["transitions"] += 1
            rec(model, list(prefix), remaining)
        finally:
            sh.unwind(0)
    except Violation as v:
        out["viol"].append(_viol(v, prefix, None))
    except Died as d:
        out["viol"].append(_viol(Violation("died|top|%r" % (d.info,), {"died": d.info, "during": d.during}), prefix, None))
        _fresh_shell()
    except Exception:
        out["harness"] = traceback.format_exc()
        try:
            _fresh_shell()
        except Exception:
            pass
    out["keys"] = len(out["keys"])
    out["counters"] = ctx.counters
    return out


# ------------------------------------------------------------------------------------------------
# coordinator side
class CheckBase:
    ID = "C00"

    def died_sig(self, action, d):
        return "%s|%r" % (action[0] if isinstance(action, tuple) else action, d.info)

    def probe(self, ctx, model):
        pass


def build_template(check, variant, store, base_root, conf_kw=None):
    """run check.world() once with the current tree in a template directory"""
    tdir = os.path.join(base_root, "template", "d0")
    os.makedirs(tdir, exist_ok=True)
    kw = dict(backend=store)
    kw.update(conf_kw or {})
    P.write_conf(tdir, **kw)
    ctx = Ctx(variant, store, os.path.join(base_root, "template"))
    ctx.start_shell(tdir)
    try:
        world = check.world(ctx)
    finally:
        ctx.stop_shell()
    return {"dir": tdir, "world": world}


class Explorer:
    def __init__(self, check, variant="ossl-plain", store="file", workers=None, deadline=None, conf_kw=None):
        self.check = check
        self.variant = variant
        self.store = store
        self.workers = workers or min(16, os.cpu_count() or 4)
        self.deadline = deadline
        self.conf_kw = conf_kw or {}
        self.base_root = P.scratch_root()
        self.template = build_template(check, variant, store, self.base_root, conf_kw)
        self.pool = mp.get_context("fork").Pool(self.workers, _worker_init, (check, variant, store, self.template, self.base_root))
        self.stats = dict(states=0, transitions=0, levels=[], exhaustive=False, depth_completed=0, counters={}, harness_errors=[],
                          dfs_paths=0, dfs_transitions=0, dfs_depth=0)
        self.violations = {}      # signature -> first (shortest) violation record
        self.samples = []

    def close(self):
        try:
            self.pool.terminate()
            self.pool.join()
        finally:
            shutil.rmtree(self.base_root, ignore_errors=True)

    def _merge_counters(self, c):
        if not c:
            return
        for k, v in c.items():
            self.stats["counters"][k] = self.stats["counters"].get(k, 0) + v

    def _timeup(self):
        return self.deadline is not None and time.time() > self.deadline

    def bfs(self, max_depth):
        """returns True when the frontier emptied (fixpoint) at or below max_depth"""
        r0 = self.pool.apply(_expand_root)
        if r0.get("harness"):
            raise HarnessError(r0["harness"])
        self._merge_counters(r0.get("counters"))
        for v in r0["viol"]:
            self.violations.setdefault(v["signature"], v)
        seen = {r0["key"]: ()}
        frontier = [((), r0["key"])]
        self.stats["states"] = 1
        depth = 0
        while frontier and depth < max_depth:
            if self._timeup():
                break
            nxt = []
            ntrans = 0
            chunk = max(1, min(32, len(frontier) // (self.workers * 4) or 1))
            aborted = False
            # a short frontier would leave most workers idle: split the enabled actions of every state over several tasks (each replays the history itself)
            nparts = 1 if len(frontier) >= self.workers * 3 else max(1, min(8, (self.workers * 3) // max(1, len(frontier))))
            tasks = [(list(h), k, part, nparts) for h, k in frontier for part in range(nparts)]
            for res in self.pool.imap_unordered(_expand, tasks, chunksize=chunk):
                if res["harness"]:
                    self.stats["harness_errors"].append(res["harness"])
                    continue
                ntrans += res["transitions"]
                self._merge_counters(res["counters"])
                for v in res["viol"]:
                    self.violations.setdefault(v["signature"], v)
                # imap_unordered loses the task association, so _expand returns the history with its successors
                for a, k2 in res["succ"]:
                    h2 = tuple(res["history"]) + (a,)
                    if k2 not in seen:
                        seen[k2] = h2
                        nxt.append((h2, k2))
                if self._timeup():
                    aborted = True
                    break
            self.stats["transitions"] += ntrans
            if aborted:
                self.seen = seen
                self.stats["levels"].append({"depth": depth + 1, "new_states": len(nxt), "transitions": ntrans, "complete": False})
                # restart the pool: imap_unordered was abandoned mid-way
                self.pool.terminate(); self.pool.join()
                self.pool = mp.get_context("fork").Pool(self.workers, _worker_init, (self.check, self.variant, self.store, self.template, self.base_root))
                self.stats["states"] = len(seen)
                return False
            depth += 1
            self.stats["levels"].append({"depth": depth, "new_states": len(nxt), "transitions": ntrans, "complete": True})
            self.stats["depth_completed"] = depth
            nxt.sort(key=lambda x: repr(x[0]))
            frontier = nxt
            self.stats["states"] = len(seen)
        self.samples = self._pick_samples(seen)
        self.seen = seen
        self.stats["frontier_left"] = len(frontier)
        if not frontier:
            self.stats["exhaustive"] = True
            return True
        return False

    def _pick_samples(self, seen):
        hs = sorted(seen.values(), key=lambda h: (len(h), repr(h)))
        picks = hs[1:3] + hs[-2:]
        return [[repr(a) for a in h] for h in picks if h]

    def dfs(self, depth, prefix_len=2):
        """unmerged enumeration of all action sequences of length <= depth"""
        prefix_len = min(prefix_len, depth)
        prefixes = self.pool.apply(_enum_prefixes, (prefix_len,))
        tasks = [(p, depth - len(p)) for p in prefixes]
        paths = 0
        for res in self.pool.imap_unordered(_dfs_task, tasks):
            if res["harness"]:
                self.stats["harness_errors"].append(res["harness"])
                continue
            paths += res["paths"]
            self.stats["dfs_transitions"] += res["transitions"]
            self._merge_counters(res["counters"])
            for v in res["viol"]:
                self.violations.setdefault(v["signature"], v)
            if self._timeup():
                self.pool.terminate(); self.pool.join()
                self.pool = mp.get_context("fork").Pool(self.workers, _worker_init, (self.check, self.variant, self.store, self.template, self.base_root))
                return False
        self.stats["dfs_paths"] += paths
        self.stats["dfs_depth"] = depth
        return True


def _expand_root():
    ctx = _W["ctx"]
    check = _W["check"]
    ctx.counters = {}
    out = {"key": None, "viol": [], "harness": None, "counters": None}
    sh = ctx.sh
    try:
        sh.snap()
        try:
            m = copy.deepcopy(_W["model0"])
            ctx.pending = []
            check.probe(ctx, m)
            out["key"] = check.key(ctx, m)
            for v in ctx.pending:
                out["viol"].append(_viol(v, [], None))
        except Violation as v:
            for pv in ctx.pending:
                out["viol"].append(_viol(pv, [], None))
            out["viol"].append(_viol(v, [], None))
            out["key"] = check.key(ctx, copy.deepcopy(_W["model0"]))
        finally:
            sh.unwind(0)
    except Exception:
        out["harness"] = traceback.format_exc()
    out["counters"] = ctx.counters
    return out


def _enum_prefixes(n):
    """all action sequences of length n (executed for real, since enabledness depends on the model)"""
    ctx = _W["ctx"]
    check = _W["check"]
    sh = ctx.sh
    res = []

    def rec(model, hist, rem):
        if rem == 0:
            res.append(list(hist))
            return
        for a in check.actions(model):
            d0 = sh.depth
            sh.snap()
            try:
                m2 = check.step(ctx, copy.deepcopy(model), a)
                rec(m2, hist + [a], rem - 1)
            except (Violation, Died):
                res.append(list(hist))   # let the dfs task rediscover and report it
            finally:
                sh.unwind(d0)

    sh.snap()
    try:
        rec(copy.deepcopy(_W["model0"]), [], n)
    finally:
        sh.unwind(0)
    # de-duplicate prefixes cut short by violations
    uniq = []
    seen = set()
    for p in res:
        t = repr(p)
        if t not in seen:
            seen.add(t)
            uniq.append(p)
    return uniq


# _expand must return the history (imap_unordered loses the association)
_orig_expand = _expand


def _expand(task):  # noqa: F811
    out = _orig_expand(task)
    out["history"] = list(task[0])
    return out


def _replay(v):
    """re-execute a violation record from scratch (fresh directory copy, fresh process); returns the signature seen or None"""
    _fresh_shell()
    ctx = _W["ctx"]
    check = _W["check"]
    sh = ctx.sh
    a = None
    ctx.pending = []
    try:
        sh.snap()
        try:
            model = copy.deepcopy(_W["model0"])
            if not v["history"] and v["action"] is None:
                check.probe(ctx, model)
            for a in v["history"]:
                model = check.step(ctx, model, a)
            if v["action"] is not None:
                a = v["action"]
                m2 = check.step(ctx, copy.deepcopy(model), a)
                check.probe(ctx, m2)
                check.key(ctx, m2)
        finally:
            sh.unwind(0)
    except Violation as e:
        return [x.signature for x in ctx.pending] + [e.signature]
    except Died as d:
        if d.info.get("eof"):
            _fresh_shell()
            return [x.signature for x in ctx.pending] + ["died|top|%r" % (d.info,)]
        return [x.signature for x in ctx.pending] + ["died|%s" % check.died_sig(a, d)]
    return [x.signature for x in ctx.pending]


def confirm_violations(ex, report):
    """replay every violation once from scratch; reproduced ones go to the report, others are harness errors"""
    for sig, v in sorted(ex.violations.items()):
        seen = ex.pool.apply(_replay, (v,))
        if sig in seen:
            v = dict(v)
            v["variant"] = ex.variant
            v["store"] = ex.store
            v["check"] = ex.check.ID
            v["check_module"] = type(ex.check).__module__
            v["check_class"] = type(ex.check).__name__
            v["check_kwargs"] = getattr(ex.check, "kw", {})
            v["conf_kw"] = ex.conf_kw
            report.add_violation(v)
        else:
            report.harness_errors.append("violation %s did not reproduce on replay (saw %r); history=%r action=%r" % (sig, seen, v["history"], v["action"]))
    report.harness_errors.extend(ex.stats["harness_errors"][:5])


def replay_file(rec, verbose=True):
    """plain re-execution of a replay record without the pool (tools/replay.py)"""
    import importlib
    mod = importlib.import_module(rec["check_module"])
    check = getattr(mod, rec["check_class"])(**rec.get("check_kwargs", {}))
    base_root = P.scratch_root()
    try:
        template = build_template(check, rec["variant"], rec["store"], base_root, rec.get("conf_kw"))
        _worker_init(check, rec["variant"], rec["store"], template, base_root)

        def lit(x):
            return tuple(lit(y) for y in x) if isinstance(x, list) else x
        v = {"history": [lit(a) for a in rec["history"]], "action": lit(rec["action"]) if rec["action"] is not None else None}
        sig = _replay(v)
        _W["ctx"].stop_shell()
        return sig
    finally:
        shutil.rmtree(base_root, ignore_errors=True)
