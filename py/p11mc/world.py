"""The fixed world of DESIGN.md 2.7: two initialised tokens A and B plus the free slot, built by the current tree."""
from . import consts as C
from .p11 import P11

SO_A, USER_A = b"so-pin-A-0001", b"user-pin-A-01"
SO_B, USER_B = b"so-pin-B-0002", b"user-pin-B-02"
WRONG = b"wrong-pin-9999"
RW = C.CKF_SERIAL_SESSION | C.CKF_RW_SESSION
RO = C.CKF_SERIAL_SESSION


def label_of(ti):
    return bytes.fromhex(ti["label"]).rstrip(b" ").decode("latin1")


def slot_map(p):
    """label -> slot id for initialised tokens; 'free' -> the uninitialised slot (if any)"""
    n = p.GetSlotList(1, "q")["n"]
    r = p.GetSlotList(1, n + 2)
    assert r["rv"] == 0, r
    out = {}
    for s in r["slots"]:
        ti = p.GetTokenInfo(s)
        if ti["rv"] != 0:
            continue
        if ti["flags"] & C.CKF_TOKEN_INITIALIZED:
            out[label_of(ti)] = s
        else:
            out.setdefault("free", s)
    return out


def ok(r, what=""):
    if r["rv"] != 0:
        raise RuntimeError("set-up call failed: %s -> %s" % (what, C.CKR_NAMES.get(r["rv"], hex(r["rv"]))))
    return r


def init_token(p, slot, so_pin, label, user_pin=None):
    ok(p.InitToken(slot, so_pin, label), "C_InitToken")
    if user_pin is not None:
        s = ok(p.OpenSession(slot), "C_OpenSession")["h"]
        ok(p.Login(s, C.CKU_SO, so_pin), "C_Login SO")
        ok(p.InitPIN(s, user_pin), "C_InitPIN")
        ok(p.Logout(s), "C_Logout")
        ok(p.CloseSession(s), "C_CloseSession")


def two_tokens(ctx, user_b=True):
    """initialise A and B, restart so that both sit on their serial-derived slots; leaves the library finalised.
    returns {'slots': {'A':..,'B':..,'free':..}, 'serial': {...}}"""
    p = ctx.p
    ok(p.Initialize(), "C_Initialize")
    sm = slot_map(p)
    init_token(p, sm["free"], SO_A, "A", USER_A)
    sm = slot_map(p)
    init_token(p, sm["free"], SO_B, "B", USER_B if user_b else None)
    ok(p.Finalize(), "C_Finalize")
    ok(p.Initialize(), "C_Initialize")
    sm = slot_map(p)
    serial = {}
    for k in ("A", "B"):
        serial[k] = p.GetTokenInfo(sm[k])["serial"]
    ok(p.Finalize(), "C_Finalize")
    return {"slots": sm, "serial": serial}
