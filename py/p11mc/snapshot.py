"""Observation helpers shared by the store-related checks: API snapshots (what every session sees) and raw directory snapshots."""
import hashlib, os
from . import consts as C
from .p11 import tpl, Null, Out

ALL_ATTRS = [C.CKA_CLASS, C.CKA_TOKEN, C.CKA_PRIVATE, C.CKA_LABEL, C.CKA_APPLICATION, C.CKA_VALUE, C.CKA_OBJECT_ID, C.CKA_CERTIFICATE_TYPE,
             C.CKA_ISSUER, C.CKA_SERIAL_NUMBER, C.CKA_TRUSTED, C.CKA_CERTIFICATE_CATEGORY, C.CKA_CHECK_VALUE, C.CKA_KEY_TYPE, C.CKA_SUBJECT,
             C.CKA_ID, C.CKA_SENSITIVE, C.CKA_ENCRYPT, C.CKA_DECRYPT, C.CKA_WRAP, C.CKA_UNWRAP, C.CKA_SIGN, C.CKA_SIGN_RECOVER, C.CKA_VERIFY,
             C.CKA_VERIFY_RECOVER, C.CKA_DERIVE, C.CKA_START_DATE, C.CKA_END_DATE, C.CKA_MODULUS, C.CKA_MODULUS_BITS, C.CKA_PUBLIC_EXPONENT,
             C.CKA_PRIVATE_EXPONENT, C.CKA_PRIME_1, C.CKA_PRIME_2, C.CKA_EXPONENT_1, C.CKA_EXPONENT_2, C.CKA_COEFFICIENT, C.CKA_PRIME, C.CKA_SUBPRIME,
             C.CKA_BASE, C.CKA_PRIME_BITS, C.CKA_VALUE_BITS, C.CKA_VALUE_LEN, C.CKA_EXTRACTABLE, C.CKA_LOCAL, C.CKA_NEVER_EXTRACTABLE,
             C.CKA_ALWAYS_SENSITIVE, C.CKA_KEY_GEN_MECHANISM, C.CKA_MODIFIABLE, C.CKA_COPYABLE, C.CKA_DESTROYABLE, C.CKA_EC_PARAMS, C.CKA_EC_POINT,
             C.CKA_ALWAYS_AUTHENTICATE, C.CKA_WRAP_WITH_TRUSTED, C.CKA_WRAP_TEMPLATE, C.CKA_UNWRAP_TEMPLATE, C.CKA_ALLOWED_MECHANISMS]
_PLAIN = [a for a in ALL_ATTRS if a not in (C.CKA_WRAP_TEMPLATE, C.CKA_UNWRAP_TEMPLATE)] + [C.CKA_PUBLIC_KEY_INFO]


def read_objects(p, s, handles, attrs=None):
    """handle -> tuple((type, value|('unavailable',)|None)...) for the given handles through session s; values are raw bytes"""
    attrs = attrs or _PLAIN
    if not handles:
        return {}
    q = tpl([(t, Null(0)) for t in attrs])
    r1 = p.batch(["C_GetAttributeValue s=%d o=%d tpl=%s" % (s, h, q) for h in handles])
    lines = []
    for h, r in zip(handles, r1):
        want = [(t, n) for (t, n, _x) in r.get("attrs", []) if n > 0]
        lines.append("C_GetAttributeValue s=%d o=%d tpl=%s" % (s, h, tpl([(t, Out(n)) for t, n in want])) if want else "PING")
    r2 = p.batch(lines)
    out = {}
    for h, a, b in zip(handles, r1, r2):
        if "attrs" not in a:
            out[h] = (("rv", a["rv"]),)
            continue
        vals = {}
        for (t, n, hx, _w) in b.get("attrs", []) or []:
            vals[t] = bytes.fromhex(hx)[:n] if n >= 0 else ("unavailable",)
        row = []
        for (t, n, _x) in a["attrs"]:
            if n < 0:
                row.append((t, ("unavailable",)))     # sensitive or no such attribute
            elif n == 0:
                row.append((t, b""))
            else:
                row.append((t, vals.get(t)))
        out[h] = tuple(row)
    return out


def api_snapshot(p, sessions, known_handles=()):
    """what every session sees: {session: {handle: attribute tuple}} plus validity of every known handle"""
    snap = {}
    for s in sessions:
        r = p.FindAll(s)
        hs = sorted(r.get("hs", []))
        snap[s] = (r["rv"], read_objects(p, s, hs))
    valid = {}
    if known_handles and sessions:
        rs = p.batch(["C_GetObjectSize s=%d o=%d" % (sessions[0], h) for h in known_handles])
        valid = {h: (r["rv"] == 0) for h, r in zip(known_handles, rs)}
    return {"sessions": snap, "valid": valid}


def diff_api(a, b):
    """first difference between two api snapshots as a short description, or None"""
    for s in a["sessions"]:
        ra, oa = a["sessions"][s]
        rb, ob = b["sessions"].get(s, (None, {}))
        if set(ob) - set(oa):
            return ("object-appeared", {"session": s, "handles": sorted(set(ob) - set(oa)), "attrs": {h: [(C.CKA_NAMES.get(t, hex(t)), v) for t, v in ob[h] if v not in (("unavailable",), None)][:12] for h in sorted(set(ob) - set(oa))[:2]}})
        if set(oa) - set(ob):
            return ("object-vanished", {"session": s, "handles": sorted(set(oa) - set(ob))})
        for h in oa:
            if oa[h] != ob[h]:
                ch = [(C.CKA_NAMES.get(t1, hex(t1)), v1, v2) for (t1, v1), (t2, v2) in zip(oa[h], ob[h]) if v1 != v2]
                return ("attribute-changed:%s" % "+".join(x[0] for x in ch[:3]), {"session": s, "handle": h, "changes": ch[:6]})
    for h, v in a["valid"].items():
        if b["valid"].get(h) != v:
            return ("handle-validity-changed", {"handle": h, "before": v, "after": b["valid"].get(h)})
    return None


def disk_snapshot(root, skip_generation=True):
    """relative path -> (mode, digest); object/token files are hashed without their 8-byte generation prefix"""
    out = {}
    for dp, dn, fn in os.walk(root):
        for d in dn:
            q = os.path.join(dp, d)
            out[os.path.relpath(q, root) + "/"] = (os.stat(q).st_mode & 0o7777, "dir")
        for f in fn:
            q = os.path.join(dp, f)
            try:
                data = open(q, "rb").read()
                mode = os.stat(q).st_mode & 0o7777
            except OSError:
                continue
            if f.startswith("sqlite3.db-"):
                continue                      # journal / wal files of the SQLite store
            if f == "sqlite3.db":
                # logical content (independent reader), without row ids: a rolled-back insert may consume an id, which no caller can observe
                from . import storefmt as _SF
                d = _SF.read_token_db(dp)
                canon = repr((sorted((d["token"] or {}).items()), sorted(sorted(a.items()) for a in d["objects"].values()), sorted(d["errors"])))
                out[os.path.relpath(q, root)] = (mode, hashlib.sha1(canon.encode()).hexdigest() + ":objects=%d" % len(d["objects"]))
                continue
            if skip_generation and f.endswith(".object"):
                data = data[8:]
            if skip_generation and f == "generation":
                data = b""
            out[os.path.relpath(q, root)] = (mode, hashlib.sha1(data).hexdigest() + ":%d" % len(data))
    return out


def diff_disk(a, b):
    for k in sorted(set(a) | set(b)):
        if k not in a:
            return ("file-appeared", {"path": k})
        if k not in b:
            return ("file-vanished", {"path": k})
        if a[k] != b[k]:
            return ("file-changed", {"path": k, "before": a[k], "after": b[k]})
    return None
