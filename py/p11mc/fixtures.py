"""Fixed key material (fixtures/keys.json, generated once with the openssl CLI) and C_CreateObject templates per object kind."""
import json, os
from . import consts as C

VERIF = os.path.dirname(os.path.dirname(os.path.dirname(os.path.abspath(__file__))))
KEYS = json.load(open(os.path.join(VERIF, "fixtures", "keys.json")))


def H(x):
    return bytes.fromhex(x)


AES128 = bytes(range(0x10, 0x20))
AES192 = bytes(range(0x20, 0x38))
AES256 = bytes(range(0x40, 0x60))
DES1 = H("0123456789abcdef")
DES2 = H("0123456789abcdeffedcba9876543210")
DES3 = H("0123456789abcdeffedcba987654321089abcdef01234567")
GENERIC = {n: bytes((i * 7 + 3) & 0xFF for i in range(n)) for n in (1, 20, 32, 64, 129)}

# a small self-signed-looking DER blob; the library does not parse certificate values
CERT_VALUE = H("3082010a0201003081") + bytes(range(64))
CERT_SUBJECT = H("300f310d300b06035504030c0474657374")

SECRET_ATTRS = (C.CKA_VALUE, C.CKA_PRIVATE_EXPONENT, C.CKA_PRIME_1, C.CKA_PRIME_2, C.CKA_EXPONENT_1, C.CKA_EXPONENT_2, C.CKA_COEFFICIENT)


def base(kind):
    """class-specific mandatory part of a C_CreateObject template: list of (type, value)"""
    k = KEYS
    if kind == "data":
        return [(C.CKA_CLASS, C.CKO_DATA), (C.CKA_VALUE, b"VFdata-value-0123456789abcdef"), (C.CKA_APPLICATION, b"verif-app")]
    if kind == "cert":
        return [(C.CKA_CLASS, C.CKO_CERTIFICATE), (C.CKA_CERTIFICATE_TYPE, C.CKC_X_509), (C.CKA_SUBJECT, CERT_SUBJECT), (C.CKA_VALUE, CERT_VALUE)]
    if kind in ("aes", "aes128"):
        return [(C.CKA_CLASS, C.CKO_SECRET_KEY), (C.CKA_KEY_TYPE, C.CKK_AES), (C.CKA_VALUE, AES128)]
    if kind == "aes192":
        return [(C.CKA_CLASS, C.CKO_SECRET_KEY), (C.CKA_KEY_TYPE, C.CKK_AES), (C.CKA_VALUE, AES192)]
    if kind == "aes256":
        return [(C.CKA_CLASS, C.CKO_SECRET_KEY), (C.CKA_KEY_TYPE, C.CKK_AES), (C.CKA_VALUE, AES256)]
    if kind == "des":
        return [(C.CKA_CLASS, C.CKO_SECRET_KEY), (C.CKA_KEY_TYPE, C.CKK_DES), (C.CKA_VALUE, DES1)]
    if kind == "des2":
        return [(C.CKA_CLASS, C.CKO_SECRET_KEY), (C.CKA_KEY_TYPE, C.CKK_DES2), (C.CKA_VALUE, DES2)]
    if kind == "des3":
        return [(C.CKA_CLASS, C.CKO_SECRET_KEY), (C.CKA_KEY_TYPE, C.CKK_DES3), (C.CKA_VALUE, DES3)]
    if kind.startswith("generic"):
        n = int(kind[7:] or 32)
        return [(C.CKA_CLASS, C.CKO_SECRET_KEY), (C.CKA_KEY_TYPE, C.CKK_GENERIC_SECRET), (C.CKA_VALUE, GENERIC[n])]
    if kind.startswith("rsa") and kind.endswith("_pub"):
        r = k[kind[:-4] if kind[:-4] in k else "rsa1024"]
        return [(C.CKA_CLASS, C.CKO_PUBLIC_KEY), (C.CKA_KEY_TYPE, C.CKK_RSA), (C.CKA_MODULUS, H(r["n"])), (C.CKA_PUBLIC_EXPONENT, H(r["e"]))]
    if kind.startswith("rsa") and kind.endswith("_priv"):
        r = k[kind[:-5] if kind[:-5] in k else "rsa1024"]
        return [(C.CKA_CLASS, C.CKO_PRIVATE_KEY), (C.CKA_KEY_TYPE, C.CKK_RSA), (C.CKA_MODULUS, H(r["n"])), (C.CKA_PUBLIC_EXPONENT, H(r["e"])),
                (C.CKA_PRIVATE_EXPONENT, H(r["d"])), (C.CKA_PRIME_1, H(r["p"])), (C.CKA_PRIME_2, H(r["q"])),
                (C.CKA_EXPONENT_1, H(r["dp"])), (C.CKA_EXPONENT_2, H(r["dq"])), (C.CKA_COEFFICIENT, H(r["qinv"]))]
    if kind.startswith("ec") and kind.endswith("_pub"):
        e = k[kind[:-4] if kind[:-4] in k else "ec256"]
        return [(C.CKA_CLASS, C.CKO_PUBLIC_KEY), (C.CKA_KEY_TYPE, C.CKK_EC), (C.CKA_EC_PARAMS, H(e["params"])), (C.CKA_EC_POINT, H(e["point"]))]
    if kind.startswith("ec") and kind.endswith("_priv"):
        e = k[kind[:-5] if kind[:-5] in k else "ec256"]
        return [(C.CKA_CLASS, C.CKO_PRIVATE_KEY), (C.CKA_KEY_TYPE, C.CKK_EC), (C.CKA_EC_PARAMS, H(e["params"])), (C.CKA_VALUE, H(e["value"]))]
    if kind.startswith("ed") and kind.endswith("_pub"):
        e = k[kind[:-4]]
        return [(C.CKA_CLASS, C.CKO_PUBLIC_KEY), (C.CKA_KEY_TYPE, C.CKK_EC_EDWARDS), (C.CKA_EC_PARAMS, H(e["params"])), (C.CKA_EC_POINT, H(e["point"]))]
    if kind.startswith("ed") and kind.endswith("_priv"):
        e = k[kind[:-5]]
        return [(C.CKA_CLASS, C.CKO_PRIVATE_KEY), (C.CKA_KEY_TYPE, C.CKK_EC_EDWARDS), (C.CKA_EC_PARAMS, H(e["params"])), (C.CKA_VALUE, H(e["value"]))]
    if kind.startswith("x") and kind.endswith("_pub"):
        e = k[kind[:-4]]
        return [(C.CKA_CLASS, C.CKO_PUBLIC_KEY), (C.CKA_KEY_TYPE, C.CKK_EC_EDWARDS), (C.CKA_EC_PARAMS, H(e["params"])), (C.CKA_EC_POINT, H(e["point"]))]
    if kind.startswith("x") and kind.endswith("_priv"):
        e = k[kind[:-5]]
        return [(C.CKA_CLASS, C.CKO_PRIVATE_KEY), (C.CKA_KEY_TYPE, C.CKK_EC_EDWARDS), (C.CKA_EC_PARAMS, H(e["params"])), (C.CKA_VALUE, H(e["value"]))]
    if kind == "dsa_pub":
        d = k["dsa1024"]
        return [(C.CKA_CLASS, C.CKO_PUBLIC_KEY), (C.CKA_KEY_TYPE, C.CKK_DSA), (C.CKA_PRIME, H(d["p"])), (C.CKA_SUBPRIME, H(d["q"])), (C.CKA_BASE, H(d["g"])), (C.CKA_VALUE, H(d["y"]))]
    if kind == "dsa_priv":
        d = k["dsa1024"]
        return [(C.CKA_CLASS, C.CKO_PRIVATE_KEY), (C.CKA_KEY_TYPE, C.CKK_DSA), (C.CKA_PRIME, H(d["p"])), (C.CKA_SUBPRIME, H(d["q"])), (C.CKA_BASE, H(d["g"])), (C.CKA_VALUE, H(d["x"]))]
    if kind == "dh_pub":
        d = k["dh1024"]
        return [(C.CKA_CLASS, C.CKO_PUBLIC_KEY), (C.CKA_KEY_TYPE, C.CKK_DH), (C.CKA_PRIME, H(d["p"])), (C.CKA_BASE, H(d["g"])), (C.CKA_VALUE, H(d["y"]))]
    if kind == "dh_priv":
        d = k["dh1024"]
        return [(C.CKA_CLASS, C.CKO_PRIVATE_KEY), (C.CKA_KEY_TYPE, C.CKK_DH), (C.CKA_PRIME, H(d["p"])), (C.CKA_BASE, H(d["g"])), (C.CKA_VALUE, H(d["x"]))]
    if kind == "dsa_params":
        d = k["dsa1024"]
        return [(C.CKA_CLASS, C.CKO_DOMAIN_PARAMETERS), (C.CKA_KEY_TYPE, C.CKK_DSA), (C.CKA_PRIME, H(d["p"])), (C.CKA_SUBPRIME, H(d["q"])), (C.CKA_BASE, H(d["g"]))]
    if kind == "dh_params":
        d = k["dh1024"]
        return [(C.CKA_CLASS, C.CKO_DOMAIN_PARAMETERS), (C.CKA_KEY_TYPE, C.CKK_DH), (C.CKA_PRIME, H(d["p"])), (C.CKA_BASE, H(d["g"]))]
    raise KeyError(kind)


def klass(kind):
    return dict(base(kind))[C.CKA_CLASS]


def is_key(kind):
    return klass(kind) in (C.CKO_SECRET_KEY, C.CKO_PUBLIC_KEY, C.CKO_PRIVATE_KEY)


def has_extract_flags(kind):
    return klass(kind) in (C.CKO_SECRET_KEY, C.CKO_PRIVATE_KEY)


def template(kind, token=False, private=False, ident=None, label=None, extra=(), plain=True):
    """full template; plain=True makes secret/private keys readable (SENSITIVE false, EXTRACTABLE true)"""
    t = list(base(kind))
    t += [(C.CKA_TOKEN, bool(token)), (C.CKA_PRIVATE, bool(private))]
    if ident is not None and klass(kind) not in (C.CKO_DATA, C.CKO_DOMAIN_PARAMETERS):
        t.append((C.CKA_ID, ident))
    if label is not None:
        t.append((C.CKA_LABEL, label))
    if plain and has_extract_flags(kind):
        t += [(C.CKA_SENSITIVE, False), (C.CKA_EXTRACTABLE, True)]
    t += list(extra)
    return t


ALL_KINDS = ["data", "cert", "aes128", "aes192", "aes256", "des", "des2", "des3", "generic1", "generic20", "generic32", "generic64", "generic129",
             "rsa1024_pub", "rsa1024_priv", "rsa2048_pub", "rsa2048_priv", "dsa_pub", "dsa_priv", "dh_pub", "dh_priv",
             "ec256_pub", "ec256_priv", "ec384_pub", "ec384_priv", "ec521_pub", "ec521_priv",
             "ed25519_pub", "ed25519_priv", "ed448_pub", "ed448_priv", "x25519_pub", "x25519_priv", "x448_pub", "x448_priv",
             "dsa_params", "dh_params"]
NINE = ["data", "cert", "aes128", "generic32", "rsa1024_pub", "ec256_pub", "rsa1024_priv", "ec256_priv", "dsa_params"]
