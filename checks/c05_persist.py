"""C05 - token objects persist durably, faithfully and in a stable on-disk format (DESIGN.md 3/C05).

(1) BFS over object histories {create(kind) with every attribute kind the store knows (booleans, ulongs, dates, mechanism
sets of 0/1/17 entries, nested wrap/unwrap templates, byte strings from the length ladder), copy, set (shorter / longer /
ladder values), destroy, session objects} on the real library.  In EVERY state three observers must agree: the running
instance, a re-initialised instance (C_Finalize/C_Initialize in a throw-away snapshot) and the independent decoder
(py/p11mc/storefmt.py) reading the raw files; session objects and destroyed objects must be absent after the restart.
(2) Golden fixtures written by the pinned commit (file and SQLite store): the current tree must open copies of them, log in
with the recorded PINs, return exactly the recorded objects and values, and still be able to modify them durably.
"""
import json, os, shutil, struct, time, traceback
from p11mc import consts as C
from p11mc.core import CheckBase, Explorer, Violation, confirm_violations, Died
from p11mc import core
from p11mc.runner import Report
from p11mc import world as W, fixtures as F, snapshot as S, storefmt as SF, p11 as P
from p11mc.ref import Ref
from p11mc.p11 import mechlist, tpl, mech

LADDER_QUICK = [0, 1, 255, 4096, 4097, 65536]
LADDER_FULL = [0, 1, 7, 8, 9, 255, 256, 4095, 4096, 4097, 65536, 300000]
M17 = [C.CKM_AES_ECB, C.CKM_AES_CBC, C.CKM_AES_CBC_PAD, C.CKM_AES_CTR, C.CKM_AES_GCM, C.CKM_AES_KEY_WRAP, C.CKM_AES_KEY_WRAP_PAD, C.CKM_AES_CMAC,
       C.CKM_AES_ECB_ENCRYPT_DATA, C.CKM_AES_CBC_ENCRYPT_DATA, C.CKM_SHA256_HMAC, C.CKM_SHA_1_HMAC, C.CKM_SHA512_HMAC, C.CKM_CONCATENATE_BASE_AND_DATA,
       C.CKM_CONCATENATE_DATA_AND_BASE, C.CKM_CONCATENATE_BASE_AND_KEY, C.CKM_SHA384_HMAC]
READ = S.ALL_ATTRS + [C.CKA_PUBLIC_KEY_INFO]


def pattern(n, seed):
    return bytes(((i * 131 + seed * 17 + (i >> 8)) & 0xFF) for i in range(n))


def kind_template(kind, label, token=True):
    if kind.startswith("data-"):
        n = int(kind[5:])
        return [(C.CKA_CLASS, C.CKO_DATA), (C.CKA_TOKEN, token), (C.CKA_PRIVATE, n % 2 == 1), (C.CKA_LABEL, label), (C.CKA_VALUE, pattern(n, n)), (C.CKA_APPLICATION, b"c05")]
    if kind == "aes-rich":
        return F.template("aes256", token=token, private=True, label=label, ident=b"rich-id",
                          extra=[(C.CKA_ENCRYPT, True), (C.CKA_DECRYPT, False), (C.CKA_WRAP, True), (C.CKA_START_DATE, b"20260926"), (C.CKA_END_DATE, b""),
                                 (C.CKA_ALLOWED_MECHANISMS, mechlist(M17)),
                                 (C.CKA_WRAP_TEMPLATE, [(C.CKA_ENCRYPT, True), (C.CKA_VALUE_LEN, 16), (C.CKA_LABEL, b"inner-label")]),
                                 (C.CKA_UNWRAP_TEMPLATE, [(C.CKA_SENSITIVE, False), (C.CKA_KEY_TYPE, C.CKK_AES)])])
    if kind == "aes-tpl-bytes":
        # nested templates whose HIGHEST-numbered entry (the last one on disk) is a byte string - non-empty in one, empty in the other
        return F.template("aes128", token=token, private=True, label=label, ident=b"tplb",
                          extra=[(C.CKA_WRAP, True), (C.CKA_UNWRAP, True), (C.CKA_WRAP_TEMPLATE, [(C.CKA_CLASS, C.CKO_SECRET_KEY), (C.CKA_KEY_TYPE, C.CKK_AES), (C.CKA_ID, b"inner-id")]),
                                 (C.CKA_UNWRAP_TEMPLATE, [(C.CKA_CLASS, C.CKO_SECRET_KEY), (C.CKA_ID, b"")])])
    if kind == "aes-tpl-mechs":
        # ... and a mechanism set (non-empty / empty) as the last entry
        return F.template("aes128", token=token, private=False, label=label, ident=b"tplm",
                          extra=[(C.CKA_WRAP, True), (C.CKA_UNWRAP, True), (C.CKA_WRAP_TEMPLATE, [(C.CKA_KEY_TYPE, C.CKK_AES), (C.CKA_ALLOWED_MECHANISMS, mechlist([C.CKM_AES_CBC, C.CKM_AES_ECB]))]),
                                 (C.CKA_UNWRAP_TEMPLATE, [(C.CKA_KEY_TYPE, C.CKK_AES), (C.CKA_END_DATE, b"20300101")])])
    if kind == "aes-locked":
        # the "lock" booleans away from their defaults: may be neither destroyed nor copied
        return F.template("aes128", token=token, private=True, label=label, ident=b"locked", extra=[(C.CKA_DESTROYABLE, False), (C.CKA_COPYABLE, False)])
    if kind == "nomod-data":
        return [(C.CKA_CLASS, C.CKO_DATA), (C.CKA_TOKEN, token), (C.CKA_PRIVATE, False), (C.CKA_LABEL, label), (C.CKA_VALUE, pattern(40, 7)), (C.CKA_MODIFIABLE, False)]
    if kind == "rsapub-info":
        return F.template("rsa1024_pub", token=token, private=False, label=label, ident=b"pki", extra=[(C.CKA_PUBLIC_KEY_INFO, bytes.fromhex("3003020101"))])
    if kind == "aes-plain":
        return F.template("aes128", token=token, private=False, label=label, ident=b"", extra=[(C.CKA_ALLOWED_MECHANISMS, mechlist([C.CKM_AES_CBC]))])
    if kind == "aes-noset":
        return F.template("aes192", token=token, private=True, label=label, extra=[(C.CKA_ALLOWED_MECHANISMS, b"")])
    if kind == "session-aes":
        return F.template("aes128", token=False, private=False, label=label)
    if kind == "session-prv":
        return F.template("generic32", token=False, private=True, label=label)
    return F.template(kind, token=token, private=kind.endswith("_priv"), label=label, ident=b"id-" + kind.encode()[:8])


VARIANTS = (["ossl-asan", "ossl-plain"], ["ossl-plain", "ossl-asan"])      # the fs-fault clause runs the un-instrumented build under fsx


class Obj:
    def __init__(self, kind, label, token, private):
        self.kind, self.label, self.token, self.private = kind, label, token, private
        self.muts = ()        # tuple of mutation names applied (part of the key)


class Model:
    def __init__(self):
        self.objs = {}        # label -> Obj (alive)
        self.dead = []        # labels destroyed
        self.n = 0
        self.s = 0


class C05(CheckBase):
    ID = "C05"

    def __init__(self, ladder=tuple(LADDER_QUICK), kinds=("aes-rich", "aes-tpl-bytes", "aes-tpl-mechs", "aes-plain", "aes-noset", "aes-locked", "nomod-data", "rsapub-info", "rsa1024_priv", "cert", "ec256_pub", "session-aes", "session-prv"), max_objs=2):
        self.kw = dict(ladder=tuple(ladder), kinds=tuple(kinds), max_objs=max_objs)
        self.ladder, self.kinds, self.max_objs = list(ladder), list(kinds), max_objs

    def world(self, ctx):
        return W.two_tokens(ctx)

    def setup(self, ctx, world):
        p = ctx.p
        W.ok(p.Initialize(), "init")
        m = Model()
        m.s = W.ok(p.OpenSession(world["slots"]["A"]), "open")["h"]
        W.ok(p.Login(m.s, C.CKU_USER, W.USER_A), "login")
        return m

    def actions(self, m):
        acts = []
        if len(m.objs) < self.max_objs:
            for k in self.kinds:
                acts.append(("create", k))
            for n in self.ladder:
                acts.append(("create", "data-%d" % n))
        if len(m.objs) + 2 <= self.max_objs:
            # a generated pair whose halves are asked to live in DIFFERENT places (token / session): each must end up where its own template says
            for combo in ("pub-token+prv-session", "pub-session+prv-token"):
                for alg in ("ec", "rsa"):
                    acts.append(("genpair", alg, combo))
        for lab, o in sorted(m.objs.items()):
            acts.append(("destroy", lab))
            if len(o.muts) < 2:
                acts.append(("set", lab, "label-shorter"))
                acts.append(("set", lab, "label-longer"))
                if o.kind.startswith("data-"):
                    for n in (0, 9, 4097):
                        acts.append(("set", lab, "value-%d" % n))
                elif o.kind.startswith("aes") or o.kind.endswith("_priv"):
                    acts.append(("set", lab, "id-and-dates"))
                    acts.append(("set", lab, "flags"))
            if len(m.objs) < self.max_objs and o.token:
                acts.append(("copy", lab, "same"))
                acts.append(("copy", lab, "to-session"))
        return acts

    def handle(self, ctx, m, lab):
        hs = ctx.p.FindAll(m.s, [(C.CKA_LABEL, lab)]).get("hs", [])
        return hs[0] if len(hs) == 1 else 0

    def step(self, ctx, m, a):
        p = ctx.p
        k = a[0]
        if k == "create":
            lab = b"o%02d-%s" % (m.n, a[1].encode())
            T = kind_template(a[1], lab)
            r = p.CreateObject(m.s, T)
            if r["rv"] == 0:
                d = dict(T)
                m.objs[lab] = Obj(a[1], lab, bool(d.get(C.CKA_TOKEN, False)), bool(d.get(C.CKA_PRIVATE, False)))
                m.n += 1
                ctx.count("create_ok")
            else:
                ctx.count("create_refused:%s" % a[1])
        elif k == "genpair":
            _, alg, combo = a
            tp, tv = combo == "pub-token+prv-session", combo == "pub-session+prv-token"
            lp, lv = b"o%02d-gen-%s-pub" % (m.n, alg.encode()), b"o%02d-gen-%s-prv" % (m.n, alg.encode())
            if alg == "ec":
                mm, pub = C.CKM_EC_KEY_PAIR_GEN, [(C.CKA_EC_PARAMS, F.H(F.KEYS["ec256"]["params"]))]
            else:
                mm, pub = C.CKM_RSA_PKCS_KEY_PAIR_GEN, [(C.CKA_MODULUS_BITS, 1024), (C.CKA_PUBLIC_EXPONENT, b"\x01\x00\x01")]
            r = p.GenerateKeyPair(m.s, mech(mm), pub + [(C.CKA_TOKEN, tp), (C.CKA_PRIVATE, False), (C.CKA_LABEL, lp), (C.CKA_VERIFY, True)],
                                  [(C.CKA_TOKEN, tv), (C.CKA_PRIVATE, True), (C.CKA_LABEL, lv), (C.CKA_SIGN, True)])
            if r["rv"] == 0:
                m.objs[lp] = Obj("%s-generated_pub" % alg, lp, tp, False)
                m.objs[lv] = Obj("%s-generated_priv" % alg, lv, tv, True)
                m.n += 1
                ctx.count("genpair_ok")
            else:
                ctx.count("genpair_refused:%s" % alg)
        elif k == "destroy":
            h = self.handle(ctx, m, a[1])
            if h and p.DestroyObject(m.s, h)["rv"] == 0:
                del m.objs[a[1]]
                m.dead.append(a[1])
                ctx.count("destroy_ok")
        elif k == "set":
            _, lab, what = a
            o = m.objs[lab]
            h = self.handle(ctx, m, lab)
            newlab = lab
            if what == "label-shorter":
                newlab = lab[:3]
                T = [(C.CKA_LABEL, newlab)]
            elif what == "label-longer":
                newlab = lab + b"-" + pattern(60, 3).hex().encode()
                T = [(C.CKA_LABEL, newlab)]
            elif what.startswith("value-"):
                T = [(C.CKA_VALUE, pattern(int(what[6:]), 99))]
            elif what == "id-and-dates":
                T = [(C.CKA_ID, b"new-id-" + pattern(20, 5)), (C.CKA_START_DATE, b"20300101"), (C.CKA_END_DATE, b"20310202")]
            else:
                T = [(C.CKA_DERIVE, True)] if not o.kind.startswith("rsa") else [(C.CKA_DERIVE, False)]
            if newlab != lab and newlab in m.objs:
                return m
            r = p.SetAttributeValue(m.s, h, T) if h else {"rv": -1}
            if r["rv"] == 0:
                o.muts = o.muts + (what,)
                if newlab != lab:
                    del m.objs[lab]
                    o.label = newlab
                    m.objs[newlab] = o
                ctx.count("set_ok")
            else:
                ctx.count("set_refused")
        elif k == "copy":
            _, lab, how = a
            o = m.objs[lab]
            h = self.handle(ctx, m, lab)
            newlab = b"o%02d-copy" % m.n
            T = [(C.CKA_LABEL, newlab)] + ([(C.CKA_TOKEN, False)] if how == "to-session" else [])
            r = p.CopyObject(m.s, h, T) if h else {"rv": -1}
            if r["rv"] == 0:
                c = Obj(o.kind, newlab, o.token and how != "to-session", o.private)
                c.muts = o.muts + ("copy",)
                m.objs[newlab] = c
                m.n += 1
                ctx.count("copy_ok")
            else:
                ctx.count("copy_refused")
        return m

    # ---- the three observers
    def api_view(self, p, s):
        """label -> {attr: value} of every object the (user) session finds; templates included"""
        hs = sorted(p.FindAll(s).get("hs", []))
        out = {}
        rows = S.read_objects(p, s, hs, [a for a in READ if a not in (C.CKA_WRAP_TEMPLATE, C.CKA_UNWRAP_TEMPLATE)])
        for h in hs:
            d = {t: v for t, v in rows[h] if isinstance(v, bytes)}
            for t in (C.CKA_WRAP_TEMPLATE, C.CKA_UNWRAP_TEMPLATE):
                rv, v = p.get_attr(s, h, t)
                if rv == 0 and v:
                    d[t] = v
            out[d.get(C.CKA_LABEL, b"?")] = d
        return out

    def probe(self, ctx, m):
        p, sh = ctx.p, ctx.sh
        v1 = self.api_view(p, m.s)
        for lab, o in m.objs.items():
            if lab not in v1:
                raise Violation("C05|running-instance|object-missing|%s" % o.kind.split("-")[0], {"label": lab})
        for lab in m.dead:
            if lab in v1:
                raise Violation("C05|running-instance|destroyed-object-visible", {"label": lab})
        d0 = sh.depth
        sh.snap()
        try:
            W.ok(p.Finalize(), "final")
            root = os.path.join(sh.pwd(), "tokens")
            # --- observer 3: the independent decoder on the raw files
            ref = Ref()
            try:
                self.decoder_check(ctx, ref, root, m, v1)
            finally:
                ref.close()
            # --- observer 2: a re-initialised instance
            W.ok(p.Initialize(), "init")
            s = W.ok(p.OpenSession(ctx.world["slots"]["A"]), "open")["h"]
            W.ok(p.Login(s, C.CKU_USER, W.USER_A), "login")
            v2 = self.api_view(p, s)
            for lab, o in m.objs.items():
                if not o.token:
                    if lab in v2:
                        raise Violation("C05|after-restart|session-object-outlived-its-session", {"label": lab})
                    continue
                if lab not in v2:
                    raise Violation("C05|after-restart|object-lost|%s|%s" % (o.kind.split("-")[0], "+".join(o.muts) or "fresh"), {"label": lab, "found": sorted(v2)})
                if v2[lab] != v1[lab]:
                    ch = [C.CKA_NAMES.get(t, hex(t)) for t in set(v1[lab]) | set(v2[lab]) if v1[lab].get(t) != v2[lab].get(t)]
                    raise Violation("C05|after-restart|attribute-values-differ|%s|%s" % (o.kind.split("-")[0], "+".join(sorted(ch)[:3])), {"label": lab, "attrs": ch})
                ctx.count("objects_compared_after_restart")
            for lab in m.dead:
                if lab in v2:
                    raise Violation("C05|after-restart|destroyed-object-reappeared", {"label": lab})
            extra = set(v2) - {l for l, o in m.objs.items() if o.token}
            if extra:
                raise Violation("C05|after-restart|unknown-object-appeared", {"labels": sorted(extra)})
        finally:
            sh.unwind(d0)

    def decoder_check(self, ctx, ref, root, m, v1):
        want = {lab: o for lab, o in m.objs.items() if o.token}
        found = {}
        for td in SF.token_dirs(root):
            d = SF.read_token_dir(td)
            tok = d["token"]
            if tok is None or SF.OS_SOPIN not in tok:
                continue
            mk = SF.unwrap_master(ref, tok[SF.OS_SOPIN][1], W.SO_A)
            if mk is None:
                continue
            if d["errors"]:
                raise Violation("C05|decoder|object-file-unparsable", d["errors"])
            for f, attrs in d["objects"].items():
                prv = attrs.get(C.CKA_PRIVATE, (1, True))[1]
                dec = {}
                for t, (k, v) in attrs.items():
                    if k == 3 and t == C.CKA_ALLOWED_MECHANISMS:
                        pass        # the SQLite store keeps mechanism sets (never encrypted) among the binary attributes
                    elif k == 3 and prv and len(v) > 0:
                        v = SF.decrypt_attr(ref, mk, v)
                    dec[t] = (k, v)
                lab = dec.get(C.CKA_LABEL, (3, b"?"))[1]
                found[lab] = dec
        for lab, o in want.items():
            if lab not in found:
                raise Violation("C05|decoder|no-file-for-object|%s" % o.kind.split("-")[0], {"label": lab, "files": sorted(x for x in found)})
            dec = found[lab]
            for t, v in v1[lab].items():
                if t not in dec:
                    raise Violation("C05|decoder|attribute-not-in-file|%s" % C.CKA_NAMES.get(t, hex(t)), {"label": lab})
                k, dv = dec[t]
                if k == 1:
                    enc = b"\x01" if dv else b"\x00"
                elif k == 2:
                    enc = struct.pack("<Q", dv)
                elif k == 3 and t == C.CKA_ALLOWED_MECHANISMS and len(dv) % 8 == 0 and len(v) == len(dv):
                    same_set = sorted(struct.unpack("<%dQ" % (len(v) // 8), v)) == sorted(struct.unpack("<%dQ" % (len(dv) // 8), dv))
                    enc = v if same_set else dv
                elif k == 3:
                    enc = dv
                elif k == 5:
                    enc = b"".join(struct.pack("<Q", x) for x in dv)
                    if sorted(struct.unpack("<%dQ" % (len(v) // 8), v)) == list(dv):
                        enc = v
                elif k == 4:
                    enc = tuple(sorted((tt, vv) for tt, vv in dv.items()))
                    v = tuple(sorted((tt, (tuple(sorted(vv)) if (isinstance(vv, (list, tuple)) and tt == C.CKA_ALLOWED_MECHANISMS) else (tuple(vv) if isinstance(vv, (list, tuple)) else vv))) for tt, vv in v))
                if enc != v:
                    raise Violation("C05|decoder|value-differs-from-api|kind=%d|%s" % (k, C.CKA_NAMES.get(t, hex(t))), {"label": lab, "api": v, "file": dv})
                ctx.count("decoder_values_compared")
        for lab in found:
            if lab not in want and lab in m.dead:
                raise Violation("C05|decoder|file-of-destroyed-object-left", {"label": lab})

    def key(self, ctx, m):
        return (tuple(sorted((o.kind, o.token, o.muts) for o in m.objs.values())), len(m.dead) > 0)

    def died_sig(self, action, d):
        return "C05|%s|%r" % (action[0] if action else None, d.info)


# ------------------------------------------------------------------------------------------------
# golden fixtures
def golden_check(rep, variant, store, counters):
    gdir = os.path.join(P.VERIF, "fixtures", "golden", store)
    man = json.load(open(os.path.join(gdir, "manifest.json")))
    root = P.scratch_root()
    viol = []
    try:
        sd = os.path.join(root, "d0")
        P.write_conf(sd, backend=store)
        shutil.rmtree(os.path.join(sd, "tokens"))
        shutil.copytree(os.path.join(gdir, "tokens"), os.path.join(sd, "tokens"))
        sh = P.Shell(variant, sd)
        p = P.P11(sh)
        try:
            def V(sig, det=None):
                viol.append({"signature": "C05|golden-%s|%s" % (store, sig), "detail": det, "history": [], "action": None, "golden": store, "variant": variant, "replay_module": "c05_persist"})
            r = p.Initialize()
            if r["rv"] != 0:
                V("initialize-failed", r)
                return viol
            sm = W.slot_map(p)
            if "golden" not in sm:
                V("token-not-found", sm)
                return viol
            slot = sm["golden"]
            ti = p.GetTokenInfo(slot)
            if ti["serial"] != man["serial"]:
                V("serial-differs")
            s = W.ok(p.OpenSession(slot), "open")["h"]
            if p.Login(s, C.CKU_SO, man["so_pin"].encode())["rv"] != 0:
                V("so-pin-rejected")
            else:
                p.Logout(s)
            if p.Login(s, C.CKU_USER, b"wrong-golden-pin")["rv"] == 0:
                V("wrong-pin-accepted")
            if p.Login(s, C.CKU_USER, man["user_pin"].encode())["rv"] != 0:
                V("user-pin-rejected")
                return viol
            check = C05()
            view = check.api_view(p, s)
            for lab, rec in man["objects"].items():
                lab_b = lab.encode()
                if lab_b not in view:
                    V("object-missing|%s" % lab)
                    continue
                got = view[lab_b]
                for th, val in rec.items():
                    t = int(th, 16)
                    if isinstance(val, list):
                        want = tuple(sorted((tt, (bytes.fromhex(vv) if isinstance(vv, str) else (tuple(vv) if isinstance(vv, list) else vv))) for tt, vv in val))
                        have = got.get(t)
                        have = tuple(sorted((tt, (tuple(vv) if isinstance(vv, list) else vv)) for tt, vv in have)) if have else None
                    else:
                        want, have = bytes.fromhex(val), got.get(t)
                    if want != have:
                        V("value-differs|%s|%s" % (lab, C.CKA_NAMES.get(t, hex(t))), {"recorded": want, "returned": have})
                    counters["golden_values_compared"] = counters.get("golden_values_compared", 0) + 1
            extra = set(view) - {l.encode() for l in man["objects"]}
            if extra:
                V("unexpected-objects", sorted(extra))
            # still modifiable, durably
            hs = p.FindAll(s, [(C.CKA_LABEL, b"g-generic")]).get("hs", [])
            if len(hs) == 1:
                r = p.SetAttributeValue(s, hs[0], [(C.CKA_ID, b"changed-by-current-tree")])
                if r["rv"] != 0:
                    V("object-not-modifiable", r)
                p.Logout(s); p.CloseSession(s); p.Finalize(); p.Initialize()
                slot = W.slot_map(p).get("golden")
                s = W.ok(p.OpenSession(slot), "open")["h"]
                W.ok(p.Login(s, C.CKU_USER, man["user_pin"].encode()), "login")
                hs = p.FindAll(s, [(C.CKA_LABEL, b"g-generic")]).get("hs", [])
                rv, v = p.get_attr(s, hs[0], C.CKA_ID) if len(hs) == 1 else (-1, None)
                if v != b"changed-by-current-tree":
                    V("modification-not-durable", {"rv": rv, "value": v})
                view2 = check.api_view(p, s)
                for lab in man["objects"]:
                    if lab.encode() not in view2:
                        V("object-lost-after-modifying-another|%s" % lab)
                    elif lab != "g-generic" and view2[lab.encode()] != view.get(lab.encode()):
                        V("object-changed-after-modifying-another|%s" % lab)
            counters["golden_tokens_opened"] = counters.get("golden_tokens_opened", 0) + 1
        except Died as d:
            viol.append({"signature": "C05|golden-%s|died=%r" % (store, d.info), "detail": {"during": d.during}, "history": [], "action": None, "golden": store, "variant": variant, "replay_module": "c05_persist"})
        finally:
            sh.close()
    finally:
        shutil.rmtree(root, ignore_errors=True)
    return viol


def main(tier):
    rep = Report("C05", tier, "model_checking")
    quick = tier == "quick"
    variant = "ossl-asan" if quick else "ossl-plain"
    deadline = time.time() + (600 if quick else 1700)
    kw = dict() if quick else dict(ladder=tuple(LADDER_FULL), max_objs=3)
    depth = 3 if quick else 4
    counters = {}
    for store in ("file", "db"):
        v1 = golden_check(rep, variant, store, counters)
        if v1:
            v2 = {x["signature"] for x in golden_check(rep, variant, store, {})}
            for x in v1:
                if x["signature"] in v2:
                    rep.add_violation(x)
                else:
                    rep.harness_errors.append("golden violation %s did not reproduce" % x["signature"])
    ex = Explorer(C05(**kw), variant=variant, deadline=deadline)
    try:
        fix = ex.bfs(depth)
        done = fix or ex.stats["depth_completed"] >= depth
        confirm_violations(ex, rep)
        st = ex.stats
        c = dict(st["counters"])
        c.update(counters)
        if not c.get("objects_compared_after_restart") or not c.get("decoder_values_compared") or not c.get("golden_values_compared"):
            rep.harness_errors.append("vacuous: %r" % c)
        rep.coverage = {"states": st["states"], "transitions": st["transitions"], "traces_validated_against_impl": st["states"],
                        "samples": ex.samples[:4], "exhaustive": bool(done), "levels": st["levels"], "depth_bound": depth, "outcome_counters": c, "variant": variant,
                        "rule": "histories up to the depth bound merged on (kind, location, mutation list) of the live objects; in every state the running instance, a "
                                "re-initialised instance and the independent decoder are compared attribute by attribute; plus the golden token directories "
                                "(file and SQLite) written by the pinned commit"}
        rep.assumptions = ["file store for the histories at the full depth, SQLite store with a reduced kind list in the quick tier (plus the golden fixtures of both stores)", "byte-string ladder %r" % (list(kw.get("ladder", LADDER_QUICK)),),
                           "fs-fault clause: one injected failure per call (every file-system syscall of the call x its realistic errnos), file store"]
    finally:
        ex.close()
    # the same histories on the SQLite store (reduced kind list in the quick tier; successors are reached in restoring snapshots);
    # the third observer reads the database with Python's sqlite3 module
    ddepth = 3
    exd = Explorer(C05(**(dict(kinds=("aes-rich", "aes-tpl-bytes", "aes-tpl-mechs", "aes-noset", "aes-locked", "nomod-data", "rsapub-info", "rsa1024_priv", "cert", "session-prv"), ladder=(0, 1, 4097)) if quick else kw)),
                   variant=variant, store="db", deadline=deadline)
    try:
        fixd = exd.bfs(ddepth)
        confirm_violations(exd, rep)
        sd = exd.stats
        cd = dict(sd["counters"])
        if not cd.get("objects_compared_after_restart") or not cd.get("decoder_values_compared"):
            rep.harness_errors.append("vacuous (SQLite lane): %r" % cd)
        rep.coverage["sqlite_store"] = {"states": sd["states"], "transitions": sd["transitions"], "levels": sd["levels"], "depth_bound": ddepth,
                                        "exhaustive": bool(fixd or sd["depth_completed"] >= ddepth), "outcome_counters": cd}
        rep.coverage["exhaustive"] = bool(rep.coverage["exhaustive"] and rep.coverage["sqlite_store"]["exhaustive"])
    finally:
        exd.close()
    # the fault clause: a call that could not persist its effect must not return CKR_OK (checks/fsfault.py)
    import fsfault
    rep.coverage["fs_fault_clause"] = fsfault.run("C05", tier, rep)
    return rep.finish()


def replay(rec):
    import sys
    sys.path.insert(0, P.VERIF + "/tools")
    import build_sut
    build_sut.build(rec["variant"]); build_sut.build_ref()
    sigs = [v["signature"] for v in golden_check(None, rec["variant"], rec["golden"], {})]
    print("recorded:", rec["signature"], "\nobserved:", sigs[:10])
    if rec["signature"] in sigs:
        print("VIOLATION property=C05 replay=%s" % sys.argv[1])
        return 1
    return 0
