"""C08 - attribute policy: read-only, one-way and history attributes (DESIGN.md 3/C08, Appendix F).

Part A (matrix): for every object kind and EVERY attribute type (all types of all classes + unknown ones), supplied through
C_SetAttributeValue and C_CopyObject with a value different from the current one, alone and behind a harmless entry; and
CKA_LOCAL / CKA_KEY_GEN_MECHANISM / CKA_ALWAYS_SENSITIVE / CKA_NEVER_EXTRACTABLE supplied to create, generate, unwrap, derive,
set and copy at the first / middle / last template position.  Oracle = the clause list of Appendix F, nothing else.
Part B (histories): BFS over make (create / generate / unwrap / derive with every SENSITIVE x EXTRACTABLE request), set of the
one-way and gate flags, copy with weakening templates, derive from derived keys, destroy, in user and SO sessions; after
every step the four history attributes of every live key are read back and compared with the truth model.
"""
import copy, os, time, traceback
from p11mc import consts as C
from p11mc.core import CheckBase, Explorer, Violation, confirm_violations, Died
from p11mc import core
from p11mc.runner import Report
from p11mc import world as W, fixtures as F, snapshot as S
from p11mc.p11 import Out, tpl, mech, ul, keyderiv_string, ecdh_params, decode_attr, BOOL_ATTRS, ULONG_ATTRS

# clause 1: attributes whose value may never change through Set or Copy (keys only for VALUE / VALUE_LEN)
RO_ALWAYS = [C.CKA_CLASS, C.CKA_KEY_TYPE, C.CKA_CERTIFICATE_TYPE, C.CKA_LOCAL, C.CKA_KEY_GEN_MECHANISM, C.CKA_ALWAYS_SENSITIVE, C.CKA_NEVER_EXTRACTABLE,
             C.CKA_MODULUS, C.CKA_MODULUS_BITS, C.CKA_PUBLIC_EXPONENT, C.CKA_PRIVATE_EXPONENT, C.CKA_PRIME_1, C.CKA_PRIME_2, C.CKA_EXPONENT_1, C.CKA_EXPONENT_2,
             C.CKA_COEFFICIENT, C.CKA_PRIME, C.CKA_SUBPRIME, C.CKA_BASE, C.CKA_EC_PARAMS, C.CKA_EC_POINT, C.CKA_PRIME_BITS, C.CKA_VALUE_BITS]
RO_KEYS_ONLY = [C.CKA_VALUE, C.CKA_VALUE_LEN]
RO_SET_ONLY = [C.CKA_TOKEN, C.CKA_PRIVATE, C.CKA_MODIFIABLE]
HISTORY = [C.CKA_LOCAL, C.CKA_KEY_GEN_MECHANISM, C.CKA_ALWAYS_SENSITIVE, C.CKA_NEVER_EXTRACTABLE]
KINDS_A = ["data", "cert", "aes128", "generic32", "rsa1024_pub", "rsa1024_priv", "ec256_pub", "ec256_priv", "dsa_priv", "dh_priv", "ed25519_priv", "dsa_params"]
ALL_TYPES = sorted(set(S.ALL_ATTRS + [C.CKA_URL, C.CKA_HASH_OF_SUBJECT_PUBLIC_KEY, C.CKA_HASH_OF_ISSUER_PUBLIC_KEY, C.CKA_JAVA_MIDP_SECURITY_DOMAIN,
                                      C.CKA_NAME_HASH_ALGORITHM, C.CKA_AC_ISSUER, C.CKA_OWNER, C.CKA_ATTR_TYPES, C.CKA_SUB_PRIME_BITS, C.CKA_SECONDARY_AUTH,
                                      C.CKA_AUTH_PIN_FLAGS, C.CKA_HW_FEATURE_TYPE, C.CKA_MECHANISM_TYPE, 0x80001234, 0x7fffffff])
                   - {C.CKA_WRAP_TEMPLATE, C.CKA_UNWRAP_TEMPLATE})


def different(t, cur):
    """a well-sized value different from the current one"""
    if t in BOOL_ATTRS:
        return not (cur if isinstance(cur, bool) else False)
    if t in ULONG_ATTRS:
        return ((cur if isinstance(cur, int) else 0) + 1) & 0xFFFFFFFF
    if t == C.CKA_ALLOWED_MECHANISMS:
        return ul(C.CKM_AES_CBC) if cur != (C.CKM_AES_CBC,) else ul(C.CKM_AES_ECB)
    if isinstance(cur, (bytes, bytearray)) and len(cur) > 0:
        b = bytearray(cur)
        b[-1] ^= 0x01
        return bytes(b)
    if t in (C.CKA_START_DATE, C.CKA_END_DATE):
        return b"20330303"
    return b"different-value"


class C08A(CheckBase):
    ID = "C08"

    def __init__(self):
        self.kw = {}

    def world(self, ctx):
        return W.two_tokens(ctx)

    def setup(self, ctx, world):
        W.ok(ctx.p.Initialize(), "init")
        return None


def _read(p, s, h, types):
    r = p.get_attrs(s, h, types)
    return {t: v for t, v in r.items() if not (isinstance(v, tuple) and v and v[0] in ("unavailable", "rv"))}


def _task_a(task):
    kind, token = task
    ctx, check = core._W["ctx"], core._W["check"]
    ctx.counters = {}
    out = {"viol": {}, "harness": None, "counters": None, "samples": []}
    sh, p = ctx.sh, ctx.p

    def V(sig, det):
        out["viol"].setdefault(sig, {"signature": sig, "detail": det, "task": list(task), "history": [], "action": None})
    try:
        sh.snap()
        try:
            s = W.ok(p.OpenSession(ctx.world["slots"]["A"]), "open")["h"]
            W.ok(p.Login(s, C.CKU_USER, W.USER_A), "login")
            iskey = F.is_key(kind)
            h = W.ok(p.CreateObject(s, F.template(kind, token=token, private=True, label=b"subject", ident=b"subj-id")), "create %s" % kind)["h"]
            before = _read(p, s, h, ALL_TYPES)
            ro = set(RO_ALWAYS) | (set(RO_KEYS_ONLY) if iskey else set())
            for t in ALL_TYPES:
                cur = before.get(t)
                # besides the canonical value also CK_BBOOL values other than 0/1 where the new value is "true" (a guard that compares with CK_TRUE must not let them pass)
                for newv in [different(t, cur)] + ([b"\x02", b"\xff"] if (t in BOOL_ATTRS and different(t, cur) is True) else []):
                    an = C.CKA_NAMES.get(t, hex(t))
                    for shape in ("alone", "after-label", "after-the-same-attribute-with-its-current-value"):
                        if shape.startswith("after-the-same"):
                            # the allowed (current) value first, the forbidden one last: whoever applies entries in order ends up with the last
                            if not isinstance(cur, (bool, int, bytes)) or t in (C.CKA_ALLOWED_MECHANISMS,):
                                continue
                            T = [(t, cur), (t, newv)]
                        else:
                            T = ([(C.CKA_LABEL, b"subject")] if shape == "after-label" else []) + [(t, newv)]
                        # --- C_SetAttributeValue
                        d0 = sh.depth
                        sh.snap()
                        try:
                            r = p.SetAttributeValue(s, h, T)
                            ctx.count("set_cases")
                            after = _read(p, s, h, [t])
                            if t in ro or t in RO_SET_ONLY:
                                ctx.count("readonly_set_cases")
                                if r["rv"] == 0 and t in before:
                                    V("C08|set|read-only-attribute-accepted|%s|%s" % (an, kind), {"template": shape})
                                if after.get(t) != before.get(t):
                                    V("C08|set|read-only-attribute-changed|%s|%s" % (an, kind), {"before": before.get(t), "after": after.get(t), "rv": r["rv"]})
                            if t in HISTORY and r["rv"] == 0:
                                V("C08|set|history-attribute-accepted|%s|%s" % (an, kind), {"template": shape})
                            ctx.count("set_ok" if r["rv"] == 0 else "set_refused")
                        finally:
                            sh.unwind(d0)
                        # --- C_CopyObject
                        sh.snap()
                        try:
                            r = p.CopyObject(s, h, T)
                            ctx.count("copy_cases")
                            if r["rv"] == 0 and r.get("h"):
                                cv = _read(p, s, r["h"], [t])
                                if t in ro and t in before:
                                    if cv.get(t) != before.get(t):
                                        V("C08|copy|read-only-attribute-changed-in-copy|%s|%s" % (an, kind), {"source": before.get(t), "copy": cv.get(t)})
                                    else:
                                        V("C08|copy|read-only-attribute-accepted|%s|%s" % (an, kind), {"template": shape})
                                if t in HISTORY:
                                    V("C08|copy|history-attribute-accepted|%s|%s" % (an, kind), {"template": shape})
                                if t == C.CKA_PRIVATE and before.get(t) is True and cv.get(t) is False:
                                    V("C08|copy|private-object-copied-to-public|%s" % kind, {})
                                ctx.count("copy_ok")
                            else:
                                ctx.count("copy_refused")
                            # the source must be untouched by a copy in any case
                            if _read(p, s, h, [t]).get(t) != before.get(t):
                                V("C08|copy|source-attribute-changed|%s|%s" % (an, kind), {})
                        finally:
                            sh.unwind(d0)
            # clause 4: CKA_TRUSTED = true by the normal user, any operation kind
            for opn, line in [(o_, l_ % tpl(t_(tv_))) for tv_ in (True, b"\x02", b"\xff") for o_, l_, t_ in (
                                  ("set", "C_SetAttributeValue s=%d o=%d tpl=%%s" % (s, h), lambda v: [(C.CKA_TRUSTED, v)]),
                                  ("copy", "C_CopyObject s=%d o=%d tpl=%%s" % (s, h), lambda v: [(C.CKA_TRUSTED, v)]),
                                  ("create", "C_CreateObject s=%d tpl=%%s" % s, lambda v: F.template(kind, token=token, private=True, label=b"t2", extra=[(C.CKA_TRUSTED, v)])))]:
                d0 = sh.depth
                sh.snap()
                try:
                    r = p.call(line)
                    hh = r.get("h") or h
                    tv = _read(p, s, hh, [C.CKA_TRUSTED]).get(C.CKA_TRUSTED)
                    ctx.count("trusted_cases")
                    if r["rv"] == 0 and tv is True:
                        V("C08|%s|CKA_TRUSTED-set-true-by-normal-user|%s" % (opn, kind), {})
                finally:
                    sh.unwind(d0)
            # clause 3: object gates
            for gate, attr in (("not-modifiable", C.CKA_MODIFIABLE), ("not-copyable", C.CKA_COPYABLE), ("not-destroyable", C.CKA_DESTROYABLE)):
                d0 = sh.depth
                sh.snap()
                try:
                    g = p.CreateObject(s, F.template(kind, token=token, private=True, label=b"gated", extra=[(attr, False)]))
                    if g["rv"] != 0:
                        ctx.count("gate_object_refused")
                        continue
                    gh = g["h"]
                    if gate == "not-modifiable":
                        for T in ([(C.CKA_LABEL, b"x")], [(C.CKA_MODIFIABLE, True)], [(C.CKA_ID, b"y")] if iskey or kind == "cert" else [(C.CKA_LABEL, b"z")]):
                            r = p.SetAttributeValue(s, gh, T)
                            ctx.count("gate_cases")
                            if r["rv"] == 0:
                                V("C08|set|accepted-on-object-with-CKA_MODIFIABLE-false|%s|%s" % (C.CKA_NAMES.get(T[0][0]), kind), {})
                    elif gate == "not-copyable":
                        for T in ([], [(C.CKA_LABEL, b"x")], [(C.CKA_COPYABLE, True)]):
                            r = p.CopyObject(s, gh, T)
                            ctx.count("gate_cases")
                            if r["rv"] == 0:
                                V("C08|copy|accepted-on-object-with-CKA_COPYABLE-false|%s" % kind, {"template": [C.CKA_NAMES.get(x[0]) for x in T]})
                        r = p.SetAttributeValue(s, gh, [(C.CKA_COPYABLE, True)])
                        if r["rv"] == 0 and _read(p, s, gh, [C.CKA_COPYABLE]).get(C.CKA_COPYABLE) is True:
                            V("C08|set|CKA_COPYABLE-false-to-true|%s" % kind, {})
                    else:
                        r = p.DestroyObject(s, gh)
                        ctx.count("gate_cases")
                        if r["rv"] == 0:
                            V("C08|destroy|accepted-on-object-with-CKA_DESTROYABLE-false|%s" % kind, {})
                finally:
                    sh.unwind(d0)
            out["samples"].append({"kind": kind, "token": token, "attribute_types": len(ALL_TYPES)})
        finally:
            sh.unwind(0)
    except Died as d:
        sig = "C08|died|%r|%s" % (d.info, kind)
        out["viol"][sig] = {"signature": sig, "detail": {"during": d.during}, "task": list(task), "history": [], "action": None}
        if d.info.get("eof"):
            core._fresh_shell()
    except Exception:
        out["harness"] = "task %r: %s" % (task, traceback.format_exc())
        try:
            core._fresh_shell()
        except Exception:
            pass
    out["counters"] = ctx.counters
    out["viol"] = list(out["viol"].values())
    return out


def _task_a_fresh(task):
    core._fresh_shell()
    return _task_a(task)


# ------------------------------------------------------------------------------------------------
# Part B: histories with the truth model
FLAGSETS = {"TT": (True, True), "TF": (True, False), "FT": (False, True), "FF": (False, False), "--": (None, None)}
UNAV = 0xFFFFFFFFFFFFFFFF


class Key:
    def __init__(self, h, kind, origin):
        self.h, self.kind, self.origin = h, kind, origin
        self.local = False
        self.keygen = UNAV
        self.always_sens = False
        self.never_extr = False
        self.gen = 0       # derivation generation (copy of copy, derive of derived)


class ModelB:
    def __init__(self):
        self.keys = []
        self.s = 0
        self.so = False


class C08B(CheckBase):
    ID = "C08"

    def __init__(self, max_keys=2):
        self.kw = dict(max_keys=max_keys)
        self.max_keys = max_keys

    def world(self, ctx):
        return W.two_tokens(ctx)

    def setup(self, ctx, world):
        p = ctx.p
        W.ok(p.Initialize(), "init")
        m = ModelB()
        m.s = W.ok(p.OpenSession(world["slots"]["A"]), "open")["h"]
        W.ok(p.Login(m.s, C.CKU_USER, W.USER_A), "login")
        return m

    def actions(self, m):
        acts = []
        if not m.keys:
            for fs in FLAGSETS:
                for origin, kinds in (("create", ("aes128", "rsa1024_priv", "ec256_priv")), ("generate", ("aes128", "generic32", "ec256_priv", "rsa1024_priv")),
                                      ("unwrap", ("aes128", "ec256_priv"))):
                    for kind in kinds:
                        if origin == "generate" and kind == "rsa1024_priv" and fs not in ("TF", "--"):
                            continue
                        acts.append(("make", origin, kind, fs))
            return acts
        for i, k in enumerate(m.keys):
            for nm in ("sens", "extr"):
                for val in (True, False):
                    acts.append(("set", i, nm, val))
            if len(m.keys) < self.max_keys:
                for sub in ("none", "S1", "E0", "S1E0", "S0", "E1"):
                    acts.append(("copy", i, sub))
                for fs in FLAGSETS:
                    if F.klass(k.kind) == C.CKO_SECRET_KEY:
                        acts.append(("derive", i, "concat-data", fs))
                        if k.kind == "aes128":
                            acts.append(("derive", i, "aes-ecb-encrypt-data", fs))
                    elif k.kind == "ec256_priv":
                        acts.append(("derive", i, "ecdh", fs))
        if len(m.keys) == 2 and all(F.klass(k.kind) == C.CKO_SECRET_KEY for k in m.keys):
            for fs in ("--", "FT", "TF"):
                acts.append(("derive-concat-keys", 0, 1, fs))
        return acts

    def flags_tpl(self, fs):
        s_, e_ = FLAGSETS[fs]
        return ([(C.CKA_SENSITIVE, s_)] if s_ is not None else []) + ([(C.CKA_EXTRACTABLE, e_)] if e_ is not None else [])

    def flags_of(self, ctx, m, h):
        r = ctx.p.get_attrs(m.s, h, [C.CKA_SENSITIVE, C.CKA_EXTRACTABLE])
        return r.get(C.CKA_SENSITIVE) is True, r.get(C.CKA_EXTRACTABLE) is True

    def step(self, ctx, m, a):
        p = ctx.p
        k0 = a[0]
        if k0 == "make":
            _, origin, kind, fs = a
            ft = self.flags_tpl(fs)
            usage = [(C.CKA_DERIVE, True)] if not kind.startswith("rsa") else []
            keygen = UNAV
            if origin == "create":
                r = p.CreateObject(m.s, F.template(kind, token=False, private=True, label=b"k", plain=False, extra=ft + usage))
            elif origin == "generate":
                if kind in ("ec256_priv", "rsa1024_priv"):
                    gm = C.CKM_EC_KEY_PAIR_GEN if kind == "ec256_priv" else C.CKM_RSA_PKCS_KEY_PAIR_GEN
                    pub = [(C.CKA_EC_PARAMS, F.H(F.KEYS["ec256"]["params"]))] if kind == "ec256_priv" else [(C.CKA_MODULUS_BITS, 1024), (C.CKA_PUBLIC_EXPONENT, b"\x01\x00\x01")]
                    r = p.GenerateKeyPair(m.s, mech(gm), pub, [(C.CKA_TOKEN, False), (C.CKA_LABEL, b"k")] + ft + usage)
                    r["h"] = r.get("hpriv", 0)
                else:
                    gm, n = (C.CKM_AES_KEY_GEN, 16) if kind == "aes128" else (C.CKM_GENERIC_SECRET_KEY_GEN, 32)
                    r = p.GenerateKey(m.s, mech(gm), [(C.CKA_VALUE_LEN, n), (C.CKA_TOKEN, False), (C.CKA_LABEL, b"k")] + ft + usage)
                keygen = gm
            else:
                kek = W.ok(p.CreateObject(m.s, F.template("aes256", token=False, private=False, label=b"kek", extra=[(C.CKA_WRAP, True), (C.CKA_UNWRAP, True)])), "kek")["h"]
                src = W.ok(p.CreateObject(m.s, F.template(kind, token=False, private=True, label=b"src")), "src")["h"]
                rr = W.ok(p.WrapKey(m.s, mech(C.CKM_AES_KEY_WRAP_PAD), kek, src, Out(2000)), "wrap")
                p.DestroyObject(m.s, src)
                cls, kt = dict(F.base(kind))[C.CKA_CLASS], dict(F.base(kind))[C.CKA_KEY_TYPE]
                r = p.UnwrapKey(m.s, mech(C.CKM_AES_KEY_WRAP_PAD), kek, bytes.fromhex(rr["out"])[:rr["len"]],
                                [(C.CKA_CLASS, cls), (C.CKA_KEY_TYPE, kt), (C.CKA_TOKEN, False), (C.CKA_LABEL, b"k")] + ft + usage)
                p.DestroyObject(m.s, kek)
            if r["rv"] == 0 and r.get("h"):
                k = Key(r["h"], kind, origin)
                s_, e_ = self.flags_of(ctx, m, k.h)
                if origin == "generate":
                    k.local, k.keygen, k.always_sens, k.never_extr = True, keygen, s_, not e_
                m.keys.append(k)
                ctx.count("make_ok")
            else:
                ctx.count("make_refused")
        elif k0 == "set":
            _, i, nm, val = a
            k = m.keys[i]
            s0, e0 = self.flags_of(ctx, m, k.h)
            r = p.SetAttributeValue(m.s, k.h, [(C.CKA_SENSITIVE if nm == "sens" else C.CKA_EXTRACTABLE, val)])
            if r["rv"] == 0:
                s1, e1 = self.flags_of(ctx, m, k.h)
                if s0 and not s1:
                    raise Violation("C08|set|CKA_SENSITIVE-true-to-false", {"kind": k.kind, "origin": k.origin})
                if not e0 and e1:
                    raise Violation("C08|set|CKA_EXTRACTABLE-false-to-true", {"kind": k.kind, "origin": k.origin})
                ctx.count("set_ok")
            # truth: the history attributes never change through a set
        elif k0 == "copy":
            _, i, sub = a
            k = m.keys[i]
            T = {"none": [], "S1": [(C.CKA_SENSITIVE, True)], "E0": [(C.CKA_EXTRACTABLE, False)], "S1E0": [(C.CKA_SENSITIVE, True), (C.CKA_EXTRACTABLE, False)],
                 "S0": [(C.CKA_SENSITIVE, False)], "E1": [(C.CKA_EXTRACTABLE, True)]}[sub]
            s0, e0 = self.flags_of(ctx, m, k.h)
            r = p.CopyObject(m.s, k.h, [(C.CKA_LABEL, b"copy")] + T)
            if r["rv"] == 0 and r.get("h"):
                c = Key(r["h"], k.kind, "copy-of-" + k.origin.split("-of-")[-1])
                s1, e1 = self.flags_of(ctx, m, c.h)
                if s0 and not s1:
                    raise Violation("C08|copy|CKA_SENSITIVE-true-to-false", {"kind": k.kind})
                if not e0 and e1:
                    raise Violation("C08|copy|CKA_EXTRACTABLE-false-to-true", {"kind": k.kind})
                c.local, c.keygen, c.always_sens, c.never_extr, c.gen = k.local, k.keygen, k.always_sens, k.never_extr, k.gen + 1
                m.keys.append(c)
                ctx.count("copy_ok")
        elif k0 in ("derive", "derive-concat-keys"):
            if k0 == "derive":
                _, i, how, fs = a
                k = m.keys[i]
                parents = [k]
                if how == "concat-data":
                    dm, T0 = mech(C.CKM_CONCATENATE_BASE_AND_DATA, keyderiv_string(b"DATADATA")), []
                elif how == "aes-ecb-encrypt-data":
                    dm, T0 = mech(C.CKM_AES_ECB_ENCRYPT_DATA, keyderiv_string(bytes(range(32)))), [(C.CKA_CLASS, C.CKO_SECRET_KEY), (C.CKA_KEY_TYPE, C.CKK_GENERIC_SECRET), (C.CKA_VALUE_LEN, 32)]
                else:
                    dm, T0 = mech(C.CKM_ECDH1_DERIVE, ecdh_params(F.H(F.KEYS["ec256peer"]["rawpoint"]))), [(C.CKA_CLASS, C.CKO_SECRET_KEY), (C.CKA_KEY_TYPE, C.CKK_GENERIC_SECRET), (C.CKA_VALUE_LEN, 32)]
            else:
                _, i, j, fs = a
                k, o = m.keys[i], m.keys[j]
                parents = [k, o]
                how = "concat-keys"
                dm, T0 = mech(C.CKM_CONCATENATE_BASE_AND_KEY, ul(o.h)), []
            r = p.DeriveKey(m.s, dm, k.h, T0 + [(C.CKA_TOKEN, False), (C.CKA_LABEL, b"derived"), (C.CKA_DERIVE, True)] + self.flags_tpl(fs))
            if r["rv"] == 0 and r.get("h"):
                d = Key(r["h"], "generic32", "derive-" + how)
                s1, e1 = self.flags_of(ctx, m, d.h)
                d.local, d.keygen = False, UNAV
                d.always_sens = all(x.always_sens for x in parents) and s1
                d.never_extr = all(x.never_extr for x in parents) and not e1
                d.gen = max(x.gen for x in parents) + 1
                m.keys.append(d)
                ctx.count("derive_ok")
            else:
                ctx.count("derive_refused")
        # ---- truth model read-back for every live key
        for k in m.keys:
            r = p.get_attrs(m.s, k.h, HISTORY)
            got = (r.get(C.CKA_LOCAL), r.get(C.CKA_KEY_GEN_MECHANISM), r.get(C.CKA_ALWAYS_SENSITIVE), r.get(C.CKA_NEVER_EXTRACTABLE))
            want = (k.local, k.keygen, k.always_sens, k.never_extr)
            ctx.count("truth_readbacks")
            names = ("CKA_LOCAL", "CKA_KEY_GEN_MECHANISM", "CKA_ALWAYS_SENSITIVE", "CKA_NEVER_EXTRACTABLE")
            for nm, g, w in zip(names, got, want):
                if g != w:
                    raise Violation("C08|truth|%s|%s|reads-%s-expected-%s|after-%s" % (nm, k.origin, g, w, a[0]), {"key": k.kind, "action": a, "got": got, "want": want})
        return m

    def key(self, ctx, m):
        out = []
        for k in m.keys:
            s_, e_ = self.flags_of(ctx, m, k.h)
            out.append((k.kind, k.origin, s_, e_, k.local, k.always_sens, k.never_extr, min(k.gen, 2)))
        return tuple(out)

    def died_sig(self, action, d):
        return "C08|%s|%r" % (action[0] if action else None, d.info)


def _task_hist(task):
    """clause 5 for the creating operations: history attributes supplied at first / middle / last position must be refused"""
    ctx = core._W["ctx"]
    ctx.counters = {}
    out = {"viol": {}, "harness": None, "counters": None, "samples": []}
    sh, p = ctx.sh, ctx.p

    def V(sig, det):
        out["viol"].setdefault(sig, {"signature": sig, "detail": det, "task": list(task), "history": [], "action": None})
    try:
        sh.snap()
        try:
            s = W.ok(p.OpenSession(ctx.world["slots"]["A"]), "open")["h"]
            W.ok(p.Login(s, C.CKU_USER, W.USER_A), "login")
            kek = W.ok(p.CreateObject(s, F.template("aes256", token=False, private=False, label=b"kek", extra=[(C.CKA_WRAP, True), (C.CKA_UNWRAP, True), (C.CKA_DERIVE, True)])), "kek")["h"]
            src = W.ok(p.CreateObject(s, F.template("aes128", token=False, private=False, label=b"src", extra=[(C.CKA_DERIVE, True)])), "src")["h"]
            rr = W.ok(p.WrapKey(s, mech(C.CKM_AES_KEY_WRAP), kek, src, Out(64)), "wrap")
            wrapped = bytes.fromhex(rr["out"])[:rr["len"]]
            bases = {
                "create": ("C_CreateObject s=%d tpl=%%s" % s, F.template("aes128", token=False, private=False, label=b"n")),
                "generate": ("C_GenerateKey s=%d mech=%s tpl=%%s" % (s, mech(C.CKM_AES_KEY_GEN)), [(C.CKA_VALUE_LEN, 16), (C.CKA_TOKEN, False), (C.CKA_LABEL, b"n")]),
                "generate-pair-priv": ("C_GenerateKeyPair s=%d mech=%s pub=%s priv=%%s" % (s, mech(C.CKM_EC_KEY_PAIR_GEN), tpl([(C.CKA_EC_PARAMS, F.H(F.KEYS["ec256"]["params"]))])),
                                       [(C.CKA_TOKEN, False), (C.CKA_LABEL, b"n"), (C.CKA_SIGN, True)]),
                "generate-pair-pub": ("C_GenerateKeyPair s=%d mech=%s pub=%%s priv=%s" % (s, mech(C.CKM_EC_KEY_PAIR_GEN), tpl([(C.CKA_TOKEN, False)])),
                                      [(C.CKA_EC_PARAMS, F.H(F.KEYS["ec256"]["params"])), (C.CKA_LABEL, b"n"), (C.CKA_VERIFY, True)]),
                "unwrap": ("C_UnwrapKey s=%d mech=%s k=%d in=x%s tpl=%%s" % (s, mech(C.CKM_AES_KEY_WRAP), kek, wrapped.hex()),
                           [(C.CKA_CLASS, C.CKO_SECRET_KEY), (C.CKA_KEY_TYPE, C.CKK_AES), (C.CKA_TOKEN, False), (C.CKA_LABEL, b"n")]),
                "derive": ("C_DeriveKey s=%d mech=%s k=%d tpl=%%s" % (s, mech(C.CKM_AES_ECB_ENCRYPT_DATA, keyderiv_string(bytes(32))), src),
                           [(C.CKA_CLASS, C.CKO_SECRET_KEY), (C.CKA_KEY_TYPE, C.CKK_GENERIC_SECRET), (C.CKA_VALUE_LEN, 16), (C.CKA_TOKEN, False), (C.CKA_LABEL, b"n")]),
                "derive-concat": ("C_DeriveKey s=%d mech=%s k=%d tpl=%%s" % (s, mech(C.CKM_CONCATENATE_BASE_AND_DATA, keyderiv_string(b"12345678")), src), [(C.CKA_TOKEN, False), (C.CKA_LABEL, b"n")]),
            }
            for opn, (fmt, T) in bases.items():
                # the unbroken call must work, otherwise the refusals below prove nothing
                d0 = sh.depth
                sh.snap()
                try:
                    r = p.call(fmt % tpl(T))
                    base_ok = r["rv"] == 0
                finally:
                    sh.unwind(d0)
                ctx.count("base_calls_ok" if base_ok else "base_calls_failed")
                for ha in HISTORY:
                    for val in ((True, False) if ha != C.CKA_KEY_GEN_MECHANISM else (C.CKM_AES_KEY_GEN, UNAV)):
                        for posn, pos in (("first", 0), ("middle", len(T) // 2), ("last", len(T))):
                            T2 = T[:pos] + [(ha, val)] + T[pos:]
                            d0 = sh.depth
                            sh.snap()
                            try:
                                r = p.call(fmt % tpl(T2))
                                ctx.count("history_supply_cases")
                                if r["rv"] == 0:
                                    V("C08|%s|history-attribute-accepted|%s" % (opn, C.CKA_NAMES[ha]), {"value": val, "position": posn})
                            finally:
                                sh.unwind(d0)
            # CKA_TRUSTED = true supplied by the normal user to EVERY creating operation (first / last position, canonical and non-canonical true)
            for opn, (fmt, T) in bases.items():
                for tv_ in (True, b"\x02"):
                    for posn, pos in (("first", 0), ("last", len(T))):
                        d0 = sh.depth
                        sh.snap(copy=False)
                        try:
                            r = p.call(fmt % tpl(T[:pos] + [(C.CKA_TRUSTED, tv_)] + T[pos:]))
                            ctx.count("trusted_creator_cases")
                            hh = r.get("hpriv") if opn == "generate-pair-priv" else (r.get("hpub") if opn == "generate-pair-pub" else r.get("h"))
                            if r["rv"] == 0 and hh and _read(p, s, hh, [C.CKA_TRUSTED]).get(C.CKA_TRUSTED) is True:
                                V("C08|%s|CKA_TRUSTED-set-true-by-normal-user|template-entry-%s" % (opn, posn), {"value": repr(tv_)})
                        finally:
                            sh.unwind(d0)
            # template-length ladder: the history and protection attributes of the new key must not depend on how many (harmless) entries the caller's
            # template has - the creating functions copy the template into internal arrays of fixed capacity and append their own entries
            f1 = [(C.CKA_ID, b"id"), (C.CKA_ENCRYPT, True), (C.CKA_DECRYPT, True), (C.CKA_SIGN, True), (C.CKA_VERIFY, True), (C.CKA_WRAP, False), (C.CKA_UNWRAP, False),
                  (C.CKA_DERIVE, True), (C.CKA_COPYABLE, True), (C.CKA_DESTROYABLE, True), (C.CKA_MODIFIABLE, True), (C.CKA_START_DATE, b"20200101"), (C.CKA_END_DATE, b"20400101")]
            fpriv = [(C.CKA_ID, b"id"), (C.CKA_DECRYPT, False), (C.CKA_SIGN, True), (C.CKA_UNWRAP, False), (C.CKA_DERIVE, True), (C.CKA_COPYABLE, True), (C.CKA_DESTROYABLE, True),
                     (C.CKA_MODIFIABLE, True), (C.CKA_START_DATE, b"20200101"), (C.CKA_END_DATE, b"20400101")]
            WATCH = [C.CKA_LOCAL, C.CKA_ALWAYS_SENSITIVE, C.CKA_NEVER_EXTRACTABLE, C.CKA_KEY_GEN_MECHANISM, C.CKA_SENSITIVE, C.CKA_EXTRACTABLE]
            for opn, (fmt, T) in bases.items():
                if opn == "generate-pair-pub":
                    continue
                fill = (fpriv if opn == "generate-pair-priv" else f1) * 4
                refv = None
                for n in range(0, len(fill) + 1):
                    d0 = sh.depth
                    sh.snap(copy=False)
                    try:
                        r = p.call(fmt % tpl(T + fill[:n]))
                        ctx.count("ladder_cases")
                        if r["rv"] != 0:
                            ctx.count("ladder_refused")
                            continue
                        h = r.get("hpriv") or r.get("h")
                        g = p.get_attrs(s, h, WATCH)
                        ctx.count("ladder_created")
                        if refv is None:
                            refv = g
                        elif g != refv:
                            diff = sorted(C.CKA_NAMES.get(t, hex(t)) for t in WATCH if g.get(t) != refv.get(t))
                            V("C08|%s|template-length|%s-depends-on-the-number-of-template-entries" % (opn, "+".join(diff)), {"entries": len(T) + n, "got": repr(g), "with_the_short_template": repr(refv)})
                    finally:
                        sh.unwind(d0)
        finally:
            sh.unwind(0)
    except Died as d:
        sig = "C08|died|%r" % (d.info,)
        out["viol"][sig] = {"signature": sig, "detail": {"during": d.during}, "task": list(task), "history": [], "action": None}
        if d.info.get("eof"):
            core._fresh_shell()
    except Exception:
        out["harness"] = traceback.format_exc()
        try:
            core._fresh_shell()
        except Exception:
            pass
    out["counters"] = ctx.counters
    out["viol"] = list(out["viol"].values())
    return out


def _task_hist_fresh(task):
    core._fresh_shell()
    return _task_hist(task)


def main(tier):
    rep = Report("C08", tier, "model_checking")
    quick = tier == "quick"
    variant = "ossl-asan" if quick else "ossl-plain"
    deadline = time.time() + (600 if quick else 1700)
    cnt, samples = {}, []
    # ---- part A
    ex = Explorer(C08A(), variant=variant)
    try:
        tasks = [(k, tok) for k in KINDS_A for tok in ((False,) if quick else (False, True))]
        found = {}
        for fn, fresh, tl in ((_task_a, _task_a_fresh, tasks), (_task_hist, _task_hist_fresh, [("history-supply",)])):
            for r in ex.pool.imap_unordered(fn, tl):
                if r["harness"]:
                    rep.harness_errors.append(r["harness"])
                for k, v in (r["counters"] or {}).items():
                    cnt[k] = cnt.get(k, 0) + v
                for v in r["viol"]:
                    v["fn"] = fn.__name__
                    found.setdefault(v["signature"], v)
                samples += r["samples"][:1]
            todo = sorted((s, v) for s, v in found.items() if v["fn"] == fn.__name__)
            res = ex.pool.map(fresh, [tuple(v["task"]) for s, v in todo], chunksize=1)
            for (sig, v), r in zip(todo, res):
                if any(x["signature"] == sig for x in r["viol"]):
                    v = dict(v)
                    v.update(variant=variant, store="file", replay_module="c08_attrpolicy")
                    rep.add_violation(v)
                else:
                    rep.harness_errors.append("violation %s did not reproduce" % sig)
    finally:
        ex.close()
    # ---- part B
    depth = 3 if quick else 5
    ex = Explorer(C08B(max_keys=2 if quick else 3), variant=variant, deadline=deadline)
    try:
        fix = ex.bfs(depth)
        done = fix or ex.stats["depth_completed"] >= depth
        confirm_violations(ex, rep)
        st = ex.stats
        for k, v in st["counters"].items():
            cnt[k] = cnt.get(k, 0) + v
        if not cnt.get("truth_readbacks") or not cnt.get("readonly_set_cases") or not cnt.get("history_supply_cases") or not cnt.get("derive_ok"):
            rep.harness_errors.append("vacuous: %r" % cnt)
        rep.coverage = {"states": st["states"], "transitions": st["transitions"] + cnt.get("set_cases", 0) + cnt.get("copy_cases", 0) + cnt.get("history_supply_cases", 0),
                        "traces_validated_against_impl": st["states"] + cnt.get("set_cases", 0) + cnt.get("copy_cases", 0),
                        "samples": samples[:3] + ex.samples[:3], "exhaustive": bool(done), "levels": st["levels"], "depth_bound": depth, "outcome_counters": cnt, "variant": variant,
                        "rule": "part A: every attribute type (%d) x {alone, behind a harmless entry} x {set, copy} for %d object kinds, each case in its own snapshot; history "
                                "attributes supplied to every creating operation at three positions; gates and TRUSTED cases. part B: BFS over make/set/copy/derive "
                                "histories with the four history attributes read back after every step" % (len(ALL_TYPES), len(KINDS_A))}
        rep.assumptions = ["the clause list of DESIGN Appendix F is the whole oracle (stricter behaviour of the library is not judged)",
                           "derived keys: ALWAYS_SENSITIVE / NEVER_EXTRACTABLE follow PKCS#11 v2.40 mechanisms 2.43.x (AND over the parents and the key's own flag)"]
    finally:
        ex.close()
    return rep.finish()


def replay(rec):
    import shutil, sys
    from p11mc import p11 as P
    sys.path.insert(0, P.VERIF + "/tools")
    import build_sut
    build_sut.build(rec["variant"])
    check = C08A()
    root = P.scratch_root()
    try:
        template = core.build_template(check, rec["variant"], "file", root)
        core._worker_init(check, rec["variant"], "file", template, root)
        fn = _task_hist if rec.get("fn") == "_task_hist" else _task_a
        r = fn(tuple(rec["task"]))
        core._W["ctx"].stop_shell()
        sigs = [v["signature"] for v in r["viol"]]
        print("recorded:", rec["signature"], "\nobserved:", sigs[:12])
        if rec["signature"] in sigs:
            print("VIOLATION property=C08 replay=%s" % sys.argv[1])
            return 1
        return 0
    finally:
        shutil.rmtree(root, ignore_errors=True)
