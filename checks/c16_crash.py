"""C16 - a crash at any point leaves the token usable and loses nothing committed (DESIGN.md 3/C16).

For every writing call the real library is run under fsx (ptrace): before EVERY mutating file-system syscall of the call (open
with O_CREAT/O_TRUNC, write, ftruncate, unlink, mkdir, rmdir, rename, chmod) and at its end, the token directory is copied -
that copy is exactly the disk state a process killed at that instant leaves behind.  Every distinct crash state is then opened by
a FRESH process and judged: C_Initialize returns; the other token and every object / PIN the call was not writing are identical
to the pre-call observation (attributes and a known-answer encryption); a PIN being changed accepts exactly the old or the new
value; the object being written is absent (only if it was being created), in its old or in its new state - any other object
returned by C_FindObjects is a violation; and the token can still be written to.
"""
import hashlib, json, os, shutil, subprocess, time, traceback
from p11mc import consts as C
from p11mc.core import CheckBase, Explorer, Died
from p11mc import core
from p11mc.runner import Report
from p11mc import world as W, fixtures as F, snapshot as S, p11 as P
from p11mc.p11 import Out, tpl, mech, keyderiv_string

VARIANTS = (["ossl-plain"], ["ossl-plain"])       # the traced runs use the un-instrumented build in both tiers
NEW_USER, NEW_SO = b"user-pin-A-new", b"so-pin-A-new-1"
BIG = bytes((i * 31 + 7) & 0xFF for i in range(20000))


class FsxShell(P.Shell):
    """p11sh running as a tracee of fsx"""

    def __init__(self, variant, statedir, fsxargs):
        e = dict(os.environ)
        e["SOFTHSM2_CONF"] = "softhsm2.conf"
        self.variant, self.statedir = variant, statedir
        self.p = subprocess.Popen([os.path.join(P.VERIF, "build", "fsx", "fsx")] + fsxargs + ["--", os.path.join(P.VERIF, "build", variant, "p11sh")],
                                  cwd=statedir, env=e, stdin=subprocess.PIPE, stdout=subprocess.PIPE, bufsize=0)
        self.ifd, self.ofd = self.p.stdin.fileno(), self.p.stdout.fileno()
        self.buf, self.ncalls, self.last = b"", 0, None


class C16(CheckBase):
    ID = "C16"

    def __init__(self):
        self.kw = {}

    def world(self, ctx):
        w = W.two_tokens(ctx)
        p = ctx.p
        W.ok(p.Initialize(), "init")
        s = W.ok(p.OpenSession(w["slots"]["A"]), "open")["h"]
        W.ok(p.Login(s, C.CKU_USER, W.USER_A), "login")
        W.ok(p.CreateObject(s, F.template("aes128", token=True, private=True, label=b"keep-key", ident=b"k1", extra=[(C.CKA_ENCRYPT, True), (C.CKA_WRAP, True), (C.CKA_UNWRAP, True), (C.CKA_DERIVE, True)])), "keep-key")
        W.ok(p.CreateObject(s, F.template("data", token=True, private=False, label=b"keep-data")), "keep-data")
        W.ok(p.CreateObject(s, F.template("aes256", token=True, private=True, label=b"victim", ident=b"v1", extra=[(C.CKA_ENCRYPT, True)])), "victim")
        W.ok(p.CreateObject(s, F.template("ec256_priv", token=True, private=True, label=b"keep-ec", ident=b"e1", extra=[(C.CKA_DERIVE, True)])), "keep-ec")
        r = W.ok(p.WrapKey(s, mech(C.CKM_AES_KEY_WRAP), p.FindAll(s, [(C.CKA_LABEL, b"keep-key")])["hs"][0], p.FindAll(s, [(C.CKA_LABEL, b"victim")])["hs"][0], Out(64)), "wrap")
        w["wrapped"] = r["out"][:2 * r["len"]]
        W.ok(p.Finalize(), "final")
        return w

    def setup(self, ctx, world):
        return None


# the writing calls: name -> (login kind, function producing the request line(s) given handles, targets)
def call_specs(world):
    def find(p, s, lab):
        hs = p.FindAll(s, [(C.CKA_LABEL, lab)]).get("hs", [])
        return hs[0] if hs else 0
    AES = lambda lab: F.template("aes128", token=True, private=True, label=lab, ident=b"n1", extra=[(C.CKA_ENCRYPT, True)])
    specs = {
        "create-private-key": dict(login="user", line=lambda p, s: "C_CreateObject s=%d tpl=%s" % (s, tpl(AES(b"new-obj"))), created=[b"new-obj"]),
        "create-big-data": dict(login="user", line=lambda p, s: "C_CreateObject s=%d tpl=%s" % (s, tpl([(C.CKA_CLASS, C.CKO_DATA), (C.CKA_TOKEN, True), (C.CKA_PRIVATE, False), (C.CKA_LABEL, b"new-big"), (C.CKA_VALUE, BIG)])), created=[b"new-big"]),
        "set-attribute": dict(login="user", line=lambda p, s: "C_SetAttributeValue s=%d o=%d tpl=%s" % (s, find(p, s, b"victim"), tpl([(C.CKA_ID, b"changed-id-" + b"x" * 40)])), written=[b"victim"]),
        "set-attribute-shorter": dict(login="user", line=lambda p, s: "C_SetAttributeValue s=%d o=%d tpl=%s" % (s, find(p, s, b"victim"), tpl([(C.CKA_ID, b"")])), written=[b"victim"]),
        "destroy": dict(login="user", line=lambda p, s: "C_DestroyObject s=%d o=%d" % (s, find(p, s, b"victim")), written=[b"victim"], destroyed=True),
        "copy": dict(login="user", line=lambda p, s: "C_CopyObject s=%d o=%d tpl=%s" % (s, find(p, s, b"victim"), tpl([(C.CKA_LABEL, b"new-copy")])), created=[b"new-copy"]),
        "generate-key": dict(login="user", line=lambda p, s: "C_GenerateKey s=%d mech=%s tpl=%s" % (s, mech(C.CKM_AES_KEY_GEN), tpl([(C.CKA_VALUE_LEN, 16), (C.CKA_TOKEN, True), (C.CKA_PRIVATE, True), (C.CKA_LABEL, b"new-gen")])), created=[b"new-gen"]),
        "generate-key-pair": dict(login="user", line=lambda p, s: "C_GenerateKeyPair s=%d mech=%s pub=%s priv=%s" % (s, mech(C.CKM_EC_KEY_PAIR_GEN), tpl([(C.CKA_EC_PARAMS, F.H(F.KEYS["ec256"]["params"])), (C.CKA_TOKEN, True), (C.CKA_LABEL, b"new-pub")]),
                                                                                                         tpl([(C.CKA_TOKEN, True), (C.CKA_PRIVATE, True), (C.CKA_LABEL, b"new-prv")])), created=[b"new-pub", b"new-prv"]),
        "unwrap": dict(login="user", line=lambda p, s: "C_UnwrapKey s=%d mech=%s k=%d in=x%s tpl=%s" % (s, mech(C.CKM_AES_KEY_WRAP), find(p, s, b"keep-key"), world["wrapped"],
                       tpl([(C.CKA_CLASS, C.CKO_SECRET_KEY), (C.CKA_KEY_TYPE, C.CKK_AES), (C.CKA_TOKEN, True), (C.CKA_PRIVATE, True), (C.CKA_LABEL, b"new-unwrapped")])), created=[b"new-unwrapped"]),
        "derive": dict(login="user", line=lambda p, s: "C_DeriveKey s=%d mech=%s k=%d tpl=%s" % (s, mech(C.CKM_AES_ECB_ENCRYPT_DATA, keyderiv_string(bytes(range(32)))), find(p, s, b"keep-key"),
                       tpl([(C.CKA_CLASS, C.CKO_SECRET_KEY), (C.CKA_KEY_TYPE, C.CKK_GENERIC_SECRET), (C.CKA_VALUE_LEN, 32), (C.CKA_TOKEN, True), (C.CKA_PRIVATE, True), (C.CKA_LABEL, b"new-derived")])), created=[b"new-derived"]),
        "login-right-pin": dict(login=None, line=lambda p, s: "C_Login s=%d user=1 pin=x%s" % (s, W.USER_A.hex())),
        "login-wrong-pin": dict(login=None, line=lambda p, s: "C_Login s=%d user=1 pin=x%s" % (s, W.WRONG.hex())),
        "login-so-wrong-pin": dict(login=None, line=lambda p, s: "C_Login s=%d user=0 pin=x%s" % (s, W.WRONG.hex())),
        "setpin-user": dict(login="user", line=lambda p, s: "C_SetPIN s=%d old=x%s new=x%s" % (s, W.USER_A.hex(), NEW_USER.hex()), pin=("user", NEW_USER)),
        "setpin-so": dict(login="so", line=lambda p, s: "C_SetPIN s=%d old=x%s new=x%s" % (s, W.SO_A.hex(), NEW_SO.hex()), pin=("so", NEW_SO)),
        "initpin": dict(login="so", line=lambda p, s: "C_InitPIN s=%d pin=x%s" % (s, NEW_USER.hex()), pin=("user", NEW_USER)),
        "inittoken-reinit": dict(login="none-closed", line=lambda p, s: "C_InitToken slot=%d pin=x%s label=x%s" % (world["slots"]["A"], W.SO_A.hex(), b"A".ljust(32).hex()), reinit=True),
        "inittoken-free-slot": dict(login="none-closed", line=lambda p, s: "C_InitToken slot=%d pin=x%s label=x%s" % (world["slots"]["free"], b"so-pin-C-0003".hex(), b"C".ljust(32).hex()), newtoken=True),
    }
    # torn multi-write ladder: a data object a little larger than one stdio buffer is written with two write() calls; the value length sweeps so that
    # the end of the first write falls on EVERY byte offset of the records that follow the value (object id, modifiable, copyable, destroyable).
    # A crash between the two writes leaves a file cut at that offset.
    for v in LADDER:
        specs["create-ladder-%d" % v] = dict(login="user", signame="create-data-over-one-stdio-buffer", ladder=True, created=[b"ladder"],
                                             line=(lambda v_: lambda p, s: "C_CreateObject s=%d tpl=%s" % (s, tpl([(C.CKA_CLASS, C.CKO_DATA), (C.CKA_TOKEN, True), (C.CKA_PRIVATE, False), (C.CKA_LABEL, b"ladder"),
                                                   (C.CKA_VALUE, BIG[:v_]), (C.CKA_MODIFIABLE, False), (C.CKA_COPYABLE, False), (C.CKA_DESTROYABLE, False)])))(v))
    return specs


# file layout of that object: 8 (generation) + class 24 + token 17 + private 17 + label 24+6 + application 24 + value header 24 = 144 bytes before the value bytes,
# then object id 24 + modifiable 17 + copyable 17 + destroyable 17 = 75 bytes after them
LADDER_PRE, LADDER_POST, STDIO_BUF = 144, 75, 4096
LADDER_ALL = list(range(STDIO_BUF - LADDER_PRE - LADDER_POST - 2, STDIO_BUF - LADDER_PRE + 3))
LADDER = list(LADDER_ALL)


def cut_class(size, vlen):
    """where a file of `size` bytes ends relative to the record structure of the ladder object with a value of vlen bytes"""
    full = LADDER_PRE + vlen + LADDER_POST
    if size >= full:
        return "complete"
    bounds = [8, 32, 49, 66, 96, 120]                     # record starts before the value record
    vstart = 120
    after = LADDER_PRE + vlen
    bounds += [vstart, after, after + 24, after + 41, after + 58, after + 75]
    if size in bounds:
        return "file-ends-at-a-record-boundary"
    if size == 0:
        return "file-empty"
    if LADDER_PRE <= size < after:
        return "file-ends-inside-the-value-bytes"
    # inside a record: header = first 16 bytes of the record
    starts = [b for b in bounds if b <= size]
    off = size - max(starts)
    return "file-ends-inside-a-record-type-field" if off < 8 else ("file-ends-inside-a-record-kind-field" if off < 16 else "file-ends-inside-a-record-value")


def observe(variant, statedir, world, pins):
    """what a fresh process sees in statedir: dict (never raises; 'died' says so)"""
    out = {"died": None, "init_rv": None, "tokens": {}}
    sh = P.Shell(variant, statedir)
    p = P.P11(sh)
    try:
        r = p.Initialize()
        out["init_rv"] = r["rv"]
        if r["rv"] != 0:
            return out
        n = p.GetSlotList(1, "q").get("n", 0)
        for sl in p.GetSlotList(1, n + 2).get("slots", []):
            ti = p.GetTokenInfo(sl)
            if ti["rv"] != 0 or not (ti["flags"] & C.CKF_TOKEN_INITIALIZED):
                continue
            lab = W.label_of(ti)
            t = {"flags_user_pin": bool(ti["flags"] & C.CKF_USER_PIN_INITIALIZED), "serial": ti["serial"], "pins": {}, "objects": None, "kat": None, "writable": None}
            o = p.OpenSession(sl)
            if o["rv"] != 0:
                t["open_rv"] = o["rv"]
                out["tokens"][lab] = t
                continue
            s = o["h"]
            for uname, ut in (("so", C.CKU_SO), ("user", C.CKU_USER)):
                for pn, pin in pins.get(lab, {}).get(uname, []):
                    r = p.Login(s, ut, pin)
                    t["pins"][(uname, pn)] = (r["rv"] == 0)
                    if r["rv"] == 0:
                        p.Logout(s)
            logged = None
            for pn, pin in pins.get(lab, {}).get("user", []):
                if t["pins"].get(("user", pn)):
                    p.Login(s, C.CKU_USER, pin)
                    logged = pn
                    break
            hs = sorted(p.FindAll(s).get("hs", []))
            rows = S.read_objects(p, s, hs)
            objs = {}
            for i, h in enumerate(hs):
                d = dict(rows[h])
                lb = d.get(C.CKA_LABEL)
                key = lb if isinstance(lb, bytes) and lb else b"<no-label-%d>" % i
                while key in objs:
                    key += b"'"
                objs[key] = tuple(sorted((a, v) for a, v in rows[h] if v is not None and v != ("unavailable",)))
            t["objects"] = objs
            t["logged_in_as"] = logged
            kk = [h for h in hs if dict(rows[h]).get(C.CKA_LABEL) == b"keep-key"]
            if kk and logged:
                rs = p.batch(["C_EncryptInit s=%d mech=%s k=%d" % (s, mech(C.CKM_AES_ECB), kk[0]), "C_Encrypt s=%d in=x%s out=b16" % (s, bytes(16).hex())])
                t["kat"] = rs[1].get("out") if rs[1]["rv"] == 0 else "rv=%d" % rs[1]["rv"]
            if logged:
                r = p.CreateObject(s, F.template("data", token=True, private=True, label=b"post-crash"))
                t["writable"] = r["rv"] == 0 and len(p.FindAll(s, [(C.CKA_LABEL, b"post-crash")]).get("hs", [])) == 1
            p.CloseSession(s)
            out["tokens"][lab] = t
        p.Finalize()
    except P.Died as d:
        out["died"] = {"info": d.info, "during": (d.during or "")[:120]}
    finally:
        sh.close()
    return out


def dirhash(d):
    h = hashlib.sha1()
    for dp, dn, fn in sorted(os.walk(d)):
        dn.sort()
        for x in dn:      # directories count as well: an EMPTY token directory (mkdir done, token.object not yet created) is a state of its own
            h.update(b"dir:" + os.path.relpath(os.path.join(dp, x), d).encode() + b"\2")
        for f in sorted(fn):
            q = os.path.join(dp, f)
            h.update(os.path.relpath(q, d).encode() + b"\0" + open(q, "rb").read() + b"\1")
    return h.hexdigest()


def classify_point(desc, tokdir_files_before):
    """short class of a crash point for signatures: the syscall about to happen and the kind of file"""
    if desc == "window-end":
        return "at-end-of-call"
    sysname = desc.get("sys")
    base = os.path.basename(desc.get("path", ""))
    role = "token.object" if base == "token.object" else ("lock-file" if base.endswith(".lock") else ("generation-file" if base == "generation" else ("object-file" if base.endswith(".object") else ("directory" if not base or "." not in base else "other"))))
    return "before-%s(%s)" % (sysname, role)


def _task(task):
    cname, = task
    ctx = core._W["ctx"]
    ctx.counters = {}
    out = {"viol": {}, "harness": None, "counters": None, "samples": []}
    world = core._W["template"]["world"]
    variant = ctx.variant
    work = os.path.join(ctx.root, "c16-" + cname)
    shutil.rmtree(work, ignore_errors=True)

    def V(sig, det):
        out["viol"].setdefault(sig, {"signature": sig, "detail": det, "task": list(task), "history": [], "action": None})
    try:
        spec = call_specs(world)[cname]
        sn = spec.get("signame", cname)
        template_files = {f for dp, dn, fn in os.walk(core._W["template"]["dir"]) for f in fn}
        pins = {"A": {"so": [("old", W.SO_A)], "user": [("old", W.USER_A)]}, "B": {"so": [("old", W.SO_B)], "user": [("old", W.USER_B)]}, "C": {"so": [("old", b"so-pin-C-0003")], "user": []}}
        if spec.get("pin"):
            pins["A"][spec["pin"][0]].append(("new", spec["pin"][1]))
        if spec.get("reinit"):
            pass
        # ---- old observation
        sd0 = os.path.join(work, "old", "d0")
        shutil.copytree(core._W["template"]["dir"], sd0)
        old = observe(variant, sd0, world, pins)
        # ---- the traced run
        sd = os.path.join(work, "run", "d0")
        shutil.copytree(core._W["template"]["dir"], sd)
        snapdir = os.path.join(work, "snaps")
        sh = FsxShell(variant, sd, ["crashpoints", snapdir, "tokens"])
        p = P.P11(sh)
        try:
            W.ok(p.Initialize(), "init")
            s = 0
            if spec["login"] != "none-closed":
                s = W.ok(p.OpenSession(world["slots"]["A"]), "open")["h"]
                if spec["login"] == "user":
                    W.ok(p.Login(s, C.CKU_USER, W.USER_A), "login")
                elif spec["login"] == "so":
                    W.ok(p.Login(s, C.CKU_SO, W.SO_A), "login so")
            line = spec["line"](p, s)
            sh.cmd("MARK n=1")
            r = p.call(line)
            sh.cmd("MARK n=2")
            call_rv = r["rv"]
        finally:
            sh.close()
        points = [json.loads(l) for l in open(os.path.join(snapdir, "points.jsonl"))]
        ctx.count("crash_points", len(points))
        new = None
        seen = {}
        for pt in points:
            k = pt["point"]
            sdir = os.path.join(snapdir, str(k))
            hsh = dirhash(sdir)
            if hsh in seen:
                continue
            seen[hsh] = k
            ctx.count("distinct_crash_states")
            rdir = os.path.join(work, "rec", "d0")
            shutil.rmtree(os.path.dirname(rdir), ignore_errors=True)
            os.makedirs(rdir)
            shutil.copy(os.path.join(core._W["template"]["dir"], "softhsm2.conf"), rdir)
            shutil.copytree(sdir, os.path.join(rdir, "tokens"))
            ob = observe(variant, rdir, world, pins)
            pclass = classify_point(pt["before"], None)
            if pt["before"] == "window-end":
                new = ob
            base = "C16|%s|crash-%s" % (sn, pclass)
            det = {"point": k, "of": len(points), "before": pt["before"], "call_rv": call_rv}
            if spec.get("ladder"):
                vlen = int(cname.rsplit("-", 1)[1])
                newf = [os.path.join(dp, f) for dp, dn, fn in os.walk(sdir) for f in fn if f.endswith(".object") and f not in template_files]
                sizes = sorted(os.path.getsize(f) for f in newf)
                det["cut"] = cut_class(sizes[-1], vlen) if sizes else "no-object-file-yet"
                det["file_size"] = sizes[-1] if sizes else None
                ctx.count("ladder_state:" + det["cut"])
            if ob["died"]:
                V(base + "|recovering-process-died", dict(det, died=ob["died"]))
                continue
            if ob["init_rv"] != 0:
                V(base + "|C_Initialize-fails", dict(det, rv=ob["init_rv"]))
                continue
            # the other token
            if ob["tokens"].get("B") is None:
                V(base + "|other-token-lost", det)
            else:
                tb, ob_b = old["tokens"]["B"], ob["tokens"]["B"]
                if tb["pins"] != ob_b["pins"] or tb["objects"] != {k2: v for k2, v in (ob_b["objects"] or {}).items() if k2 != b"post-crash"}:
                    V(base + "|other-token-changed", det)
            ta_old = old["tokens"]["A"]
            ta = ob["tokens"].get("A")
            if ta is None:
                V(base + "|token-lost", dict(det, tokens=sorted(ob["tokens"])))
                continue
            if spec.get("reinit"):
                # old (everything) or new (empty token, SO PIN only)
                is_old = ta["pins"].get(("user", "old")) and ta["pins"].get(("so", "old")) and all(l in (ta["objects"] or {}) for l in (b"keep-key", b"keep-data", b"victim"))
                is_new = ta["pins"].get(("so", "old")) and not ta["flags_user_pin"] and not [l for l in (ta["objects"] or {}) if l != b"post-crash"]
                if not (is_old or is_new):
                    # (which objects are already gone depends on the directory order of the random file names: not part of the signature)
                    V("C16|%s|token-neither-old-nor-new|so-pin=%s|user-pin=%s|%s" % (cname, ta["pins"].get(("so", "old")), ta["pins"].get(("user", "old")),
                      "objects-partly-or-fully-deleted" if len([l for l in (ta["objects"] or {}) if l != b"post-crash"]) < 4 else "objects-all-present"), dict(det, objects=sorted(ta["objects"] or {})))
                continue
            # PINs
            for uname in ("so", "user"):
                okold = ta["pins"].get((uname, "old"))
                oknew = ta["pins"].get((uname, "new"))
                if spec.get("pin") and spec["pin"][0] == uname:
                    if not (okold or oknew):
                        V(base + "|%s-pin-lost-neither-old-nor-new-works" % uname, det)
                    elif okold and oknew and spec["pin"][1] != (W.SO_A if uname == "so" else W.USER_A):
                        V(base + "|%s-pin-both-old-and-new-work" % uname, det)
                elif not okold:
                    V(base + "|%s-pin-lost" % uname, det)
            if ta["logged_in_as"] is None:
                continue
            objs = {k2: v for k2, v in ta["objects"].items() if k2 != b"post-crash"}
            written = set(spec.get("written", [])) | set(spec.get("created", []))
            for lab, attrs in ta_old["objects"].items():
                if lab in written:
                    continue
                if lab not in objs:
                    V(base + "|untouched-object-lost|%s" % lab.decode(), det)
                elif objs[lab] != attrs:
                    V(base + "|untouched-object-changed|%s" % lab.decode(), det)
            if ta["kat"] != ta_old["kat"] and b"keep-key" in objs:
                V(base + "|known-answer-encryption-differs", dict(det, kat=ta["kat"]))
            if ta["writable"] is False:
                V(base + "|token-not-writable-after-recovery", det)
            out.setdefault("pending", []).append((k, pclass, objs, det))
        # targets: absent / old / new - judged once the complete (new) observation is known
        if new is None or not new["tokens"].get("A") or new["tokens"]["A"]["objects"] is None:
            if not spec.get("reinit") and not spec.get("newtoken"):
                V("C16|%s|no-observation-of-the-completed-call" % cname, {})
        else:
            nobj = {k2: v for k2, v in new["tokens"]["A"]["objects"].items() if k2 != b"post-crash"}
            oobj = old["tokens"]["A"]["objects"]
            for k, pclass, objs, det in out.get("pending", []):
                base = "C16|%s|crash-%s" % (sn, pclass)
                for lab in set(spec.get("written", [])) | set(spec.get("created", [])):
                    cur, o_, n_ = objs.get(lab), oobj.get(lab), nobj.get(lab)
                    if cur is None:
                        if lab in spec.get("created", []) or (spec.get("destroyed") and n_ is None):
                            ctx.count("target_absent")
                            continue
                        V(base + "|written-object-lost|%s" % lab.decode(), det)
                    elif cur == o_ and o_ is not None:
                        ctx.count("target_old")
                    elif cur == n_:
                        ctx.count("target_new")
                    else:
                        na, nn = len(cur), len(n_ or o_ or ())
                        V(base + "|object-returned-in-mixed-state|%s|%s%s" % (lab.decode(), "attributes-missing" if na < nn else "attributes-differ", ("|" + det["cut"]) if spec.get("ladder") else ""),
                          dict(det, attributes_present=na, attributes_complete=nn))
                for lab in objs:
                    if lab not in oobj and lab not in nobj:
                        V(base + "|unknown-object-visible|%s" % ("without-label" if lab.startswith(b"<no-label") else "other"), dict(det, label=lab, attributes=len(objs[lab])))
        out.pop("pending", None)
        out["samples"].append({"call": cname, "crash_points": len(points), "distinct_states": len(seen), "call_rv": call_rv})
    except Exception:
        out["harness"] = "task %r: %s" % (task, traceback.format_exc())
    finally:
        shutil.rmtree(work, ignore_errors=True)
    out["counters"] = ctx.counters
    out["viol"] = list(out["viol"].values())
    return out


def main(tier):
    rep = Report("C16", tier, "fault_enumeration")
    quick = tier == "quick"
    variant = "ossl-plain"
    ex = Explorer(C16(), variant=variant)
    cnt, samples = {}, []
    try:
        names = sorted(call_specs(ex.template["world"]))
        if quick:
            keep = {"create-ladder-%d" % v for v in LADDER_ALL[2:22]}        # 20 consecutive lengths: every offset of the last record and its header
            names = [n for n in names if not n.startswith("create-ladder-") or n in keep]
        found = {}
        for r in ex.pool.imap_unordered(_task, [(n,) for n in names]):
            if r["harness"]:
                rep.harness_errors.append(r["harness"])
            for k, v in (r["counters"] or {}).items():
                cnt[k] = cnt.get(k, 0) + v
            for v in r["viol"]:
                found.setdefault(v["signature"], v)
            samples += r["samples"]
        by_task = {}
        for sig, v in sorted(found.items()):
            by_task.setdefault(tuple(v["task"]), []).append(sig)
        tl = sorted(by_task)
        res = ex.pool.map(_task, tl, chunksize=1)
        for t, r in zip(tl, res):
            seen = {x["signature"] for x in r["viol"]}
            for sig in by_task[t]:
                if sig in seen:
                    v = dict(found[sig]); v.update(variant=variant, store="file", replay_module="c16_crash")
                    rep.add_violation(v)
                else:
                    rep.harness_errors.append("violation %s did not reproduce" % sig)
    finally:
        ex.close()
    if cnt.get("distinct_crash_states", 0) < 20 or not cnt.get("ladder_state:file-ends-inside-a-record-kind-field"):
        rep.harness_errors.append("vacuous: %r" % cnt)
    rep.coverage = {"evaluations": cnt.get("crash_points", 0), "distinct_nontrivial": cnt.get("distinct_crash_states", 0), "samples": samples[:20], "exhaustive": True, "variant": variant,
                    "outcome_counters": cnt, "calls": len(samples),
                    "rule": "evaluations = crash points (one before every mutating file-system syscall of each writing call + the end of the call); non-trivial = distinct directory "
                            "states (by content hash) that were recovered from by a fresh process and judged"}
    rep.assumptions = ["fault model: process death (the kernel has completed every syscall issued before the crash; nothing is torn or reordered)", "file store; single writing calls from one populated start state"]
    return rep.finish()


def replay(rec):
    import sys
    sys.path.insert(0, P.VERIF + "/tools")
    import build_sut
    build_sut.build(rec["variant"]); build_sut.build_fsx()
    check = C16()
    root = P.scratch_root()
    try:
        template = core.build_template(check, rec["variant"], "file", root)
        core._worker_init(check, rec["variant"], "file", template, root)
        r = _task(tuple(rec["task"]))
        core._W["ctx"].stop_shell()
        sigs = [v["signature"] for v in r["viol"]]
        print("call:", rec["task"], "\nrecorded:", rec["signature"], "\nobserved:", sigs[:12])
        if rec["signature"] in sigs:
            print("VIOLATION property=C16 replay=%s" % sys.argv[1])
            return 1
        return 0
    finally:
        shutil.rmtree(root, ignore_errors=True)
