"""C11 - handles are never reused and die exactly with what they denote (DESIGN.md 3/C11).

BFS over session/login/object histories on tokens A and B; after EVERY call every handle ever issued on the path is
probed (sessions: C_GetSessionInfo; objects: C_GetObjectSize through every session of the object's token, dead ones
through every session) and compared with the handle-lifetime model; identities are checked through CKA_LABEL.
"""
import time
from p11mc import consts as C
from p11mc.core import CheckBase, Explorer, Violation, confirm_violations
from p11mc.runner import Report
from p11mc import world as W, fixtures as F
from p11mc.p11 import Out, tpl

PUBLIC, USER, SO = 0, 1, 2


class Obj:
    __slots__ = ("label", "tok", "token", "private", "owner", "alive", "handles", "origin")

    def __init__(self, label, tok, token, private, owner, origin="create"):
        self.label, self.tok, self.token, self.private, self.owner = label, tok, token, private, owner
        self.origin = origin          # how the object came to exist: part of the state key (the library may keep per-handle data that depends on it)
        self.alive = True
        self.handles = set()


class Model:
    def __init__(self):
        self.login = {"A": PUBLIC, "B": PUBLIC}
        self.sess = []            # [h, tok, rw]
        self.objs = []
        self.issued_s = set()
        self.issued_o = set()
        self.nobj = 0
        self.foot = set()         # which KINDS of handle-retiring events have happened per token (part of the state key, see key())

    def live_s(self):
        return {s[0] for s in self.sess}

    def live_o(self):
        out = set()
        for o in self.objs:
            if o.alive:
                out |= o.handles
        return out


class C11(CheckBase):
    ID = "C11"

    def __init__(self, max_a=2, max_b=1, max_objs=3, so=True):
        self.kw = dict(max_a=max_a, max_b=max_b, max_objs=max_objs, so=so)
        self.max_per = {"A": max_a, "B": max_b}
        self.max_objs = max_objs
        self.so = so

    def world(self, ctx):
        return W.two_tokens(ctx)

    def setup(self, ctx, world):
        W.ok(ctx.p.Initialize(), "C_Initialize")
        return Model()

    def actions(self, m):
        acts = []
        for t in ("A", "B"):
            if sum(1 for s in m.sess if s[1] == t) < self.max_per[t]:
                acts.append(("open", t, 1))
                if m.login[t] != SO:
                    acts.append(("open", t, 0))
        for i, (h, t, rw) in enumerate(m.sess):
            acts.append(("close", i))
        for t in ("A", "B"):
            if any(s[1] == t for s in m.sess):
                acts.append(("closeall", t))
        for i, (h, t, rw) in enumerate(m.sess):
            if m.login[t] == PUBLIC:
                acts.append(("login", i, C.CKU_USER))
                if self.so and not any(s[1] == t and not s[2] for s in m.sess):
                    acts.append(("login", i, C.CKU_SO))
            else:
                acts.append(("logout", i))
        nlive = sum(1 for o in m.objs if o.alive)
        for i, (h, t, rw) in enumerate(m.sess):
            if nlive < self.max_objs:
                for token in (0, 1):
                    for private in (0, 1):
                        if token and not rw:
                            continue
                        if private and m.login[t] != USER:
                            continue
                        if m.login[t] == SO and private:
                            continue
                        acts.append(("create", i, token, private))
                # objects also come into being as COPIES whose privacy / location differ from the source's: a public object copied to a private token
                # object while the user is logged in (the new handle must die at logout like that of any private object)
                if m.login[t] == USER and rw:
                    for j, o in enumerate(m.objs):
                        if o.alive and o.tok == t and o.handles and not o.private:
                            acts.append(("copy-private-token", i, j))
                            break
            # ... and as copies that are SESSION objects of the copying session (they must die with that session and with no other)
            if nlive < self.max_objs:
                for j, o in enumerate(m.objs):
                    if o.alive and o.tok == t and o.handles and (not o.private or m.login[t] == USER):
                        acts.append(("copy-session", i, j))
                        break
            acts.append(("find", i))
            for j, o in enumerate(m.objs):
                if o.alive and o.tok == t and o.handles:
                    if o.token and not rw:
                        continue
                    if o.private and m.login[t] != USER:
                        continue
                    acts.append(("destroy", i, j))
        return acts

    # ---- oracle: probe every handle ever issued
    def check_handles(self, ctx, m, a):
        p = ctx.p
        lines = []
        plan = []
        live_s = m.live_s()
        for h in sorted(m.issued_s):
            lines.append("C_GetSessionInfo s=%d" % h)
            plan.append(("s", h, h in live_s, None))
        sess_by_tok = {"A": [s[0] for s in m.sess if s[1] == "A"], "B": [s[0] for s in m.sess if s[1] == "B"]}
        all_sess = [s[0] for s in m.sess]
        owner = {}
        for o in m.objs:
            for h in o.handles:
                owner[h] = o
        live_o = m.live_o()
        for h in sorted(m.issued_o):
            if h in live_o:
                o = owner[h]
                for s in sess_by_tok[o.tok]:
                    lines.append("C_GetObjectSize s=%d o=%d" % (s, h))
                    plan.append(("o", h, True, None))
                    if not o.private or m.login[o.tok] == USER:
                        lines.append("C_GetAttributeValue s=%d o=%d tpl=%s" % (s, h, tpl([(C.CKA_LABEL, Out(16))])))
                        plan.append(("id", h, True, o.label))
            else:
                for s in all_sess:
                    lines.append("C_GetObjectSize s=%d o=%d" % (s, h))
                    plan.append(("o", h, False, None))
        if not lines:
            return
        rs = p.batch(lines)
        ctx.count("handle_probes", len(lines))
        for r, (kind, h, live, label) in zip(rs, plan):
            if kind == "id":
                if r["rv"] != 0:
                    raise Violation("C11|%s|live-object-handle-unreadable" % a[0], {"handle": h, "rv": r["rv"], "action": a})
                got = bytes.fromhex(r["attrs"][0][2])[:max(r["attrs"][0][1], 0)]
                if got != label:
                    raise Violation("C11|%s|handle-denotes-another-object" % a[0], {"handle": h, "expected": label, "got": got, "action": a})
                ctx.count("identity_ok")
                continue
            valid = r["rv"] == 0
            if valid and not live:
                raise Violation("C11|%s|%s-handle-still-valid-after-death" % (a[0], "session" if kind == "s" else "object"),
                                {"handle": h, "action": a})
            if not valid and live:
                raise Violation("C11|%s|unaffected-%s-handle-rejected" % (a[0], "session" if kind == "s" else "object"),
                                {"handle": h, "rv": r["rv"], "action": a})
            ctx.count("valid_seen" if valid else "invalid_seen")

    # ---- lifetime model
    def session_closed(self, m, t, h):
        for o in m.objs:
            if o.alive and o.tok == t and not o.token and o.owner == h:
                o.alive = False
                o.handles = set()

    def slot_emptied(self, m, t):
        """last session closed / C_CloseAllSessions: every handle of the slot dies, session objects are destroyed"""
        for o in m.objs:
            if o.alive and o.tok == t:
                if not o.token:
                    o.alive = False
                o.handles = set()

    def logged_out(self, m, t):
        for o in m.objs:
            if o.alive and o.tok == t and o.private:
                if not o.token:
                    o.alive = False
                o.handles = set()

    def new_handle(self, m, h, kind, a):
        if h == 0:
            raise Violation("C11|%s|zero-handle-issued" % a[0], {"action": a})
        if h in m.issued_s or h in m.issued_o:
            raise Violation("C11|%s|handle-issued-twice" % a[0], {"handle": h, "as": kind, "action": a})
        (m.issued_s if kind == "s" else m.issued_o).add(h)

    def step(self, ctx, m, a):
        p = ctx.p
        slots = ctx.world["slots"]
        k = a[0]
        if k == "open":
            _, t, rw = a
            r = p.OpenSession(slots[t], W.RW if rw else W.RO)
            if r["rv"] == 0:
                self.new_handle(m, r["h"], "s", a)
                m.sess.append([r["h"], t, rw])
                ctx.count("open_ok")
        elif k == "close":
            h, t, rw = m.sess[a[1]]
            r = p.CloseSession(h)
            if r["rv"] == 0:
                del m.sess[a[1]]
                self.session_closed(m, t, h)
                if not any(s[1] == t for s in m.sess):
                    m.login[t] = PUBLIC
                    self.slot_emptied(m, t)
                    m.foot.add(("last-close", t))
                ctx.count("close_ok")
        elif k == "closeall":
            t = a[1]
            r = p.CloseAllSessions(slots[t])
            if r["rv"] == 0:
                m.sess = [s for s in m.sess if s[1] != t]
                m.login[t] = PUBLIC
                self.slot_emptied(m, t)
                m.foot.add(("close-all", t))
                ctx.count("closeall_ok")
        elif k == "login":
            h, t, rw = m.sess[a[1]]
            pin = {("A", C.CKU_USER): W.USER_A, ("A", C.CKU_SO): W.SO_A, ("B", C.CKU_USER): W.USER_B, ("B", C.CKU_SO): W.SO_B}[(t, a[2])]
            r = p.Login(h, a[2], pin)
            if r["rv"] == 0:
                m.login[t] = USER if a[2] == C.CKU_USER else SO
                ctx.count("login_ok")
        elif k == "logout":
            h, t, rw = m.sess[a[1]]
            r = p.Logout(h)
            if r["rv"] == 0:
                m.login[t] = PUBLIC
                self.logged_out(m, t)
                m.foot.add(("logout", t))
                ctx.count("logout_ok")
        elif k == "create":
            _, i, token, private = a
            h, t, rw = m.sess[i]
            label = b"obj-%04d" % m.nobj
            r = p.CreateObject(h, F.template("aes128", token=token, private=private, label=label))
            if r["rv"] == 0:
                self.new_handle(m, r["h"], "o", a)
                o = Obj(label, t, bool(token), bool(private), h)
                o.handles.add(r["h"])
                m.objs.append(o)
                m.nobj += 1
                ctx.count("create_ok")
            else:
                ctx.count("create_refused")
        elif k == "copy-private-token":
            _, i, j = a
            h, t, rw = m.sess[i]
            src = m.objs[j]
            label = b"obj-%04d" % m.nobj
            r = p.CopyObject(h, sorted(src.handles)[0], [(C.CKA_LABEL, label), (C.CKA_TOKEN, True), (C.CKA_PRIVATE, True)])
            if r["rv"] == 0:
                self.new_handle(m, r["h"], "o", a)
                o = Obj(label, t, True, True, h, origin="copy-of-public")
                o.handles.add(r["h"])
                m.objs.append(o)
                m.nobj += 1
                ctx.count("copy_ok")
            else:
                ctx.count("copy_refused")
        elif k == "copy-session":
            _, i, j = a
            h, t, rw = m.sess[i]
            src = m.objs[j]
            label = b"obj-%04d" % m.nobj
            r = p.CopyObject(h, sorted(src.handles)[0], [(C.CKA_LABEL, label), (C.CKA_TOKEN, False)])
            if r["rv"] == 0:
                self.new_handle(m, r["h"], "o", a)
                o = Obj(label, t, False, src.private, h, origin="session-copy")
                o.handles.add(r["h"])
                m.objs.append(o)
                m.nobj += 1
                ctx.count("copy_session_ok")
            else:
                ctx.count("copy_session_refused")
        elif k == "find":
            h, t, rw = m.sess[a[1]]
            r = p.FindAll(h)
            if r["rv"] == 0:
                by_label = {o.label: o for o in m.objs}
                for oh in r["hs"]:
                    rv, lab = p.get_attr(h, oh, C.CKA_LABEL)
                    if rv != 0:
                        raise Violation("C11|find|returned-handle-unreadable", {"handle": oh, "rv": rv})
                    o = by_label.get(lab)
                    if o is None or not o.alive or o.tok != t:
                        raise Violation("C11|find|returned-destroyed-or-foreign-object", {"handle": oh, "label": lab})
                    if oh in o.handles:
                        ctx.count("find_same_handle")
                        continue
                    self.new_handle(m, oh, "o", a)
                    o.handles.add(oh)
                    ctx.count("find_new_handle")
        elif k == "destroy":
            _, i, j = a
            h, t, rw = m.sess[i]
            o = m.objs[j]
            oh = sorted(o.handles)[0]
            r = p.DestroyObject(h, oh)
            if r["rv"] == 0:
                o.alive = False
                o.handles = set()
                ctx.count("destroy_ok")
            else:
                ctx.count("destroy_refused")
        else:
            raise RuntimeError(a)
        self.check_handles(ctx, m, a)
        return m

    def key(self, ctx, m):
        sidx = {s[0]: i for i, s in enumerate(m.sess)}
        objs = tuple((o.tok, o.token, o.private, sidx.get(o.owner, -1) if not o.token else -1, len(o.handles), o.origin) for o in m.objs if o.alive)
        dead_s = min(2, len(m.issued_s - m.live_s()))
        dead_o = min(2, len(m.issued_o - m.live_o()))
        # the footprint - which kinds of retiring events (close-all, last close, logout) the token has been through - keeps states apart that the model
        # considers equal but that the library reached through different bookkeeping paths (tables, counters and caches those paths leave behind)
        return (tuple(sorted(m.login.items())), tuple((t, rw) for h, t, rw in m.sess), objs, dead_s, dead_o, tuple(sorted(m.foot)))

    def died_sig(self, action, d):
        return "C11|%s|%r" % (action[0], d.info)


def main(tier):
    rep = Report("C11", tier, "model_checking")
    quick = tier == "quick"
    variant = "ossl-asan" if quick else "ossl-plain"
    deadline = time.time() + (600 if quick else 1700)
    cfgs = [("<=2 sessions on A, 1 on B, <=2 live objects", dict(max_a=2, max_b=1, max_objs=2), 6, 3)] if quick else \
           [("<=2 sessions on A, 1 on B, <=3 live objects", dict(max_a=2, max_b=1, max_objs=3), 7, 4),
            ("<=3 sessions on A, 1 on B, <=2 live objects", dict(max_a=3, max_b=1, max_objs=2), 6, 0)]
    runs, samples, counters = [], [], {}
    tot = dict(states=0, transitions=0, traces=0)
    exhaustive = True
    for title, kw, maxd, dfsd in cfgs:
        ex = Explorer(C11(**kw), variant=variant, deadline=deadline)
        try:
            fix = ex.bfs(maxd)
            done = ex.stats["depth_completed"] >= maxd or fix
            dfs_ok = ex.dfs(dfsd) if dfsd and not ex._timeup() else (dfsd == 0)
            confirm_violations(ex, rep)
            st = ex.stats
            runs.append({"config": title, "variant": variant, "states": st["states"], "transitions": st["transitions"], "fixpoint": fix,
                         "depth_completed": st["depth_completed"], "depth_bound": maxd, "levels": st["levels"],
                         "unmerged_depth": st["dfs_depth"], "unmerged_paths": st["dfs_paths"], "unmerged_transitions": st["dfs_transitions"]})
            tot["states"] += st["states"]
            tot["transitions"] += st["transitions"] + st["dfs_transitions"]
            tot["traces"] += st["states"] + st["dfs_paths"]
            for k, v in st["counters"].items():
                counters[k] = counters.get(k, 0) + v
            samples += ex.samples[:3]
            exhaustive = exhaustive and done and dfs_ok
        finally:
            ex.close()
    if not counters.get("identity_ok") or not counters.get("invalid_seen") or not counters.get("find_new_handle"):
        rep.harness_errors.append("vacuous: %r" % counters)
    rep.coverage = {"states": tot["states"], "transitions": tot["transitions"], "traces_validated_against_impl": tot["traces"],
                    "samples": samples, "exhaustive": exhaustive, "runs": runs, "outcome_counters": counters,
                    "rule": "all histories up to the depth bound (merged on login state, ordered sessions, live objects with owner/handle count, "
                            "saturating dead-handle counts); after every call every handle ever issued on the path is probed; "
                            "exhaustive = every depth level up to the stated bound completed (and the unmerged DFS)"}
    rep.assumptions = ["depth and participant bounds as listed per run", "object identity observed through CKA_LABEL of AES secret-key objects"]
    return rep.finish()
