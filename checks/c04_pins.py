"""C04 - only the current PIN authenticates; PIN changes are exact and lossless (DESIGN.md 3/C04).

BFS over PIN-change histories (C_InitPIN, C_SetPIN from RW public / RW user / RW SO sessions with right / wrong / other
user's old PIN, new PINs from an alphabet aimed at comparison shortcuts, C_InitToken on the free slot).  After every
accepted change the full login probe runs three times - in the same library instance, after C_Finalize/C_Initialize and
in a brand-new process: for both user types C_Login must succeed IF AND ONLY IF the candidate equals the model's current
PIN, candidates being the current PIN, every previous PIN of the path, the other user's PIN, prefixes, one-byte
extensions, one-bit neighbours and the length-boundary strings; private objects must still read back their values.
After every rejected attempt a reduced probe checks that nothing changed.
"""
import os, shutil, time
from p11mc import consts as C
from p11mc.core import CheckBase, Explorer, Violation, confirm_violations
from p11mc.runner import Report
from p11mc import world as W, fixtures as F, p11 as P

PINS = {  # the alphabet of new PINs (index -> bytes); lengths 0,3 and 256 are outside the advertised range
    "p1": b"user-pin-A-01", "p2": b"pin-two-2222", "min": b"abcd", "max": bytes((i % 26) + 97 for i in range(255)), "short": b"abc",
    "long": bytes((i % 26) + 65 for i in range(256)), "empty": b"", "nul": b"ab\x00cd", "hi": bytes([0xe4, 0xf6, 0xfc, 0xff, 0x80, 0x81]),
    "pfx": b"user-pin-A-0", "ext": b"user-pin-A-011", "so1": b"so-pin-A-0001", "so2": b"so-pin-two-22",
}
VALID = {k for k, v in PINS.items() if 4 <= len(v) <= 255}
SECRET_VALUE = bytes(range(0xa0, 0xb0))
DATA_VALUE = b"VFC04-private-data-object-value"


def neighbours(pin):
    out = []
    n = len(pin)
    if n == 0:
        return out
    idx = sorted(set([0, 1, n - 2, n - 1] + [i for i in (7, 8, 15, 16, 31, 32, 63, 64, 127, 128) if i < n])) if n > 16 else range(n)
    for i in idx:
        if i < 0:
            continue
        for b in range(8):
            x = bytearray(pin)
            x[i] ^= 1 << b
            out.append(bytes(x))
    return out


def prefixes(pin):
    n = len(pin)
    lens = range(n) if n <= 16 else sorted({0, 1, 2, 3, 4, 7, 8, 15, 16, 31, 32, 63, 64, 127, 128, n - 1})
    return [pin[:k] for k in lens]


class Model:
    def __init__(self):
        self.so = {"A": "so1"}
        self.user = {"A": "p1"}       # None = not initialised
        self.prev = set()             # every PIN name ever set on the path
        self.tokens = ["A"]
        self.objects = True           # the private objects of A exist (until a re-initialisation)


class C04(CheckBase):
    ID = "C04"

    def __init__(self, news=("p2", "min", "max", "short", "long", "empty", "nul", "hi", "pfx", "ext", "so1", "p1"), third=False):
        self.kw = dict(news=tuple(news), third=third)
        self.news = list(news)
        self.third = third

    def world(self, ctx):
        w = W.two_tokens(ctx)
        p = ctx.p
        W.ok(p.Initialize(), "init")
        s = W.ok(p.OpenSession(w["slots"]["A"]), "open")["h"]
        W.ok(p.Login(s, C.CKU_USER, W.USER_A), "login")
        W.ok(p.CreateObject(s, F.template("aes128", token=True, private=True, label=b"c04-key") [:2] + [(C.CKA_VALUE, SECRET_VALUE), (C.CKA_TOKEN, True), (C.CKA_PRIVATE, True),
                               (C.CKA_LABEL, b"c04-key"), (C.CKA_SENSITIVE, False), (C.CKA_EXTRACTABLE, True)]), "key")
        W.ok(p.CreateObject(s, [(C.CKA_CLASS, C.CKO_DATA), (C.CKA_TOKEN, True), (C.CKA_PRIVATE, True), (C.CKA_LABEL, b"c04-data"), (C.CKA_VALUE, DATA_VALUE)]), "data")
        ti = p.GetTokenInfo(w["slots"]["A"])
        w["minpin"], w["maxpin"] = ti["minpin"], ti["maxpin"]
        W.ok(p.Finalize(), "final")
        return w

    def setup(self, ctx, world):
        W.ok(ctx.p.Initialize(), "init")
        return Model()

    def actions(self, m):
        acts = []
        for t in m.tokens:
            for new in self.news:
                acts.append(("initpin", t, new))
                for mode in ("public", "user", "so"):
                    for old in ("right", "wrong", "other"):
                        acts.append(("setpin", t, mode, old, new))
            acts.append(("initpin-not-so", t, "public"))
            acts.append(("initpin-not-so", t, "user"))
            acts.append(("reinit", t, "right"))
            acts.append(("reinit", t, "wrong"))
        if self.third and "C" not in m.tokens:
            acts.append(("inittoken-free", "so2"))
        return acts

    # ---- probes
    def candidates(self, m, t, utype):
        cur = m.so[t] if utype == C.CKU_SO else m.user[t]
        other = m.user[t] if utype == C.CKU_SO else m.so[t]
        cands = []
        curb = PINS[cur] if cur is not None else None
        if curb is not None:
            cands.append(curb)
            cands += prefixes(curb)
            cands += [curb + b"x", curb + b"\x00"]
            cands += neighbours(curb)
        if other is not None:
            cands.append(PINS[other])
        cands += [PINS[x] for x in sorted(m.prev)]
        cands += [PINS["max"], PINS["long"], PINS["min"], b""]
        seen, out = set(), []
        for c in cands:
            if c not in seen:
                seen.add(c)
                out.append(c)
        return out, curb

    def login_probe(self, ctx, p, m, t, full, where):
        slot = ctx.world["slots"][t]
        r = p.OpenSession(slot)
        if r["rv"] != 0:
            raise Violation("C04|%s|cannot-open-session" % where, {"rv": r["rv"]})
        s = r["h"]
        for utype, uname in ((C.CKU_SO, "so"), (C.CKU_USER, "user")):
            cands, cur = self.candidates(m, t, utype)
            if not full:
                cands = ([cur] if cur is not None else []) + [PINS[x] for x in sorted(m.prev)][:3] + [W.WRONG]
            for c in cands:
                r = p.Login(s, utype, c)
                okk = r["rv"] == 0
                if okk:
                    p.Logout(s)
                ctx.count("login_probes")
                should = cur is not None and c == cur
                if okk and not should:
                    kind = "previous-pin" if any(c == PINS[x] for x in m.prev) else ("prefix" if cur and cur.startswith(c) else ("extension" if cur and c.startswith(cur) else
                           ("other-users-pin" if (m.user[t] if utype == C.CKU_SO else m.so[t]) and c == PINS[(m.user[t] if utype == C.CKU_SO else m.so[t])] else
                            ("one-bit-neighbour" if cur and len(c) == len(cur) else "other"))))
                    raise Violation("C04|%s|%s|login-accepted-with-%s|uninitialised=%s" % (where, uname, kind, cur is None), {"candidate": c, "current": cur, "token": t})
                if should and not okk:
                    raise Violation("C04|%s|%s|current-pin-rejected|len=%d" % (where, uname, len(cur)), {"current": cur, "rv": r["rv"], "token": t})
                ctx.count("login_ok" if okk else "login_refused")
        # private objects still readable with their original values
        if t == "A" and m.user[t] is not None and m.objects:
            r = p.Login(s, C.CKU_USER, PINS[m.user[t]])
            if r["rv"] == 0:
                for label, want in ((b"c04-key", SECRET_VALUE), (b"c04-data", DATA_VALUE)):
                    hs = p.FindAll(s, [(C.CKA_LABEL, label)]).get("hs", [])
                    if len(hs) != 1:
                        raise Violation("C04|%s|private-object-lost" % where, {"label": label, "found": hs})
                    rv, val = p.get_attr(s, hs[0], C.CKA_VALUE)
                    if rv != 0 or val != want:
                        raise Violation("C04|%s|private-object-unreadable-after-pin-change" % where, {"label": label, "rv": rv, "value": val})
                    ctx.count("private_values_read")
                p.Logout(s)
        p.CloseSession(s)

    def full_probe(self, ctx, m, t):
        p, sh = ctx.p, ctx.sh
        d0 = sh.depth
        sh.snap()
        try:
            self.login_probe(ctx, p, m, t, True, "same-instance")
        finally:
            sh.unwind(d0)
        sh.snap()
        try:
            W.ok(p.Finalize(), "final")
            W.ok(p.Initialize(), "init")
            self.login_probe(ctx, p, m, t, True, "after-reinitialise")
            # a brand-new process image on a copy of the directory as it is now (the library is finalised first so that nothing is buffered)
            p.Finalize()
            src = sh.pwd()
            dst = src + ".newproc"
            shutil.copytree(src, dst)
            try:
                sh2 = P.Shell(ctx.variant, dst)
                try:
                    p2 = P.P11(sh2)
                    W.ok(p2.Initialize(), "init newproc")
                    self.login_probe(ctx, p2, m, t, False, "new-process")
                finally:
                    sh2.close()
            finally:
                shutil.rmtree(dst, ignore_errors=True)
        finally:
            sh.unwind(d0)

    # ---- step
    def session_in_mode(self, ctx, m, t, mode):
        p = ctx.p
        s = W.ok(p.OpenSession(ctx.world["slots"][t]), "open")["h"]
        if mode == "user":
            if m.user[t] is None or p.Login(s, C.CKU_USER, PINS[m.user[t]])["rv"] != 0:
                p.CloseSession(s)
                return None
        elif mode == "so":
            if p.Login(s, C.CKU_SO, PINS[m.so[t]])["rv"] != 0:
                raise Violation("C04|setup|current-so-pin-rejected", {"pin": PINS[m.so[t]]})
        return s

    def step(self, ctx, m, a):
        p = ctx.p
        k = a[0]
        minp, maxp = ctx.world["minpin"], ctx.world["maxpin"]
        if k == "initpin":
            _, t, new = a
            s = self.session_in_mode(ctx, m, t, "so")
            r = p.InitPIN(s, PINS[new])
            p.Logout(s); p.CloseSession(s)
            if r["rv"] == 0:
                if not (minp <= len(PINS[new]) <= maxp):
                    raise Violation("C04|initpin|accepted-pin-outside-advertised-range|len=%d" % len(PINS[new]), {"new": PINS[new]})
                m.user[t] = new
                m.prev.add(new)
                ctx.count("initpin_ok")
                self.full_probe(ctx, m, t)
            else:
                ctx.count("initpin_refused")
                self.login_probe(ctx, p, m, t, False, "after-rejected-initpin")
            return m
        if k == "initpin-not-so":
            _, t, mode = a
            s = self.session_in_mode(ctx, m, t, mode)
            if s is None:
                return m
            r = p.InitPIN(s, PINS["p2"])
            if mode == "user":
                p.Logout(s)
            p.CloseSession(s)
            if r["rv"] == 0:
                raise Violation("C04|initpin|accepted-outside-so-session|%s" % mode, {})
            ctx.count("initpin_refused")
            self.login_probe(ctx, p, m, t, False, "after-rejected-initpin")
            return m
        if k == "setpin":
            _, t, mode, old, new = a
            s = self.session_in_mode(ctx, m, t, mode)
            if s is None:
                return m
            if mode == "so":
                cur, other = m.so[t], m.user[t]
            else:
                cur, other = m.user[t], m.so[t]
            oldb = PINS[cur] if (old == "right" and cur is not None) else (W.WRONG if old == "wrong" or other is None else PINS[other])
            if old == "right" and cur is None:
                oldb = PINS["p1"]
            r = p.SetPIN(s, oldb, PINS[new])
            if mode != "public":
                p.Logout(s)
            p.CloseSession(s)
            allowed = old == "right" and cur is not None and (minp <= len(PINS[new]) <= maxp) and oldb == PINS[cur]
            if old == "other" and other is not None and cur is not None and PINS[other] == PINS[cur]:
                allowed = minp <= len(PINS[new]) <= maxp
            if r["rv"] == 0:
                if not allowed:
                    why = "wrong-old-pin" if not (cur is not None and oldb == PINS[cur]) else "new-pin-outside-advertised-range"
                    raise Violation("C04|setpin|%s|accepted-%s|newlen=%d" % (mode, why, len(PINS[new])), {"old": oldb, "new": PINS[new], "current": PINS[cur] if cur else None})
                if mode == "so":
                    m.so[t] = new
                else:
                    m.user[t] = new
                m.prev.add(new)
                ctx.count("setpin_ok")
                self.full_probe(ctx, m, t)
            else:
                ctx.count("setpin_refused_permitted" if allowed else "setpin_refused")
                self.login_probe(ctx, p, m, t, False, "after-rejected-setpin")
            return m
        if k == "reinit":
            _, t, pk = a
            r = p.InitToken(ctx.world["slots"][t], PINS[m.so[t]] if pk == "right" else W.WRONG, t)
            if r["rv"] == 0:
                if pk != "right":
                    raise Violation("C04|reinit|accepted-with-wrong-so-pin", {})
                m.user[t] = None
                if t == "A":
                    m.objects = False
                ctx.count("reinit_ok")
                self.full_probe(ctx, m, t)
            else:
                ctx.count("reinit_refused")
                self.login_probe(ctx, p, m, t, False, "after-rejected-reinit")
            return m
        if k == "inittoken-free":
            sm = W.slot_map(p)
            r = p.InitToken(sm["free"], PINS[a[1]], "C")
            if r["rv"] == 0:
                ctx.world = dict(ctx.world)
                ctx.world["slots"] = dict(ctx.world["slots"], C=sm["free"])
                m.tokens.append("C")
                m.so["C"] = a[1]
                m.user["C"] = None
                m.prev.add(a[1])
                self.full_probe(ctx, m, "C")
            return m
        raise RuntimeError(a)

    def key(self, ctx, m):
        # the token flags the library reports (PIN-count warnings after failed attempts) are state the model does not carry: part of the key
        slots = ctx.world["slots"]
        flags = tuple(ctx.p.GetTokenInfo(slots[t]).get("flags") for t in ("A", "B") if t in slots)
        return (tuple(sorted(m.so.items())), tuple(sorted(m.user.items(), key=lambda x: x[0])), tuple(sorted(m.prev)), m.objects, flags)

    def died_sig(self, action, d):
        return "C04|%s|%r" % (action[0] if action else None, d.info)


def main(tier):
    rep = Report("C04", tier, "model_checking")
    quick = tier == "quick"
    variant = "ossl-asan" if quick else "ossl-plain"
    deadline = time.time() + (600 if quick else 1700)
    kw = dict(news=("p2", "min", "max", "short", "long", "empty", "nul", "pfx", "so1")) if quick else dict()
    depth = 2 if quick else 3
    ex = Explorer(C04(**kw), variant=variant, deadline=deadline)
    try:
        fix = ex.bfs(depth)
        done = fix or ex.stats["depth_completed"] >= depth
        confirm_violations(ex, rep)
        st = ex.stats
        c = st["counters"]
        if not c.get("login_ok") or not c.get("setpin_ok") or not c.get("private_values_read"):
            rep.harness_errors.append("vacuous: %r" % c)
        rep.coverage = {"states": st["states"], "transitions": st["transitions"], "traces_validated_against_impl": st["states"],
                        "samples": ex.samples[:4], "exhaustive": bool(done), "levels": st["levels"], "depth_bound": depth, "outcome_counters": c, "variant": variant,
                        "login_probes": c.get("login_probes", 0),
                        "rule": "histories of PIN changes up to the depth bound, merged on (SO PIN, user PIN, set of PINs ever used); every accepted change is "
                                "followed by the full iff login probe in the same instance, after re-initialisation and in a new process; every rejected "
                                "attempt by a reduced probe"}
        rep.assumptions = ["PIN alphabet and candidate construction as in the check source (the space of all byte strings <= 256 is not enumerable)"]
    finally:
        ex.close()
    return rep.finish()
