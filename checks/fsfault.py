"""File-system fault clauses of C05 and C09 (DESIGN.md 3/C05, 3/C09, 2.4): exhaustive single-fault enumeration on the real library.

For every object-management call of the list below the real library runs under fsx (ptrace).  A first traced run records the
file-system syscalls the call issues (open/creat, read, write, ftruncate, unlink, fsync, fcntl locks ... on the token directory).
Then, for EVERY one of these syscalls and every errno that syscall can realistically return, the call is repeated on a fresh copy
of the world with exactly that syscall failing (it is not executed, the errno is returned).  Judged:
  C09 clause - the call returned an error: the object set and every attribute value as seen by another session of the same process
               and by a fresh process are exactly what they were before, and no additional object file is left in the directory;
  C05 clause - the call returned CKR_OK: a fresh process sees exactly what the calling process sees after the call (the effect was
               persisted), and the objects the fault-free run creates / destroys are created / destroyed.
"""
import errno, json, os, shutil, traceback
from p11mc import consts as C
from p11mc import core, p11 as P
from p11mc import world as W, snapshot as S
import c16_crash as X

CALLS = ["create-private-key", "create-big-data", "set-attribute", "set-attribute-shorter", "destroy", "copy", "generate-key", "generate-key-pair", "unwrap", "derive"]
QUICK_CALLS = ["create-private-key", "set-attribute", "destroy", "copy", "generate-key", "unwrap"]
ERRNOS = {
    "open": ["EACCES", "ENOSPC", "EMFILE"], "openat": ["EACCES", "ENOSPC", "EMFILE"], "creat": ["EACCES", "ENOSPC"],
    "write": ["ENOSPC", "EIO"], "pwrite64": ["ENOSPC", "EIO"], "writev": ["ENOSPC", "EIO"],
    "read": ["EIO"], "ftruncate": ["EIO"], "truncate": ["EIO"], "unlink": ["EACCES"], "unlinkat": ["EACCES"],
    "fsync": ["EIO"], "fdatasync": ["EIO"], "fcntl": ["ENOLCK"], "mkdir": ["ENOSPC"], "rename": ["EACCES"], "getdents64": [], "close": [], "fchmod": [], "chmod": [],
}
PINS = {"A": {"so": [("old", W.SO_A)], "user": [("old", W.USER_A)]}, "B": {"so": [("old", W.SO_B)], "user": [("old", W.USER_B)]}}


def role_of(path):
    base = os.path.basename(path or "")
    return "token.object" if base == "token.object" else ("lock-file" if base.endswith(".lock") else ("generation-file" if base == "generation" else ("object-file" if base.endswith(".object") else ("directory" if not base or "." not in base else "other"))))


def view(p, s):
    """all objects visible in session s: label -> sorted attribute tuple (None when the search fails)"""
    r = p.FindAll(s)
    if r["rv"] != 0:
        return None
    hs = sorted(r.get("hs", []))
    rows = S.read_objects(p, s, hs)
    out = {}
    for i, h in enumerate(hs):
        d = dict(rows[h])
        lb = d.get(C.CKA_LABEL)
        key = lb if isinstance(lb, bytes) and lb else b"<no-label-%d>" % i
        while key in out:
            key += b"'"
        out[key] = tuple(sorted((a, v) for a, v in rows[h] if v is not None and v != ("unavailable",)))
    return out


def object_files(sd):
    out = []
    for dp, dn, fn in os.walk(os.path.join(sd, "tokens")):
        out += [os.path.relpath(os.path.join(dp, f), sd) for f in fn if f.endswith(".object")]
    return sorted(out)


def diff_class(after, before):
    if after is None:
        return "search-fails"
    lost = [k for k in before if k not in after]
    new = [k for k in after if k not in before]
    if lost and new:
        return "objects-lost-and-appeared"
    if lost:
        return "object-lost"
    if new:
        return "object-appeared" + ("-without-label" if any(k.startswith(b"<no-label") for k in new) else "")
    if any(after[k] != before[k] for k in before):
        return "attribute-values-changed"
    return None


def traced_call(ctx, world, cname, fsxargs, sd):
    """set up a process under fsx, run the call inside the marked window, return (rv, view before, view after) - views through a second session"""
    spec = X.call_specs(world)[cname]
    sh = X.FsxShell(ctx.variant, sd, fsxargs)
    p = P.P11(sh)
    try:
        W.ok(p.Initialize(), "init")
        s = W.ok(p.OpenSession(world["slots"]["A"]), "open")["h"]
        s2 = W.ok(p.OpenSession(world["slots"]["A"]), "open 2")["h"]
        W.ok(p.Login(s, C.CKU_USER, W.USER_A), "login")
        v0 = view(p, s2)
        line = spec["line"](p, s)
        sh.cmd("MARK n=1")
        r = p.call(line)
        sh.cmd("MARK n=2")
        v1 = view(p, s2)
        p.Finalize()
        return r["rv"], v0, v1
    finally:
        sh.close()


NCHUNKS = 4


def _task(task):
    """one call, every NCHUNKS-th recorded syscall starting at `ci` (the record pass is repeated per chunk: it is cheap)"""
    cname, ci = task
    ctx = core._W["ctx"]
    world = core._W["template"]["world"]
    out = {"viol": {"C05": {}, "C09": {}}, "harness": None, "call": cname, "syscalls": 0, "faults": 0, "errors_returned": 0, "ok_returned": 0, "died": 0}
    work = os.path.join(ctx.root, "fsf-%s-%d" % (cname, ci))
    shutil.rmtree(work, ignore_errors=True)

    def V(prop, sig, det):
        out["viol"][prop].setdefault(sig, {"signature": sig, "detail": det, "task": ["fsfault", cname, det.get("k"), det.get("errno")], "history": [], "action": None})
    try:
        # pristine observation and the fault-free run
        sd0 = os.path.join(work, "old", "d0")
        shutil.copytree(core._W["template"]["dir"], sd0)
        files0 = object_files(sd0)
        old = X.observe(ctx.variant, sd0, world, PINS)
        oldA = {k: v for k, v in old["tokens"]["A"]["objects"].items() if k != b"post-crash"}
        oldB = {k: v for k, v in old["tokens"]["B"]["objects"].items() if k != b"post-crash"}
        sdc = os.path.join(work, "clean", "d0")
        shutil.copytree(core._W["template"]["dir"], sdc)
        log = os.path.join(work, "record.jsonl")
        rv_clean, v0c, v1c = traced_call(ctx, world, cname, ["record", log], sdc)
        if rv_clean != 0:
            raise RuntimeError("fault-free run of %s returned %s" % (cname, P.rvname(rv_clean)))
        clean = X.observe(ctx.variant, sdc, world, PINS)
        cleanA = {k: v for k, v in clean["tokens"]["A"]["objects"].items() if k != b"post-crash"}
        sys_list = [json.loads(l) for l in open(log)]
        out["syscalls"] = len(sys_list)
        for si, sc in enumerate(sys_list):
            if ci >= 0 and si % NCHUNKS != ci:
                continue
            k = sc["n"]
            for en in ERRNOS.get(sc["sys"], []):
                if en == "ENOSPC" and sc["sys"] in ("open", "openat") and not (sc.get("flags", 0) & (os.O_CREAT)):
                    continue
                out["faults"] += 1
                sd = os.path.join(work, "run", "d0")
                shutil.rmtree(os.path.dirname(sd), ignore_errors=True)
                shutil.copytree(core._W["template"]["dir"], sd)
                where = "%s(%s)-fails" % (sc["sys"], role_of(sc.get("path")))       # the errno is in the detail: the library only sees "failed"
                det = {"k": k, "errno": en, "syscall": sc}
                try:
                    rv, v0, v1 = traced_call(ctx, world, cname, ["fault", str(k), str(getattr(errno, en))], sd)
                except P.Died as d:
                    out["died"] += 1
                    V("C09", "C09|fs-fault|%s|%s|process-died" % (cname, where), dict(det, died=d.info))
                    continue
                except RuntimeError as e:
                    # the fault hit a set-up call?  it cannot: faults are injected inside the window only
                    raise
                files1 = object_files(sd)
                ob = X.observe(ctx.variant, sd, world, PINS)
                det["rv"] = P.rvname(rv)
                fresh_ok = not ob["died"] and ob["init_rv"] == 0 and ob["tokens"].get("A") and ob["tokens"]["A"]["objects"] is not None and ob["tokens"]["A"]["logged_in_as"]
                freshA = {kk: v for kk, v in ob["tokens"]["A"]["objects"].items() if kk != b"post-crash"} if fresh_ok else None
                freshB = {kk: v for kk, v in ob["tokens"]["B"]["objects"].items() if kk != b"post-crash"} if (fresh_ok and ob["tokens"].get("B") and ob["tokens"]["B"]["objects"] is not None) else None
                if rv != 0:
                    out["errors_returned"] += 1
                    base = "C09|fs-fault|%s|%s|error-returned" % (cname, where)
                    seen = []
                    d1 = diff_class(v1, v0)
                    if d1:
                        seen.append("other-session-sees-" + d1)
                    if not fresh_ok:
                        seen.append("token-unusable-for-a-fresh-process")
                        det.update(died=ob["died"], init_rv=ob["init_rv"])
                    else:
                        d2 = diff_class(freshA, oldA)
                        if d2:
                            seen.append("fresh-process-sees-" + d2)
                        if freshB is None or diff_class(freshB, oldB):
                            seen.append("other-token-changed")
                        if len(files1) > len(files0) and not d2:
                            seen.append("object-file-left-on-disk")
                            det["files"] = [f for f in files1 if f not in files0]
                    if seen:
                        V("C09", base + "|" + ",".join(seen), det)
                else:
                    out["ok_returned"] += 1
                    base = "C05|fs-fault|%s|%s|returned-CKR_OK" % (cname, where)
                    if not fresh_ok:
                        V("C05", base + "|token-unusable-for-a-fresh-process", dict(det, died=ob["died"], init_rv=ob["init_rv"]))
                    else:
                        d3 = diff_class(freshA, v1 if v1 is not None else {})
                        if d3:
                            V("C05", base + "|effect-not-persisted|fresh-process-vs-caller:" + d3, det)
                        elif set(freshA) != set(cleanA):
                            V("C05", base + "|effect-differs-from-fault-free-run|" + ("object-missing" if set(cleanA) - set(freshA) else "extra-object"), det)
    except Exception:
        out["harness"] = "task %r: %s" % (task, traceback.format_exc())
    finally:
        shutil.rmtree(work, ignore_errors=True)
    for prop in ("C05", "C09"):
        out["viol"][prop] = list(out["viol"][prop].values())
    return out


def _one(task):
    """replay of one (call, k, errno)"""
    _kind, cname, k, en = task
    # run the whole call task and keep what belongs to this injection: the enumeration is cheap and the record pass is needed anyway
    r = _task((cname, -1))
    return r


def run(prop, tier, rep):
    """execute the enumeration, add the violations of `prop` to rep (replayed once), return the coverage dict"""
    ex = core.Explorer(X.C16(), variant="ossl-plain")
    cov = {"calls": [], "faults_injected": 0, "errors_returned": 0, "ok_returned": 0}
    try:
        calls = QUICK_CALLS if tier == "quick" else CALLS
        res = ex.pool.map(_task, [(c, ci) for c in calls for ci in range(NCHUNKS)], chunksize=1)
        found = {}
        per = {}
        for r in res:
            if r["harness"]:
                rep.harness_errors.append(r["harness"])
            for v in r["viol"][prop]:
                found.setdefault(v["signature"], v)
            pc = per.setdefault(r["call"], {"call": r["call"], "fs_syscalls_in_call": r["syscalls"], "faults_injected": 0, "error_returned": 0, "ok_returned": 0})
            pc["faults_injected"] += r["faults"]; pc["error_returned"] += r["errors_returned"]; pc["ok_returned"] += r["ok_returned"]
            cov["faults_injected"] += r["faults"]
            cov["errors_returned"] += r["errors_returned"]
            cov["ok_returned"] += r["ok_returned"]
        cov["calls"] = [per[c] for c in calls if c in per]
        # replay before report: run the call's enumeration again and require the same signature
        again = {}
        redo = sorted({v["task"][1] for v in found.values()})
        for rr in ex.pool.map(_task, [(c, ci) for c in redo for ci in range(NCHUNKS)], chunksize=1):
            again.setdefault(rr["call"], set()).update(v["signature"] for v in rr["viol"][prop])
        for sig, v in sorted(found.items()):
            if sig in again.get(v["task"][1], ()):
                v = dict(v); v.update(variant="ossl-plain", store="file", replay_module="fsfault", property=prop)
                rep.add_violation(v)
            else:
                rep.harness_errors.append("fs-fault violation %s did not reproduce" % sig)
    finally:
        ex.close()
    if cov["faults_injected"] < 50:
        rep.harness_errors.append("vacuous fs-fault enumeration: %r" % cov)
    return cov


def replay(rec):
    import sys
    sys.path.insert(0, P.VERIF + "/tools")
    import build_sut
    build_sut.build("ossl-plain")
    build_sut.build_fsx()
    check = X.C16()
    root = P.scratch_root()
    try:
        template = core.build_template(check, "ossl-plain", "file", root)
        core._worker_init(check, "ossl-plain", "file", template, root)
        r = _task((rec["task"][1], -1))
        core._W["ctx"].stop_shell()
        prop = rec.get("property", rec["signature"][:3])
        sigs = [v["signature"] for v in r["viol"][prop]]
        print("recorded:", rec["signature"], "\nobserved for this call:", len(sigs))
        if rec["signature"] in sigs:
            print("VIOLATION property=%s replay=%s" % (prop, sys.argv[1]))
            return 1
        return 0
    finally:
        shutil.rmtree(root, ignore_errors=True)
