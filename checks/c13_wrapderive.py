"""C13 - wrap, unwrap and derive produce exactly the specified keys (DESIGN.md 3/C13).

Exhaustive grid on the real library against the independent reference (Botan via refsh, pure-Python arithmetic):
wrap mechanism x wrapping key x wrapped key (every secret length incl. non-block-multiples, every private key type) x IV x
output-buffer protocol; unwrap of the token's own blob and of a blob produced by the REFERENCE into several templates; every
truncation and every single-byte corruption of valid blobs (malformed exactly when the reference rejects it); derivations
(DH, ECDH x3 incl. leading-zero peers, X25519, *_ENCRYPT_DATA, three CONCATENATE mechanisms) x requested type/length incl. too
long; CKA_CHECK_VALUE of every secret key produced.
"""
import hashlib, os, time, traceback
from p11mc import consts as C
from p11mc.core import CheckBase, Explorer, Violation, Died
from p11mc import core
from p11mc.runner import Report
from p11mc import world as W, fixtures as F
from p11mc.ref import Ref
from p11mc.p11 import Out, Null, tpl, mech, blob, ul, oaep_params, ecdh_params, keyderiv_string, cbc_encrypt_data_params

IVS = {"zero": bytes(16), "counter": bytes(range(16)), "ff": b"\xff" * 16}
SECRET_KINDS = ["aes128", "aes192", "aes256", "des3", "des2"] + ["generic%d" % n for n in (1, 20, 32, 64, 129)]
EXTRA_GENERIC = [7, 8, 9, 15, 16, 17]
PRIV_KINDS = ["rsa1024_priv", "dsa_priv", "dh_priv", "ec256_priv", "ed25519_priv"]
POST = [C.CKA_CLASS, C.CKA_KEY_TYPE, C.CKA_VALUE, C.CKA_LOCAL, C.CKA_ALWAYS_SENSITIVE, C.CKA_NEVER_EXTRACTABLE, C.CKA_CHECK_VALUE, C.CKA_VALUE_LEN]


def gen_value(n):
    return bytes((i * 7 + 3) & 0xFF for i in range(n))


def secret_template(kind, extra=()):
    if kind.startswith("generic") and int(kind[7:]) not in F.GENERIC:
        n = int(kind[7:])
        return [(C.CKA_CLASS, C.CKO_SECRET_KEY), (C.CKA_KEY_TYPE, C.CKK_GENERIC_SECRET), (C.CKA_VALUE, gen_value(n)), (C.CKA_TOKEN, False), (C.CKA_PRIVATE, False),
                (C.CKA_SENSITIVE, False), (C.CKA_EXTRACTABLE, True)] + list(extra)
    return F.template(kind, token=False, private=False, label=b"w", extra=list(extra))


def value_of(kind):
    return dict(secret_template(kind))[C.CKA_VALUE]


def odd_parity(b):
    out = bytearray()
    for x in b:
        x &= 0xFE
        out.append(x | (0 if bin(x).count("1") % 2 else 1))
    return bytes(out)


def kcv(ref, ktype, value):
    if ktype == C.CKK_AES:
        return ref.out("BLOCK", alg="AES-%d" % (len(value) * 8), key=value, **{"in": bytes(16)})[:3]
    if ktype in (C.CKK_DES2, C.CKK_DES3):
        v = value + value[:8] if len(value) == 16 else value
        return ref.out("BLOCK", alg="TripleDES", key=v, **{"in": bytes(8)})[:3]
    if ktype == C.CKK_GENERIC_SECRET:
        # PKCS#11 v2.40, generic secret key objects: the first three bytes of the SHA-1 hash of the object's CKA_VALUE (i.e. of the value as stored,
        # after it was cut to the requested length)
        import hashlib
        return hashlib.sha1(value).digest()[:3]
    return None


class C13(CheckBase):
    ID = "C13"

    def __init__(self):
        self.kw = {}

    def world(self, ctx):
        return W.two_tokens(ctx)

    def setup(self, ctx, world):
        p = ctx.p
        W.ok(p.Initialize(), "init")
        s = W.ok(p.OpenSession(world["slots"]["A"]), "open")["h"]
        W.ok(p.Login(s, C.CKU_USER, W.USER_A), "login")
        return {"s": s}


class Cell:
    def __init__(self, ctx, task):
        self.ctx, self.task, self.viol = ctx, task, {}

    def V(self, sig, det=None):
        self.viol.setdefault(sig, {"signature": sig, "detail": det, "task": list(self.task), "history": [], "action": None})

    def count(self, k, n=1):
        self.ctx.count(k, n)


def check_kcv(cell, p, s, ref, h, how):
    r = p.get_attrs(s, h, [C.CKA_KEY_TYPE, C.CKA_VALUE, C.CKA_CHECK_VALUE])
    cv, kt, val = r.get(C.CKA_CHECK_VALUE), r.get(C.CKA_KEY_TYPE), r.get(C.CKA_VALUE)
    if isinstance(cv, bytes) and len(cv) > 0 and isinstance(val, bytes):
        want = kcv(ref, kt, val)
        cell.count("check_values_seen")
        if want is not None:
            if cv != want:
                cell.V("C13|check-value|%s|%s|not-the-standard-check-value" % (how, C.CKK_NAMES.get(kt, hex(kt))), {"token": cv, "standard": want})
            else:
                cell.count("check_values_equal_reference")


def ref_unwrap(ref, wname, wkey, iv, data, rsa=None):
    """decode a blob with the reference -> plaintext | None"""
    if wname == "aes-key-wrap":
        return ref.try_out("KEYWRAP", dir="unwrap", pad="0", kek=wkey, **{"in": data}) if len(data) >= 24 and len(data) % 8 == 0 else None
    if wname == "aes-key-wrap-pad":
        return ref.try_out("KEYWRAP", dir="unwrap", pad="1", kek=wkey, **{"in": data}) if len(data) >= 16 and len(data) % 8 == 0 else None
    if wname == "aes-cbc-pad":
        return ref.try_out("CIPHER", alg="AES-%d/CBC/PKCS7" % (len(wkey) * 8), dir="dec", key=wkey, iv=iv, **{"in": data}) if data and len(data) % 16 == 0 else None
    if wname == "rsa-pkcs":
        return ref.try_out("PKDEC", pad="EME-PKCS1-v1_5", **dict(rsa, **{"in": data}))
    if wname == "rsa-oaep":
        return ref.try_out("PKDEC", pad="OAEP(SHA-1)", **dict(rsa, **{"in": data}))
    raise KeyError(wname)


def ref_wrap(ref, wname, wkey, iv, pt, rsa=None):
    if wname == "aes-key-wrap":
        return ref.try_out("KEYWRAP", dir="wrap", pad="0", kek=wkey, **{"in": pt}) if len(pt) % 8 == 0 and len(pt) >= 16 else None
    if wname == "aes-key-wrap-pad":
        return ref.try_out("KEYWRAP", dir="wrap", pad="1", kek=wkey, **{"in": pt})
    if wname == "aes-cbc-pad":
        return ref.try_out("CIPHER", alg="AES-%d/CBC/PKCS7" % (len(wkey) * 8), dir="enc", key=wkey, iv=iv, **{"in": pt})
    pub = {k: v for k, v in rsa.items() if k in ("type", "n", "e")}
    return ref.try_out("PKENC", pad="EME-PKCS1-v1_5" if wname == "rsa-pkcs" else "OAEP(SHA-1)", **dict(pub, **{"in": pt}))


def wmech(wname, iv):
    return {"aes-key-wrap": mech(C.CKM_AES_KEY_WRAP), "aes-key-wrap-pad": mech(C.CKM_AES_KEY_WRAP_PAD), "aes-cbc-pad": mech(C.CKM_AES_CBC_PAD, iv),
            "rsa-pkcs": mech(C.CKM_RSA_PKCS), "rsa-oaep": mech(C.CKM_RSA_PKCS_OAEP, oaep_params())}[wname]


def openssl_pkcs8(der):
    """parse a PKCS#8 blob with the openssl command line tool (used for PKCS#3 DH keys only)"""
    import subprocess, re
    r = subprocess.run(["openssl", "pkey", "-inform", "DER", "-noout", "-text"], input=der, stdout=subprocess.PIPE, stderr=subprocess.PIPE)
    if r.returncode != 0:
        return {"ok": False, "err": r.stderr.decode()[:200]}
    txt = r.stdout.decode()
    m = re.search(r"private-key:\s*((?:\s*[0-9a-f]{2}:?)+)", txt)
    x = re.sub(r"[^0-9a-f]", "", m.group(1)) if m else ""
    return {"ok": True, "algo": "DH", "x": x}


def priv_numbers(kind):
    k = F.KEYS
    if kind.startswith("rsa"):
        r = k[kind[:-5]]
        return {"algo": "RSA", "d": r["d"], "n": r["n"]}
    if kind == "dsa_priv":
        return {"algo": "DSA", "x": k["dsa1024"]["x"]}
    if kind == "dh_priv":
        return {"algo": "DH", "x": k["dh1024"]["x"]}
    if kind.startswith("ec"):
        return {"algo": "ECDSA", "x": k[kind[:-5]]["value"]}
    return {"algo": "Ed25519", "x": k["ed25519"]["value"]}


def task_wrap(cell, p, s, ref, wname, wkind, quick):
    rsa = None
    if wname.startswith("rsa"):
        kk = F.KEYS[wkind]
        rsa = dict(type="rsa", n=F.H(kk["n"]), e=F.H(kk["e"]), d=F.H(kk["d"]), p=F.H(kk["p"]), q=F.H(kk["q"]))
        wk_pub = W.ok(p.CreateObject(s, F.template(wkind + "_pub", token=False, private=False, label=b"wk", extra=[(C.CKA_WRAP, True)])), "wkpub")["h"]
        wk_prv = W.ok(p.CreateObject(s, F.template(wkind + "_priv", token=False, private=False, label=b"wk", extra=[(C.CKA_UNWRAP, True)])), "wkprv")["h"]
        wkey = None
        maxpt = len(rsa["n"]) - (11 if wname == "rsa-pkcs" else 42)
    else:
        wkey = {"aes128": F.AES128, "aes192": F.AES192, "aes256": F.AES256}[wkind]
        wk_pub = wk_prv = W.ok(p.CreateObject(s, F.template(wkind, token=False, private=False, label=b"wk", extra=[(C.CKA_WRAP, True), (C.CKA_UNWRAP, True)])), "wk")["h"]
        maxpt = 1 << 20
    kinds = SECRET_KINDS + ["generic%d" % n for n in EXTRA_GENERIC] + (PRIV_KINDS if not wname.startswith("rsa") and wname != "aes-key-wrap" else [])
    ivs = ["counter"] if (wname != "aes-cbc-pad") else (["counter", "ff"] if quick else sorted(IVS))
    vt = "%s|%s" % (wname, wkind)
    for kind in kinds:
        secret = not kind.endswith("_priv")
        if secret:
            T = secret_template(kind)
            value = value_of(kind)
            if len(value) > maxpt:
                continue
        else:
            T = F.template(kind, token=False, private=False, label=b"w")
            value = None
        src = W.ok(p.CreateObject(s, T), "src %s" % kind)["h"]
        if secret:
            check_kcv(cell, p, s, ref, src, "create")
        cls, kt = dict(T)[C.CKA_CLASS], dict(T)[C.CKA_KEY_TYPE]
        for ivn in ivs:
            iv = IVS[ivn]
            ms = wmech(wname, iv)
            q = p.call("C_WrapKey s=%d mech=%s wk=%d k=%d out=n0" % (s, ms, wk_pub, src))
            cell.count("cells")
            if q["rv"] != 0:
                cell.count("wrap_refused:%s" % ("non-multiple-of-8" if secret and len(value) % 8 else kind.split("_")[0]))
                continue
            need = q["len"]
            if need > 0:
                r = p.call("C_WrapKey s=%d mech=%s wk=%d k=%d out=b%d" % (s, ms, wk_pub, src, need - 1))
                if r["rv"] != C.CKR_BUFFER_TOO_SMALL or r.get("wmax", 0) > need - 1:
                    cell.V("C13|%s|wrap|short-buffer-not-answered-with-BUFFER_TOO_SMALL" % vt, {"rv": r["rv"], "need": need, "kind": kind})
            r = p.call("C_WrapKey s=%d mech=%s wk=%d k=%d out=b%d" % (s, ms, wk_pub, src, need))
            if r["rv"] != 0:
                cell.V("C13|%s|wrap|refused-with-the-reported-length" % vt, {"rv": r["rv"], "need": need, "kind": kind})
                continue
            wrapped = bytes.fromhex(r["out"])[:r["len"]]
            # 1. the blob follows the standard: the reference decodes it
            pt = ref_unwrap(ref, wname, wkey, iv, wrapped, rsa)
            tag = "secret-len%%8=%d" % (len(value) % 8) if secret else kind.split("_")[0]
            if pt is None:
                cell.V("C13|%s|wrap|blob-rejected-by-reference|%s" % (vt, tag), {"kind": kind, "blob": wrapped, "iv": ivn})
                continue
            if secret:
                want_pt = value if wname != "aes-key-wrap" else value + bytes(-len(value) % 8)
                if pt != want_pt:
                    cell.V("C13|%s|wrap|blob-decodes-to-different-value|%s" % (vt, tag), {"kind": kind, "got": pt, "want": want_pt})
                    continue
            else:
                info = ref.call("PKCS8", **{"in": pt})
                nums = priv_numbers(kind)
                if not info.get("ok") and kind == "dh_priv":
                    info = openssl_pkcs8(pt)     # Botan 2 has no PKCS#3 (dhKeyAgreement) key type: second opinion from the openssl command line tool
                if not info.get("ok"):
                    cell.V("C13|%s|wrap|private-key-plaintext-is-not-PKCS8|%s" % (vt, tag), {"err": info.get("err")})
                    continue
                for f in ("d", "n", "x"):
                    if f in nums and int(info.get(f, "0") or "0", 16) != int(nums[f], 16):
                        cell.V("C13|%s|wrap|PKCS8-holds-different-key|%s" % (vt, tag), {"field": f})
            cell.count("blobs_decoded_by_reference")
            if wname in ("aes-key-wrap", "aes-key-wrap-pad", "aes-cbc-pad"):
                again = ref_wrap(ref, wname, wkey, iv, pt, rsa)
                if again is not None and again != wrapped:
                    cell.V("C13|%s|wrap|deterministic-blob-differs-from-reference|%s" % (vt, tag), {"kind": kind, "token": wrapped, "reference": again})
            # 2. unwrap: own blob and the reference's blob, several templates
            rblob = ref_wrap(ref, wname, wkey, IVS["ff"] if wname == "aes-cbc-pad" else iv, pt, rsa)
            for origin, data, uiv in (("own", wrapped, iv), ("reference", rblob, IVS["ff"] if wname == "aes-cbc-pad" else iv)):
                if data is None:
                    continue
                for tname, extra in (("minimal", []), ("flags", [(C.CKA_ENCRYPT, True), (C.CKA_LABEL, b"unwrapped"), (C.CKA_ID, b"uid")] if secret else [(C.CKA_SIGN, True), (C.CKA_LABEL, b"unwrapped")]),
                                     ("token-private", [(C.CKA_TOKEN, True), (C.CKA_PRIVATE, True)])):
                    if quick and tname == "token-private" and origin == "own":
                        continue
                    UT = [(C.CKA_CLASS, cls), (C.CKA_KEY_TYPE, kt), (C.CKA_SENSITIVE, False), (C.CKA_EXTRACTABLE, True)] + ([(C.CKA_TOKEN, False), (C.CKA_PRIVATE, False)] if tname != "token-private" else []) + extra
                    r = p.UnwrapKey(s, wmech(wname, uiv), wk_prv, data, UT)
                    cell.count("cells")
                    if r["rv"] != 0:
                        cell.V("C13|%s|unwrap-%s-blob|refused|%s" % (vt, origin, tag), {"rv": r["rv"], "template": tname, "kind": kind})
                        continue
                    got = p.get_attrs(s, r["h"], POST + [t for t, v in extra])
                    if got.get(C.CKA_CLASS) != cls or got.get(C.CKA_KEY_TYPE) != kt:
                        cell.V("C13|%s|unwrap-%s-blob|class-or-type-wrong" % (vt, origin), {"kind": kind})
                    if secret:
                        want_v = value if wname != "aes-key-wrap" else value + bytes(-len(value) % 8)
                        if got.get(C.CKA_VALUE) != want_v:
                            cell.V("C13|%s|unwrap-%s-blob|value-differs|%s" % (vt, origin, tag), {"kind": kind, "got": got.get(C.CKA_VALUE), "want": want_v})
                        else:
                            cell.count("unwrapped_values_equal")
                        check_kcv(cell, p, s, ref, r["h"], "unwrap")
                    else:
                        comp = {"rsa": C.CKA_PRIVATE_EXPONENT}.get(kind[:3], C.CKA_VALUE)
                        wantc = dict(T)[comp]
                        rv2, gv = p.get_attr(s, r["h"], comp)
                        if gv is None or int.from_bytes(gv, "big") != int.from_bytes(wantc, "big"):
                            cell.V("C13|%s|unwrap-%s-blob|private-key-component-differs|%s" % (vt, origin, tag), {"kind": kind})
                        else:
                            cell.count("unwrapped_values_equal")
                    for a, nm in ((C.CKA_LOCAL, "CKA_LOCAL"), (C.CKA_ALWAYS_SENSITIVE, "CKA_ALWAYS_SENSITIVE"), (C.CKA_NEVER_EXTRACTABLE, "CKA_NEVER_EXTRACTABLE")):
                        if got.get(a) is not False:
                            cell.V("C13|%s|unwrap|%s-not-false" % (wname, nm), {"kind": kind, "value": got.get(a)})
                    for t, v in extra:
                        gv = got.get(t)
                        if gv != v:
                            cell.V("C13|%s|unwrap|template-attribute-not-carried|%s" % (wname, C.CKA_NAMES.get(t)), {"kind": kind, "got": gv, "want": v})
                    p.DestroyObject(s, r["h"])
            # 3. malformed blobs: every truncation and every single-byte change (first wrapped kind of each family, to bound the cost)
            if ivn == ivs[0] and kind in ("aes128", "generic20", "generic9", "ec256_priv", "generic1"):
                nbefore = len(p.FindAll(s).get("hs", []))
                UT = [(C.CKA_CLASS, cls), (C.CKA_KEY_TYPE, kt), (C.CKA_SENSITIVE, False), (C.CKA_EXTRACTABLE, True), (C.CKA_TOKEN, False), (C.CKA_PRIVATE, False)]
                muts = [("truncated", wrapped[:n]) for n in range(len(wrapped))]
                step = 1 if (len(wrapped) <= 64 or not quick) else 5
                for i in range(0, len(wrapped), step):
                    mb = bytearray(wrapped); mb[i] ^= 0x21
                    muts.append(("byte-changed", bytes(mb)))
                for mname, data in muts:
                    rpt = ref_unwrap(ref, wname, wkey, iv, data, rsa)
                    r = p.UnwrapKey(s, wmech(wname, iv), wk_prv, data, UT)
                    cell.count("malformed_cases")
                    if rpt is None:
                        cell.count("malformed_rejected_by_reference")
                        if r["rv"] == 0:
                            cell.V("C13|%s|unwrap|malformed-blob-accepted|%s|%s" % (vt, mname, tag), {"blob": data, "kind": kind})
                            p.DestroyObject(s, r["h"])
                    elif r["rv"] == 0:
                        if secret:
                            rv2, gv = p.get_attr(s, r["h"], C.CKA_VALUE)
                            exp = rpt if wname != "aes-key-wrap" else rpt
                            if gv != exp and not (kt == C.CKK_AES and len(rpt) not in (16, 24, 32)):
                                cell.V("C13|%s|unwrap|mutated-but-valid-blob-yields-value-different-from-reference|%s" % (vt, mname), {"got": gv, "reference": rpt})
                        p.DestroyObject(s, r["h"])
                if len(p.FindAll(s).get("hs", [])) != nbefore:
                    cell.V("C13|%s|unwrap|rejected-blob-left-an-object" % vt, {"kind": kind})
        p.DestroyObject(s, src)
    # wrap/unwrap templates
    if not wname.startswith("rsa") and wkind == "aes128":
        wt = W.ok(p.CreateObject(s, F.template("aes256", token=False, private=False, label=b"wt", extra=[(C.CKA_WRAP, True), (C.CKA_UNWRAP, True),
                  (C.CKA_WRAP_TEMPLATE, [(C.CKA_KEY_TYPE, C.CKK_AES), (C.CKA_ENCRYPT, True)]), (C.CKA_UNWRAP_TEMPLATE, [(C.CKA_SENSITIVE, False), (C.CKA_DECRYPT, False)])])), "wt")["h"]
        good = W.ok(p.CreateObject(s, secret_template("aes128", [(C.CKA_ENCRYPT, True)])), "good")["h"]
        bad1 = W.ok(p.CreateObject(s, secret_template("aes128", [(C.CKA_ENCRYPT, False)])), "bad1")["h"]
        bad2 = W.ok(p.CreateObject(s, secret_template("generic32", [])), "bad2")["h"]
        ms = wmech(wname, IVS["counter"])
        rg = p.call("C_WrapKey s=%d mech=%s wk=%d k=%d out=b200" % (s, ms, wt, good))
        cell.count("cells", 3)
        if rg["rv"] == 0:
            cell.count("wrap_template_match_ok")
        for nm, hh in (("flag-mismatch", bad1), ("type-mismatch", bad2)):
            r = p.call("C_WrapKey s=%d mech=%s wk=%d k=%d out=b200" % (s, ms, wt, hh))
            if r["rv"] == 0:
                cell.V("C13|%s|wrap-template|key-not-matching-CKA_WRAP_TEMPLATE-wrapped|%s" % (wname, nm), {})
        if rg["rv"] == 0:
            data = bytes.fromhex(rg["out"])[:rg["len"]]
            base = [(C.CKA_CLASS, C.CKO_SECRET_KEY), (C.CKA_KEY_TYPE, C.CKK_AES), (C.CKA_TOKEN, False), (C.CKA_PRIVATE, False), (C.CKA_EXTRACTABLE, True)]
            r = p.UnwrapKey(s, ms, wt, data, base)
            if r["rv"] == 0:
                g = p.get_attrs(s, r["h"], [C.CKA_SENSITIVE, C.CKA_DECRYPT])
                if g.get(C.CKA_SENSITIVE) is not False or g.get(C.CKA_DECRYPT) is not False:
                    cell.V("C13|%s|unwrap-template|CKA_UNWRAP_TEMPLATE-attributes-not-applied" % wname, {"got": g})
                else:
                    cell.count("unwrap_template_applied")
            r = p.UnwrapKey(s, ms, wt, data, base + [(C.CKA_DECRYPT, True)])
            if r["rv"] == 0:
                g = p.get_attrs(s, r["h"], [C.CKA_DECRYPT])
                if g.get(C.CKA_DECRYPT) is True:
                    cell.V("C13|%s|unwrap-template|template-conflicting-with-CKA_UNWRAP_TEMPLATE-won" % wname, {})
            # every caller template of one to four entries over the restricted attributes (agreeing and conflicting values, repeated attributes in both
            # orders, at the front and at the end): whenever the unwrap succeeds, every attribute named in CKA_UNWRAP_TEMPLATE reads the template's value
            ents = [(C.CKA_SENSITIVE, False), (C.CKA_SENSITIVE, True), (C.CKA_DECRYPT, False), (C.CKA_DECRYPT, True)]
            import itertools as _it
            extras = [list(x) for n_ in (1, 2, 3, 4) for x in _it.product(ents, repeat=n_)]       # (the library demands that every restricted attribute is named)
            for ex_ in extras:
                for front in (False, True):
                    T_ = (ex_ + base) if front else (base + ex_)
                    r = p.UnwrapKey(s, ms, wt, data, T_)
                    cell.count("cells")
                    if r["rv"] != 0:
                        cell.count("unwrap_template_conflict_refused")
                        continue
                    g = p.get_attrs(s, r["h"], [C.CKA_SENSITIVE, C.CKA_DECRYPT])
                    p.DestroyObject(s, r["h"])
                    if g.get(C.CKA_SENSITIVE) is not False or g.get(C.CKA_DECRYPT) is not False:
                        cell.V("C13|%s|unwrap-template|unwrapped-key-violates-CKA_UNWRAP_TEMPLATE|%s" % (wname, "repeated-attribute" if len({e[0] for e in ex_}) < len(ex_) else "conflicting-value"),
                               {"caller_entries": [[C.CKA_NAMES.get(t, t), v] for t, v in ex_], "front": front, "got": {C.CKA_NAMES.get(k, k): v for k, v in g.items()}})
                    else:
                        cell.count("unwrap_template_honoured")


def task_derive(cell, p, s, ref, which, quick):
    base_T = [(C.CKA_TOKEN, False), (C.CKA_PRIVATE, False), (C.CKA_SENSITIVE, False), (C.CKA_EXTRACTABLE, True)]
    targets = [("generic", C.CKK_GENERIC_SECRET, n) for n in (1, 8, 16, 17, 24, 31, 32)] + [("aes", C.CKK_AES, n) for n in (16, 24, 32)] + [("des3", C.CKK_DES3, None), ("des2", C.CKK_DES2, None)]

    def run(dm, hbase, secret_bytes, cut, vt):
        """secret_bytes = the full mechanism-defined value; cut = 'leading-removed' | 'leading-kept'"""
        for tname, kt, n in targets + [("generic-full", C.CKK_GENERIC_SECRET, len(secret_bytes)), ("generic-too-long", C.CKK_GENERIC_SECRET, len(secret_bytes) + 1), ("aes-too-long", C.CKK_AES, 32 if len(secret_bytes) < 32 else None)]:
            if tname == "aes-too-long" and n is None:
                continue
            want_len = n if n is not None else (24 if kt == C.CKK_DES3 else 16)
            T = [(C.CKA_CLASS, C.CKO_SECRET_KEY), (C.CKA_KEY_TYPE, kt)] + ([(C.CKA_VALUE_LEN, n)] if n is not None else []) + base_T
            r = p.DeriveKey(s, dm, hbase, T)
            cell.count("cells")
            if want_len > len(secret_bytes):
                if r["rv"] == 0:
                    rv2, gv = p.get_attr(s, r["h"], C.CKA_VALUE)
                    cell.V("C13|%s|derive|key-longer-than-the-derived-material-accepted|%s" % (vt, tname.split("-")[0]), {"asked": want_len, "material": len(secret_bytes), "got_len": len(gv or b"")})
                    p.DestroyObject(s, r["h"])
                else:
                    cell.count("too_long_refused")
                continue
            if r["rv"] != 0:
                cell.count("derive_refused:%s" % tname)
                continue
            got = p.get_attrs(s, r["h"], POST)
            val = got.get(C.CKA_VALUE)
            exp = secret_bytes[-want_len:] if cut == "leading-removed" else secret_bytes[:want_len]
            if kt in (C.CKK_DES2, C.CKK_DES3):
                exp = odd_parity(exp)
            if val != exp:
                other = secret_bytes[:want_len] if cut == "leading-removed" else secret_bytes[-want_len:]
                why = "cut-from-the-wrong-end" if val == (odd_parity(other) if kt in (C.CKK_DES2, C.CKK_DES3) else other) and other != exp else ("parity-not-adjusted" if kt in (C.CKK_DES2, C.CKK_DES3) and val is not None and odd_parity(val) == exp else "value-differs")
                cell.V("C13|%s|derive|%s|%s" % (vt, why, tname.split("-")[0]), {"got": val, "want": exp, "len": want_len})
            else:
                cell.count("derived_values_equal_reference")
            if got.get(C.CKA_KEY_TYPE) != kt:
                cell.V("C13|%s|derive|key-type-not-as-requested" % vt, {"got": got.get(C.CKA_KEY_TYPE)})
            if got.get(C.CKA_LOCAL) is not False:
                cell.V("C13|%s|derive|CKA_LOCAL-not-false" % vt, {})
            check_kcv(cell, p, s, ref, r["h"], "derive")
            p.DestroyObject(s, r["h"])

    if which in ("dh", "ec256", "ec384", "ec521", "x25519"):
        for pname, suffix in [("ordinary", "peer")] + ([("leading-zero", "peer_lz")] if which != "x25519" else []):
            if which == "dh":
                k, peer = F.KEYS["dh1024"], F.KEYS["dh1024" + suffix]
                hb = W.ok(p.CreateObject(s, F.template("dh_priv", token=False, private=False, label=b"b", extra=[(C.CKA_DERIVE, True)])), "b")["h"]
                sec = pow(int(peer["y"], 16), int(k["x"], 16), int(k["p"], 16)).to_bytes(128, "big")
                dm = mech(C.CKM_DH_PKCS_DERIVE, F.H(peer["y"]))
            elif which == "x25519":
                k, peer = F.KEYS["x25519"], F.KEYS["x25519peer"]
                hb = W.ok(p.CreateObject(s, F.template("x25519_priv", token=False, private=False, label=b"b", extra=[(C.CKA_DERIVE, True)])), "b")["h"]
                sec = ref.out("AGREE", type="x25519", x=F.H(k["value"]), peer=F.H(peer["rawpoint"]))
                dm = mech(C.CKM_ECDH1_DERIVE, ecdh_params(F.H(peer["rawpoint"])))
            else:
                k, peer = F.KEYS[which], F.KEYS[which + suffix]
                curve = {"ec256": "secp256r1", "ec384": "secp384r1", "ec521": "secp521r1"}[which]
                hb = W.ok(p.CreateObject(s, F.template(which + "_priv", token=False, private=False, label=b"b", extra=[(C.CKA_DERIVE, True)])), "b")["h"]
                sec = ref.out("AGREE", type="ecdh", curve=curve, x=F.H(k["value"]), peer=F.H(peer["rawpoint"]))
                if "shared_x" in peer and F.H(peer["shared_x"]) != sec:
                    raise RuntimeError("references disagree")
                dm = mech(C.CKM_ECDH1_DERIVE, ecdh_params(F.H(peer["rawpoint"])))
            run(dm, hb, sec, "leading-removed", "%s|%s-peer" % (which, pname))
    elif which.endswith("encrypt-data"):
        fam, mode = which.split("-")[0], which.split("-")[1]
        key = F.AES128 if fam == "aes" else F.DES3
        B = 16 if fam == "aes" else 8
        hb = W.ok(p.CreateObject(s, F.template("aes128" if fam == "aes" else "des3", token=False, private=False, label=b"b", extra=[(C.CKA_DERIVE, True)])), "b")["h"]
        for nblocks in (1, 2, 3):
            data = bytes((i * 13 + 1) & 0xFF for i in range(nblocks * B))
            for ivn in (("counter",) if mode == "ecb" else ("counter", "ff")):
                iv = IVS[ivn][:B]
                if mode == "ecb":
                    dm = mech(C.CKM_AES_ECB_ENCRYPT_DATA if fam == "aes" else C.CKM_DES3_ECB_ENCRYPT_DATA, keyderiv_string(data))
                    sec = ref.out("BLOCK", alg=("AES-128" if fam == "aes" else "TripleDES"), dir="enc", key=key, **{"in": data})
                else:
                    dm = mech(C.CKM_AES_CBC_ENCRYPT_DATA if fam == "aes" else C.CKM_DES3_CBC_ENCRYPT_DATA, cbc_encrypt_data_params(iv, data))
                    sec = ref.out("CIPHER", alg=("AES-128" if fam == "aes" else "TripleDES") + "/CBC/NoPadding", dir="enc", key=key, iv=iv, **{"in": data})
                run(dm, hb, sec, "leading-kept", "%s|blocks=%d|iv=%s" % (which, nblocks, ivn))
    else:
        basev = F.GENERIC[20]
        hb = W.ok(p.CreateObject(s, F.template("generic20", token=False, private=False, label=b"b", extra=[(C.CKA_DERIVE, True)])), "b")["h"]
        ho = W.ok(p.CreateObject(s, F.template("aes192", token=False, private=False, label=b"o", extra=[(C.CKA_DERIVE, True)])), "o")["h"]
        for dl in (1, 8, 31):
            data = bytes((i * 5 + 9) & 0xFF for i in range(dl))
            run(mech(C.CKM_CONCATENATE_BASE_AND_DATA, keyderiv_string(data)), hb, basev + data, "leading-kept", "concat-base-and-data|len=%d" % dl)
            run(mech(C.CKM_CONCATENATE_DATA_AND_BASE, keyderiv_string(data)), hb, data + basev, "leading-kept", "concat-data-and-base|len=%d" % dl)
        run(mech(C.CKM_CONCATENATE_BASE_AND_KEY, ul(ho)), hb, basev + F.AES192, "leading-kept", "concat-base-and-key")


def _task(task):
    ctx, check = core._W["ctx"], core._W["check"]
    ctx.counters = {}
    cell = Cell(ctx, task)
    out = {"viol": [], "harness": None, "counters": None, "samples": []}
    sh, p = ctx.sh, ctx.p
    ref = Ref()
    try:
        sh.snap()
        try:
            s = core._W["model0"]["s"]
            if task[0] == "wrap":
                task_wrap(cell, p, s, ref, task[1], task[2], task[-1])
            else:
                task_derive(cell, p, s, ref, task[1], task[-1])
            out["samples"].append({"task": list(task), "cells": ctx.counters.get("cells", 0), "malformed": ctx.counters.get("malformed_cases", 0)})
        finally:
            sh.unwind(0)
    except Died as d:
        sig = "C13|died|%r|%s" % (d.info, task[:3])
        cell.viol[sig] = {"signature": sig, "detail": {"during": (d.during or "")[:300]}, "task": list(task), "history": [], "action": None}
        if d.info.get("eof"):
            core._fresh_shell()
    except Exception:
        out["harness"] = "task %r: %s" % (task, traceback.format_exc())
        try:
            core._fresh_shell()
        except Exception:
            pass
    finally:
        ref.close()
    out["counters"] = ctx.counters
    out["viol"] = list(cell.viol.values())
    return out


def _task_fresh(task):
    core._fresh_shell()
    return _task(task)


def task_list(quick):
    t = []
    for wn in ("aes-key-wrap", "aes-key-wrap-pad", "aes-cbc-pad"):
        for wk in (("aes128", "aes256") if quick else ("aes128", "aes192", "aes256")):
            t.append(("wrap", wn, wk, quick))
    for wn in ("rsa-pkcs", "rsa-oaep"):
        for wk in (("rsa1024",) if quick else ("rsa1024", "rsa2048")):
            t.append(("wrap", wn, wk, quick))
    for d in ("dh", "ec256", "ec384", "ec521", "x25519", "aes-ecb-encrypt-data", "aes-cbc-encrypt-data", "des3-ecb-encrypt-data", "des3-cbc-encrypt-data", "concat"):
        t.append(("derive", d, quick))
    return t


def main(tier):
    rep = Report("C13", tier, "exploration")
    quick = tier == "quick"
    variant = "ossl-asan" if quick else "ossl-plain"
    ex = Explorer(C13(), variant=variant)
    cnt, samples = {}, []
    try:
        tasks = task_list(quick)
        found = {}
        for r in ex.pool.imap_unordered(_task, tasks):
            if r["harness"]:
                rep.harness_errors.append(r["harness"])
            for k, v in (r["counters"] or {}).items():
                cnt[k] = cnt.get(k, 0) + v
            for v in r["viol"]:
                found.setdefault(v["signature"], v)
            samples += r["samples"][:1]
        by_task = {}
        for sig, v in sorted(found.items()):
            by_task.setdefault(tuple(v["task"]), []).append(sig)
        tl = sorted(by_task)
        res = ex.pool.map(_task_fresh, tl, chunksize=1)
        for t, r in zip(tl, res):
            seen = {x["signature"] for x in r["viol"]}
            for sig in by_task[t]:
                if sig in seen:
                    v = dict(found[sig]); v.update(variant=variant, store="file", replay_module="c13_wrapderive")
                    rep.add_violation(v)
                else:
                    rep.harness_errors.append("violation %s did not reproduce" % sig)
    finally:
        ex.close()
    nontrivial = cnt.get("blobs_decoded_by_reference", 0) + cnt.get("unwrapped_values_equal", 0) + cnt.get("derived_values_equal_reference", 0) + cnt.get("malformed_rejected_by_reference", 0)
    if nontrivial < 100 or not cnt.get("malformed_cases") or not cnt.get("derived_values_equal_reference"):
        rep.harness_errors.append("vacuous: %r" % cnt)
    rep.coverage = {"evaluations": cnt.get("cells", 0) + cnt.get("malformed_cases", 0), "distinct_nontrivial": nontrivial, "samples": samples[:8], "exhaustive": True,
                    "variant": variant, "outcome_counters": cnt, "tasks": len(task_list(quick)),
                    "rule": "evaluations = wrap / unwrap / derive cells + malformed-blob cases (every truncation length, every byte position); non-trivial = blobs the "
                            "reference decoded, unwrapped values compared, derived values compared with the reference, mutations the reference rejects"}
    rep.assumptions = ["reference: Botan RFC 3394 / RFC 5649 key wrap, CBC/PKCS7, PKCS#1 v1.5 / OAEP, PKCS#8 parser, DH/ECDH/X25519; pure-Python modular arithmetic for the leading-zero peers",
                       "a mutated blob counts as malformed exactly when the reference rejects it", "derived values: DH/ECDH secrets are cut from the leading end, encrypt-data/concatenation keep the leading bytes; DES keys get odd parity"]
    return rep.finish()


def replay(rec):
    import shutil, sys
    from p11mc import p11 as P
    sys.path.insert(0, P.VERIF + "/tools")
    import build_sut
    build_sut.build(rec["variant"]); build_sut.build_ref()
    check = C13()
    root = P.scratch_root()
    try:
        template = core.build_template(check, rec["variant"], "file", root)
        core._worker_init(check, rec["variant"], "file", template, root)
        r = _task(tuple(rec["task"]))
        core._W["ctx"].stop_shell()
        sigs = [v["signature"] for v in r["viol"]]
        print("task:", rec["task"], "\nrecorded:", rec["signature"], "\nobserved:", sigs[:10])
        if rec["signature"] in sigs:
            print("VIOLATION property=C13 replay=%s" % sys.argv[1])
            return 1
        return 0
    finally:
        shutil.rmtree(root, ignore_errors=True)
