"""C19 - object search is sound and complete (DESIGN.md 3/C19).

A fixed population (14 objects on A, 4 on B: every class, shared/empty labels, token and session objects of two
sessions, twins differing only in privacy) is searched with every template of the menu (all singles, all pairs of a
reduced menu, selected triples, the empty template) from every open session, with every sequence of batch sizes, in
every state reachable by short histories (logout/login/SO login, destroy, close of the owning session, attribute change).
Oracle: the set returned (mapped back to objects) == filter over the model population, each object exactly once.
"""
import itertools, time
from p11mc import consts as C
from p11mc.core import CheckBase, Explorer, Violation, confirm_violations
from p11mc.runner import Report
from p11mc import world as W, fixtures as F
from p11mc.p11 import tpl, ul, Null, Out

PUBLIC, USER, SO = 0, 1, 2
IDENT = [C.CKA_CLASS, C.CKA_LABEL, C.CKA_TOKEN, C.CKA_PRIVATE, C.CKA_KEY_TYPE, C.CKA_ID, C.CKA_APPLICATION]
# attributes a template may mention (model values are read back once through the API in set-up)
TATTRS = [C.CKA_CLASS, C.CKA_LABEL, C.CKA_ID, C.CKA_TOKEN, C.CKA_PRIVATE, C.CKA_ENCRYPT, C.CKA_KEY_TYPE, C.CKA_VALUE, C.CKA_VALUE_LEN,
          C.CKA_MODULUS, C.CKA_APPLICATION, C.CKA_SENSITIVE]

POP_A = [  # (name, kind, token, private, label, id, extra, owner index)
    ("d1", "data", 1, 0, b"a", None, [], 0), ("d2", "data", 1, 1, b"a", None, [], 0), ("d3", "data", 0, 0, b"", None, [], 0),
    ("c1", "cert", 1, 0, b"ab", b"id1", [], 0),
    ("k1", "aes128", 1, 0, b"shared", b"id1", [(C.CKA_ENCRYPT, True)], 0), ("k2", "aes128", 1, 1, b"shared", b"id2", [(C.CKA_ENCRYPT, False)], 0),
    ("k3", "aes256", 0, 1, b"ab", b"id2", [(C.CKA_ENCRYPT, True)], 0),
    ("g1", "generic32", 0, 0, b"shared", b"", [], 1), ("g2", "generic20", 0, 1, b"x", b"id3", [], 1),
    ("r1", "rsa1024_pub", 1, 0, b"shared", b"id1", [(C.CKA_ENCRYPT, True)], 0), ("r2", "rsa1024_priv", 1, 1, b"shared", b"id1", [], 0),
    ("e1", "ec256_pub", 0, 0, b"a", b"id4", [], 0), ("e2", "ec256_priv", 1, 1, b"ab", b"id4", [], 0),
    ("t1", "des3", 1, 0, b"a", b"id5", [(C.CKA_ENCRYPT, False)], 0),
]
POP_LATE = [("l1", "generic64", 0, 0, b"shared", b"id6", [], 0), ("l2", "aes192", 0, 1, b"a", b"id6", [(C.CKA_ENCRYPT, True)], 0)]
POP_B = [("bd1", "data", 1, 0, b"a", None, [], 0), ("bk1", "aes128", 1, 1, b"shared", b"id1", [(C.CKA_ENCRYPT, True)], 0),
         ("bg1", "generic32", 0, 0, b"shared", b"", [], 0), ("bd2", "data", 0, 1, b"ab", None, [], 0)]


class Obj:
    __slots__ = ("name", "tok", "token", "private", "owner", "alive", "attrs")

    def __init__(self, name, tok, token, private, owner):
        self.name, self.tok, self.token, self.private, self.owner = name, tok, bool(token), bool(private), owner
        self.alive = True
        self.attrs = {}        # type -> raw bytes (absent = the object lacks the attribute)

    def ident(self):
        return tuple(self.attrs.get(t) for t in IDENT)


class Model:
    def __init__(self):
        self.login = {"A": USER, "B": USER}
        self.sess = []          # [h, tok, rw]
        self.objs = {}
        self.hmap = {}          # handle -> name for handles seen so far


def seqs_for(k, full):
    """batch-size sequences that drain k results (then one more call); full=True enumerates every sequence over {0,1,2,3,rem,rem+5}"""
    out = []
    if full:
        def rec(rem, prev0, acc):
            if rem == 0:
                out.append(acc + [1])
                return
            for sz in sorted({0, 1, 2, 3, rem, rem + 5}):
                if sz == 0:
                    if prev0:
                        continue
                    rec(rem, True, acc + [0])
                else:
                    rec(rem - min(sz, rem), False, acc + [sz])
        rec(k, False, [])
    else:
        for sz in (1, 2, 3):
            out.append([sz] * ((k + sz - 1) // sz) + [sz])
        out.append([k, 1]); out.append([k + 5, 1]); out.append([0, k, 1]); out.append([1, k, 1])
        if k > 1:
            out.append([k - 1, 1, 1]); out.append([3, 0, 3, 0] + [3] * (k // 3 + 1)); out.append([2, k + 5, 2])
    uniq = []
    for s in out:
        if s not in uniq:
            uniq.append(s)
    return uniq


class C19(CheckBase):
    ID = "C19"

    def __init__(self, depth_alphabet="full", full_seq_max=3, triples=False):
        self.kw = dict(depth_alphabet=depth_alphabet, full_seq_max=full_seq_max, triples=triples)
        self.full_seq_max = full_seq_max
        self.triples = triples

    def world(self, ctx):
        return W.two_tokens(ctx)

    def setup(self, ctx, world):
        p = ctx.p
        W.ok(p.Initialize(), "init")
        m = Model()
        sa0 = W.ok(p.OpenSession(world["slots"]["A"]), "open")["h"]
        sa1 = W.ok(p.OpenSession(world["slots"]["A"]), "open")["h"]
        sb0 = W.ok(p.OpenSession(world["slots"]["B"]), "open")["h"]
        W.ok(p.Login(sa0, C.CKU_USER, W.USER_A), "login")
        W.ok(p.Login(sb0, C.CKU_USER, W.USER_B), "login")
        m.sess = [[sa0, "A", 1], [sa1, "A", 1], [sb0, "B", 1]]
        late = None
        for tok, pop, owners in (("A", POP_A, [sa0, sa1]), ("B", POP_B, [sb0]), ("A", POP_LATE, [None])):
            if pop is POP_LATE:
                # a session opened AFTER object handles were issued (session handle != any internal index), owning session objects
                late = W.ok(p.OpenSession(world["slots"]["A"]), "open")["h"]
                m.sess.insert(2, [late, "A", 1])
                owners = [late]
            for name, kind, token, private, label, ident, extra, oi in pop:
                s = owners[oi]
                r = W.ok(p.CreateObject(s, F.template(kind, token=token, private=private, ident=ident, label=label, extra=extra)), "create " + name)
                o = Obj(name, tok, token, private, s)
                got = p.GetAttributeValue(s, r["h"], [(t, Null(0)) for t in TATTRS])
                want = [(t, n) for (t, n, _x) in got["attrs"] if n >= 0]
                got2 = p.GetAttributeValue(s, r["h"], [(t, Out(n)) for t, n in want])
                for (t, n, hx, _w) in got2["attrs"]:
                    if n >= 0:
                        o.attrs[t] = bytes.fromhex(hx)[:n]
                m.objs[name] = o
                m.hmap[r["h"]] = name
        # one more session object of the late session that came into being as a COPY (of the public token key k1): owned by the copying session like any other
        src = next(h for h, n in m.hmap.items() if n == "k1")
        r = W.ok(p.CopyObject(late, src, [(C.CKA_LABEL, b"late-copy"), (C.CKA_ID, b"id7"), (C.CKA_TOKEN, False)]), "copy into the late session")
        o = Obj("l3", "A", 0, 0, late)
        got = p.GetAttributeValue(late, r["h"], [(t, Null(0)) for t in TATTRS])
        want = [(t, n) for (t, n, _x) in got["attrs"] if n >= 0]
        got2 = p.GetAttributeValue(late, r["h"], [(t, Out(n)) for t, n in want])
        for (t, n, hx, _w) in got2["attrs"]:
            if n >= 0:
                o.attrs[t] = bytes.fromhex(hx)[:n]
        m.objs["l3"] = o
        m.hmap[r["h"]] = "l3"
        idents = [o.ident() for o in m.objs.values() if o.tok == "A"]
        assert len(set(idents)) == len(idents), "population identities must be distinct"
        return m

    # ---- templates (computed from the model population so that values really occur)
    def menu(self, m):
        vals = {}
        for o in m.objs.values():
            for t, v in o.attrs.items():
                vals.setdefault(t, set()).add(v)
        singles = []
        for t in (C.CKA_CLASS, C.CKA_LABEL, C.CKA_ID, C.CKA_TOKEN, C.CKA_PRIVATE, C.CKA_ENCRYPT, C.CKA_KEY_TYPE, C.CKA_VALUE_LEN, C.CKA_APPLICATION):
            for v in sorted(vals.get(t, ())):
                singles.append((t, v))
        singles.append((C.CKA_LABEL, b"no-such-label"))
        singles.append((C.CKA_LABEL, b"share"))               # proper prefix of an existing label
        singles.append((C.CKA_LABEL, b"shared\x00"))           # extension
        singles.append((C.CKA_VALUE, m.objs["k1"].attrs[C.CKA_VALUE]))     # public and private twins share this AES value
        singles.append((C.CKA_VALUE, m.objs["d1"].attrs[C.CKA_VALUE]))
        singles.append((C.CKA_VALUE, m.objs["g2"].attrs[C.CKA_VALUE]))     # private session object (encrypted-at-rest compare path)
        singles.append((C.CKA_MODULUS, m.objs["r1"].attrs[C.CKA_MODULUS]))  # attribute most objects lack
        singles.append((C.CKA_TOKEN, ul(1)))                   # boolean with length 8
        singles.append((C.CKA_CLASS, b"\x04"))                 # ulong with length 1
        singles.append((C.CKA_ID, b""))                        # zero-length value
        singles.append((C.CKA_SENSITIVE, b"\x00"))
        singles.append((0x80001234, b"zz"))                    # attribute nobody has
        reduced = [(C.CKA_CLASS, ul(C.CKO_SECRET_KEY)), (C.CKA_CLASS, ul(C.CKO_DATA)), (C.CKA_LABEL, b"shared"), (C.CKA_LABEL, b"a"), (C.CKA_LABEL, b""),
                   (C.CKA_ID, b"id1"), (C.CKA_TOKEN, b"\x01"), (C.CKA_TOKEN, b"\x00"), (C.CKA_PRIVATE, b"\x01"), (C.CKA_PRIVATE, b"\x00"),
                   (C.CKA_ENCRYPT, b"\x01"), (C.CKA_KEY_TYPE, ul(C.CKK_AES)), (C.CKA_VALUE, m.objs["k1"].attrs[C.CKA_VALUE])]
        tpls = [()] + [(s,) for s in singles]
        for a, b in itertools.combinations(reduced, 2):
            tpls.append((a, b))
        tpls.append(((C.CKA_LABEL, b"shared"), (C.CKA_LABEL, b"a")))       # same attribute twice, contradictory
        tpls.append(((C.CKA_LABEL, b"shared"), (C.CKA_LABEL, b"shared")))  # same attribute twice, consistent
        if self.triples:
            for a, b, c in itertools.combinations(reduced[:9], 3):
                tpls.append((a, b, c))
        else:
            tpls.append(((C.CKA_CLASS, ul(C.CKO_SECRET_KEY)), (C.CKA_LABEL, b"shared"), (C.CKA_TOKEN, b"\x01")))
            tpls.append(((C.CKA_CLASS, ul(C.CKO_SECRET_KEY)), (C.CKA_PRIVATE, b"\x01"), (C.CKA_ENCRYPT, b"\x01")))
        return tpls

    def expected(self, m, tok, template):
        out = set()
        vis_private = m.login[tok] == USER
        for o in m.objs.values():
            if not o.alive or o.tok != tok:
                continue
            if o.private and not vis_private:
                continue
            if all(t in o.attrs and o.attrs[t] == v for t, v in template):
                out.add(o.name)
        return out

    def identify(self, ctx, m, s, h):
        name = m.hmap.get(h)
        if name is not None:
            return name
        r = ctx.p.get_attrs(s, h, IDENT)
        ident = tuple((r.get(t) if not isinstance(r.get(t), tuple) else None) for t in IDENT)
        # decode_attr turned bool/ulong into python values; compare on re-encoded raw bytes
        raw = []
        for t, v in zip(IDENT, ident):
            if isinstance(v, bool):
                raw.append(b"\x01" if v else b"\x00")
            elif isinstance(v, int):
                raw.append(ul(v))
            else:
                raw.append(v)
        raw = tuple(raw)
        for o in m.objs.values():
            if o.ident() == raw:
                m.hmap[h] = o.name
                return o.name
        return None

    def probe(self, ctx, m):
        pass      # the search matrix is distributed over the pool separately (probe_chunk): it dominates the cost

    def probe_chunk(self, ctx, m, ci, nchunks):
        p = ctx.p
        tpls = self.menu(m)
        # templates that get the exhaustive batch-size enumeration: the empty one and the first template per expected result size
        cells = []
        for si, (s, tok, rw) in enumerate(m.sess):
            seen_sizes = set()
            for template in tpls:
                exp = self.expected(m, tok, template)
                k = len(exp)
                fullseq = (si in (0, len(m.sess) - 1)) and (template == () or (k not in seen_sizes and k <= self.full_seq_max + 3))
                if fullseq:
                    seen_sizes.add(k)
                cells.append((s, tok, rw, template, exp, fullseq))
        for idx, (s, tok, rw, template, exp, fullseq) in enumerate(cells):
            if idx % nchunks != ci:
                continue
            if True:
                k = len(exp)
                tline = "C_FindObjectsInit s=%d tpl=%s" % (s, ",".join("%x:x%s" % (t, v.hex()) for t, v in template))
                if fullseq:
                    seqs = seqs_for(k, k <= self.full_seq_max)
                else:
                    seqs = [[k + 5, 1], [1] * k + [1]] if k else [[3, 1]]
                for seq in seqs:
                    lines = [tline] + ["C_FindObjects s=%d max=%d" % (s, n) for n in seq] + ["C_FindObjectsFinal s=%d" % s]
                    rs = p.batch(lines)
                    ctx.count("searches")
                    ctx.count("find_calls", len(seq))
                    tdesc = [(C.CKA_NAMES.get(t, hex(t)), v.hex()) for t, v in template]
                    if rs[0]["rv"] != 0 or rs[-1]["rv"] != 0:
                        raise Violation("C19|init-or-final-failed|%s" % "+".join(x[0] for x in tdesc), {"template": tdesc, "rv": [rs[0]["rv"], rs[-1]["rv"]]})
                    got = []
                    for n, r in zip(seq, rs[1:-1]):
                        if r["rv"] != 0:
                            raise Violation("C19|find-objects-failed", {"template": tdesc, "seq": seq, "rv": r["rv"]})
                        if r["n"] > n or len(r["hs"]) != r["n"] or r["wmax"] > 8 * max(r["n"], 0):
                            raise Violation("C19|batch-overrun", {"template": tdesc, "seq": seq, "asked": n, "answer": r})
                        got += r["hs"]
                    names = []
                    for h in got:
                        nm = self.identify(ctx, m, s, h)
                        if nm is None:
                            raise Violation("C19|unidentifiable-object-returned|login=%d" % m.login[tok], {"template": tdesc, "handle": h})
                        names.append(nm)
                    sig_t = "+".join(x[0] for x in tdesc) or "empty"
                    if len(set(names)) != len(names):
                        raise Violation("C19|object-returned-twice|%s" % sig_t, {"template": tdesc, "seq": seq, "names": names})
                    extra = set(names) - exp
                    missing = exp - set(names)
                    if extra:
                        o = m.objs[sorted(extra)[0]]
                        why = "other-token" if o.tok != tok else ("destroyed" if not o.alive else ("private-not-visible" if o.private and m.login[tok] != USER else "non-matching"))
                        raise Violation("C19|unsound|%s|%s" % (why, sig_t), {"template": tdesc, "seq": seq, "extra": sorted(extra), "login": m.login[tok]})
                    if missing:
                        raise Violation("C19|incomplete|%s|seq=%s" % (sig_t, "single" if len(seq) == 2 else "split"),
                                        {"template": tdesc, "seq": seq, "missing": sorted(missing), "got": names, "login": m.login[tok], "session_rw": rw})
                    ctx.count("nonempty_results" if k else "empty_results")
        ctx.count("chunks_probed")

    # ---- histories
    def actions(self, m):
        acts = []
        sidx = {i: s for i, s in enumerate(m.sess)}
        for i, (h, t, rw) in sidx.items():
            if t != "A":
                continue
            if m.login["A"] != PUBLIC:
                acts.append(("logout", i))
            else:
                acts.append(("login", i, C.CKU_USER))
                if not any(s[1] == "A" and not s[2] for s in m.sess):
                    acts.append(("login", i, C.CKU_SO))
            break
        for i, (h, t, rw) in sidx.items():
            if t == "A" and i > 0:
                acts.append(("close", i))
        if not any(s[1] == "A" and not s[2] for s in m.sess) and m.login["A"] != SO:
            acts.append(("openro",))
        for name in ("k1", "k2", "g1", "d3", "r2"):
            o = m.objs[name]
            if o.alive and (not o.private or m.login["A"] == USER):
                acts.append(("destroy", name))
        for name, lab in (("k1", b"a"), ("d2", b"shared"), ("g1", b"")):
            o = m.objs[name]
            if o.alive and (not o.private or m.login["A"] == USER) and o.attrs.get(C.CKA_LABEL) != lab:
                acts.append(("setlabel", name, lab.decode()))
        return acts

    def handle_of(self, m, name):
        for h, n in m.hmap.items():
            if n == name:
                return h
        return 0

    def refind(self, ctx, m, s):
        """after handles died (logout / re-login) learn the new ones through an unrestricted search"""
        r = ctx.p.FindAll(s)
        for h in r.get("hs", []):
            self.identify(ctx, m, s, h)

    def step(self, ctx, m, a):
        p = ctx.p
        k = a[0]
        rwA = [s for s in m.sess if s[1] == "A" and s[2]]
        if k == "logout":
            h, t, rw = m.sess[a[1]]
            W.ok(p.Logout(h), "logout")
            m.login[t] = PUBLIC
            for o in m.objs.values():
                if o.tok == t and o.private:
                    if not o.token:
                        o.alive = False
                    for hh in [x for x, n in m.hmap.items() if n == o.name]:
                        del m.hmap[hh]
        elif k == "login":
            h, t, rw = m.sess[a[1]]
            W.ok(p.Login(h, a[2], W.USER_A if a[2] == C.CKU_USER else W.SO_A), "login")
            m.login[t] = USER if a[2] == C.CKU_USER else SO
            self.refind(ctx, m, h)
        elif k == "openro":
            r = W.ok(p.OpenSession(ctx.world["slots"]["A"], W.RO), "open ro")
            m.sess.insert(len(m.sess) - 1, [r["h"], "A", 0])
        elif k == "close":
            h, t, rw = m.sess[a[1]]
            W.ok(p.CloseSession(h), "close")
            del m.sess[a[1]]
            for o in m.objs.values():
                if not o.token and o.owner == h:
                    o.alive = False
        elif k == "destroy":
            o = m.objs[a[1]]
            r = p.DestroyObject(rwA[0][0], self.handle_of(m, a[1]))
            if r["rv"] == 0:
                o.alive = False
                ctx.count("destroy_ok")
        elif k == "setlabel":
            o = m.objs[a[1]]
            r = p.SetAttributeValue(rwA[0][0], self.handle_of(m, a[1]), [(C.CKA_LABEL, a[2].encode())])
            if r["rv"] == 0:
                o.attrs[C.CKA_LABEL] = a[2].encode()
                ctx.count("setlabel_ok")
        return m

    def key(self, ctx, m):
        return (tuple(sorted(m.login.items())), tuple((t, rw) for h, t, rw in m.sess),
                tuple(sorted((o.name, o.attrs.get(C.CKA_LABEL)) for o in m.objs.values() if o.alive)))

    def died_sig(self, action, d):
        return "C19|%s|%r" % (action[0] if action else None, d.info)


def _probe_task(task):
    """pool task: replay a history, run one chunk of the search matrix"""
    from p11mc import core
    import copy, traceback
    history, ci, n = task
    ctx, check = core._W["ctx"], core._W["check"]
    ctx.counters = {}
    out = {"viol": [], "harness": None, "counters": None}
    try:
        ctx.sh.snap()
        try:
            m = copy.deepcopy(core._W["model0"])
            for a in history:
                m = check.step(ctx, m, a)
            check.probe_chunk(ctx, m, ci, n)
        except Violation as v:
            out["viol"].append({"signature": v.signature, "detail": v.detail, "history": list(history), "action": None, "chunk": [ci, n]})
        finally:
            ctx.sh.unwind(0)
    except core.Died as d:
        out["viol"].append({"signature": "C19|died|%r" % (d.info,), "detail": {"during": d.during}, "history": list(history), "action": None, "chunk": [ci, n]})
        core._fresh_shell()
    except Exception:
        out["harness"] = traceback.format_exc()
        try:
            core._fresh_shell()
        except Exception:
            pass
    out["counters"] = ctx.counters
    return out


def main(tier):
    rep = Report("C19", tier, "model_checking")
    quick = tier == "quick"
    variant = "ossl-asan" if quick else "ossl-plain"
    deadline = time.time() + (600 if quick else 1700)
    kw = dict(full_seq_max=3, triples=False) if quick else dict(full_seq_max=4, triples=True)
    depth = 2 if quick else 3
    ex = Explorer(C19(**kw), variant=variant, deadline=deadline)
    try:
        fix = ex.bfs(depth)
        done = fix or ex.stats["depth_completed"] >= depth
        confirm_violations(ex, rep)
        st = ex.stats
        nch = 16
        hists = sorted(ex.seen.values(), key=lambda h: (len(h), repr(h)))
        tasks = [(list(h), ci, nch) for h in hists for ci in range(nch)]
        found = {}
        ntasks = 0
        for res in ex.pool.imap_unordered(_probe_task, tasks):
            ntasks += 1
            if res["harness"]:
                rep.harness_errors.append(res["harness"])
            ex._merge_counters(res["counters"])
            for v in res["viol"]:
                if v["signature"] not in found or len(v["history"]) < len(found[v["signature"]]["history"]):
                    found[v["signature"]] = v
            if ex._timeup():
                done = False
                break
        # replay each violation once more (same task, fresh shell) before reporting
        for sig, v in sorted(found.items()):
            res = ex.pool.apply(_probe_task, ((v["history"], v["chunk"][0], v["chunk"][1]),))
            if any(x["signature"] == sig for x in res["viol"]):
                v = dict(v); v.update(variant=variant, store="file", replay_module="c19_find", check_kwargs=kw)
                rep.add_violation(v)
            else:
                rep.harness_errors.append("violation %s did not reproduce" % sig)
        c = st["counters"]
        if not c.get("nonempty_results") or not c.get("searches"):
            rep.harness_errors.append("vacuous: %r" % c)
        rep.coverage = {"states": st["states"], "transitions": st["transitions"] + c.get("find_calls", 0), "traces_validated_against_impl": c.get("searches", 0),
                        "probe_tasks": ntasks, "samples": ex.samples[:4] + [{"template": "CKA_LABEL=shared + CKA_TOKEN=true", "batch sizes": [1, 0, 2, 7, 1]}],
                        "exhaustive": bool(done), "levels": st["levels"], "depth_bound": depth, "outcome_counters": c, "variant": variant,
                        "rule": "states = histories (logout/login/SO login, destroy, close owning session, label change) up to the depth bound; in every state "
                                "every template of the menu x every open session x every batch-size sequence (all sequences over {0,1,2,3,rem,rem+5} for "
                                "result sets <= %d, a fixed family of 10 patterns above) is executed; traces = complete searches (Init, FindObjects*, Final) compared with the model filter" % kw["full_seq_max"]}
        rep.assumptions = ["model attribute values are the ones C_GetAttributeValue returned at creation (C19 judges the search, not attribute storage)",
                           "population and template menu as listed in the check source"]
    finally:
        ex.close()
    return rep.finish()


def replay(rec):
    """tools/replay.py entry: re-run the recorded (history, chunk) on a fresh world; exit 1 if the signature shows again"""
    import shutil, sys
    from p11mc import core, p11 as P
    sys.path.insert(0, P.VERIF + "/tools")
    import build_sut
    build_sut.build(rec["variant"])
    check = C19(**rec.get("check_kwargs", {}))
    root = P.scratch_root()
    try:
        template = core.build_template(check, rec["variant"], rec["store"], root)
        core._worker_init(check, rec["variant"], rec["store"], template, root)

        def lit(x):
            return tuple(lit(y) for y in x) if isinstance(x, list) else x
        res = _probe_task(([lit(a) for a in rec["history"]], rec["chunk"][0], rec["chunk"][1]))
        core._W["ctx"].stop_shell()
        sigs = [v["signature"] for v in res["viol"]]
        print("recorded:", rec["signature"], "\nobserved:", sigs)
        if rec["signature"] in sigs:
            print("VIOLATION property=C19 replay=%s" % sys.argv[1])
            return 1
        return 0
    finally:
        shutil.rmtree(root, ignore_errors=True)
