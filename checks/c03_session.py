"""C03 - session and login state machine (DESIGN.md 3/C03).

Exhaustive search of all reachable (ordered session list x login state x PINs) states for <= MAXS open sessions on
tokens A, B (and the free slot C once InitToken made it a token), every action executed on the real library and
compared in lock-step with the PKCS#11 login-state model below.  Merged BFS to fixpoint + unmerged DFS.
"""
import sys, time
from p11mc import consts as C
from p11mc.core import CheckBase, Explorer, Violation, confirm_violations
from p11mc.runner import Report
from p11mc import world as W

PUBLIC, USER, SO = 0, 1, 2
SO_PINS = {"A": [W.SO_A, b"so-pin-A-alt-7"], "B": [W.SO_B, b"so-pin-B-alt-7"], "C": [b"so-pin-C-0003", b"so-pin-C-alt-7"]}
USER_PINS = {"A": [W.USER_A, b"user-pin-A-alt"], "B": [W.USER_B, b"user-pin-B-alt"], "C": [b"user-pin-C-03", b"user-pin-C-alt"]}


class Tok:
    __slots__ = ("init", "login", "so", "user")

    def __init__(self, init, so, user):
        self.init = init
        self.login = PUBLIC
        self.so = so          # index into SO_PINS[name]
        self.user = user      # index into USER_PINS[name] or None

    def t(self):
        return (self.init, self.login, self.so, self.user)


class Model:
    def __init__(self):
        self.tok = {"A": Tok(True, 0, 0), "B": Tok(True, 0, 0), "C": Tok(False, 0, None)}
        self.sess = []        # ordered list of [handle, tokname, rw]
        self.dead = []        # every session handle that was closed on this path
        self.issued = set()
        self.c_inits = 0


def expected_state(login, rw):
    if login == PUBLIC:
        return C.CKS_RW_PUBLIC_SESSION if rw else C.CKS_RO_PUBLIC_SESSION
    if login == USER:
        return C.CKS_RW_USER_FUNCTIONS if rw else C.CKS_RO_USER_FUNCTIONS
    return C.CKS_RW_SO_FUNCTIONS if rw else -1


class C03(CheckBase):
    ID = "C03"

    def __init__(self, maxs=3, max_a=3, max_b=1, pins=False, third=False, tokens=("A", "B"), core=False):
        self.kw = dict(maxs=maxs, max_a=max_a, max_b=max_b, pins=pins, third=third, tokens=tuple(tokens), core=core)
        self.core = core
        self.maxs, self.max_per = maxs, {"A": max_a, "B": max_b, "C": 1}
        self.pins, self.third = pins, third
        self.tokens = tokens

    # ---- world / setup
    def world(self, ctx):
        w = W.two_tokens(ctx)
        w["slots"]["C"] = w["slots"]["free"]
        return w

    def setup(self, ctx, world):
        W.ok(ctx.p.Initialize(), "C_Initialize")
        sm = W.slot_map(ctx.p)
        for k in ("A", "B"):
            if sm.get(k) != world["slots"][k]:
                raise RuntimeError("slot ids not stable across restarts: %r vs %r" % (sm, world["slots"]))
        return Model()

    # ---- alphabet
    def actions(self, m):
        acts = []
        toks = [t for t in self.tokens if m.tok[t].init] + (["C"] if self.third and m.tok["C"].init else [])
        if self.core:
            # the core alphabet of the UNMERGED enumeration (no state merging at all, so library state the key cannot see - tables, counters, caches left
            # behind by earlier opens / closes / close-alls / logins - cannot hide): successful actions only, acting on the oldest / newest session
            if len(m.sess) < self.maxs:
                for t in toks:
                    if sum(1 for s in m.sess if s[1] == t) < self.max_per[t]:
                        acts.append(("open", t, 1))
                        if t == "A":
                            acts.append(("open", t, 0))
            n = len(m.sess)
            for i in sorted({0, n - 1} if n else ()):
                acts.append(("close", i))
            for t in toks:
                acts.append(("closeall", t))
            if n:
                acts.append(("login", n - 1, C.CKU_USER, "right"))
                acts.append(("login", n - 1, C.CKU_SO, "right"))
                acts.append(("logout", n - 1))
            return acts
        if len(m.sess) < self.maxs:
            for t in toks:
                if sum(1 for s in m.sess if s[1] == t) < self.max_per[t]:
                    acts.append(("open", t, 0))
                    acts.append(("open", t, 1))
        for i in range(len(m.sess)):
            acts.append(("close", i))
        for t in toks:
            acts.append(("closeall", t))
        for i in range(len(m.sess)):
            for ut in (C.CKU_USER, C.CKU_SO, C.CKU_CONTEXT_SPECIFIC):
                for pk in ("right", "wrong", "other"):
                    acts.append(("login", i, ut, pk))
            acts.append(("logout", i))
        if m.dead:
            acts.append(("stale", "login"))
            acts.append(("stale", "logout"))
            acts.append(("stale", "close"))
        for t in toks:
            acts.append(("inittoken", t, "right"))
            acts.append(("inittoken", t, "wrong"))
        if self.third and not m.tok["C"].init and m.c_inits == 0:
            acts.append(("inittoken", "C", "right"))
        if self.pins:
            for i in range(len(m.sess)):
                for new in (0, 1):
                    acts.append(("initpin", i, new))
                    for ok_ in ("right", "wrong", "other"):
                        acts.append(("setpin", i, ok_, new))
                acts.append(("setpin", i, "right", "short"))
        return acts

    # ---- helpers
    def _pin(self, m, tname, utype, kind):
        t = m.tok[tname]
        so = SO_PINS[tname][t.so]
        us = USER_PINS[tname][t.user] if t.user is not None else USER_PINS[tname][0]
        if kind == "wrong":
            return W.WRONG
        if utype == C.CKU_SO:
            return so if kind == "right" else us
        return us if kind == "right" else so

    def observe(self, ctx, m):
        """(state, flags, slot) of every open session + validity of dead handles, as the API reports them"""
        obs = []
        for h, t, rw in m.sess:
            r = ctx.p.GetSessionInfo(h)
            obs.append((r["rv"], r.get("state"), r.get("flags"), r.get("slot")))
        dead = [ctx.p.GetSessionInfo(h)["rv"] for h in m.dead]
        return obs, dead

    def predicted(self, ctx, m):
        slots = ctx.world["slots"]
        return [(0, expected_state(m.tok[t].login, rw), C.CKF_SERIAL_SESSION | (C.CKF_RW_SESSION if rw else 0), slots[t]) for h, t, rw in m.sess]

    def compare(self, ctx, m, action, rv, what):
        obs, dead = self.observe(ctx, m)
        pred = self.predicted(ctx, m)
        if obs != pred:
            raise Violation("C03|%s|%s|session-infos-differ-from-model" % (action[0], what),
                            {"action": action, "rv": rv, "observed": obs, "model": pred, "sessions": m.sess})
        for h, rvd in zip(m.dead, dead):
            if rvd == 0:
                raise Violation("C03|%s|closed-session-handle-still-valid" % action[0], {"action": action, "handle": h})
        # all sessions of one token agree (follows from obs == pred, stated separately for the reader)
        ctx.count("infos_compared", len(obs))
        # hidden login state of tokens without any session: what would a session opened NOW report?  (look-ahead in a
        # throw-away snapshot; "closing the last session returns the token to the public state" is only observable this way)
        slots = ctx.world["slots"]
        for t in ("A", "B", "C"):
            tk = m.tok[t]
            if not tk.init or any(s[1] == t for s in m.sess) or (t == "C" and not self.third):
                continue
            d0 = ctx.sh.depth
            ctx.sh.snap(copy=False)
            try:
                r = ctx.p.OpenSession(slots[t], W.RW)
                if r["rv"] == 0:
                    info = ctx.p.GetSessionInfo(r["h"])
                    if info.get("state") != expected_state(tk.login, 1):
                        raise Violation("C03|%s|%s|fresh-session-reports-stale-login" % (action[0], what),
                                        {"action": action, "token": t, "reported_state": info.get("state"), "model_login": tk.login})
                    ctx.count("fresh_session_lookahead")
                    # the token has no session in the model: nothing may be left of the closed ones.  A read-only session that secretly survived would
                    # refuse the SO login, any surviving session would refuse C_InitToken (both probed here, on every transition, before states merge)
                    if tk.login == PUBLIC:
                        r2 = ctx.p.Login(r["h"], C.CKU_SO, SO_PINS[t][tk.so])
                        if r2["rv"] != 0:
                            raise Violation("C03|%s|%s|lookahead-so-login-refused-although-no-session-is-open|%s" % (action[0], what, C.CKR_NAMES.get(r2["rv"], hex(r2["rv"]))),
                                            {"action": action, "token": t})
                        ctx.p.Logout(r["h"])
                    ctx.p.CloseSession(r["h"])
                    ctx.sh.snap()       # C_InitToken writes: private copy of the directory
                    try:
                        r3 = ctx.p.InitToken(slots[t], SO_PINS[t][tk.so], t)
                        if r3["rv"] != 0:
                            raise Violation("C03|%s|%s|lookahead-inittoken-refused-although-no-session-is-open|%s" % (action[0], what, C.CKR_NAMES.get(r3["rv"], hex(r3["rv"]))),
                                            {"action": action, "token": t})
                        ctx.count("inittoken_lookahead")
                    finally:
                        ctx.sh.back()
            finally:
                ctx.sh.unwind(d0)

    # ---- step: execute + oracle
    def step(self, ctx, m, a):
        p = ctx.p
        slots = ctx.world["slots"]
        kind = a[0]
        if kind == "open":
            _, t, rw = a
            r = p.OpenSession(slots[t], W.RW if rw else W.RO)
            allowed = m.tok[t].init and not (not rw and m.tok[t].login == SO)
            if r["rv"] == 0:
                if not allowed:
                    raise Violation("C03|open|accepted-while-forbidden|rw=%d|login=%d" % (rw, m.tok[t].login), {"action": a})
                h = r["h"]
                if h in m.issued or h == 0:
                    raise Violation("C03|open|session-handle-reused", {"handle": h})
                m.issued.add(h)
                m.sess.append([h, t, rw])
                ctx.count("open_ok")
            else:
                if allowed:
                    raise Violation("C03|open|refused-although-permitted|rw=%d|login=%d|%s" % (rw, m.tok[t].login, C.CKR_NAMES.get(r["rv"], hex(r["rv"]))), {"action": a})
                ctx.count("open_refused")
            self.compare(ctx, m, a, r["rv"], "ok" if r["rv"] == 0 else "fail")
            return m
        if kind == "close":
            h, t, rw = m.sess[a[1]]
            r = p.CloseSession(h)
            if r["rv"] == 0:
                del m.sess[a[1]]
                m.dead.append(h)
                if not any(s[1] == t for s in m.sess):
                    m.tok[t].login = PUBLIC
                ctx.count("close_ok")
            self.compare(ctx, m, a, r["rv"], "ok" if r["rv"] == 0 else "fail")
            return m
        if kind == "closeall":
            t = a[1]
            r = p.CloseAllSessions(slots[t])
            if r["rv"] == 0:
                m.dead.extend(s[0] for s in m.sess if s[1] == t)
                m.sess = [s for s in m.sess if s[1] != t]
                m.tok[t].login = PUBLIC
                ctx.count("closeall_ok")
            self.compare(ctx, m, a, r["rv"], "ok" if r["rv"] == 0 else "fail")
            return m
        if kind == "login":
            _, i, ut, pk = a
            h, t, rw = m.sess[i]
            tk = m.tok[t]
            r = p.Login(h, ut, self._pin(m, t, ut, pk))
            if ut == C.CKU_CONTEXT_SPECIFIC:
                # never changes the login state, whatever it answers
                self.compare(ctx, m, a, r["rv"], "ctx")
                return m
            if ut == C.CKU_USER:
                allowed = tk.login == PUBLIC and pk == "right" and tk.user is not None
            else:
                allowed = tk.login == PUBLIC and pk == "right" and not any(s[1] == t and not s[2] for s in m.sess)
            if r["rv"] == 0:
                if not allowed:
                    raise Violation("C03|login|accepted-while-forbidden|user=%d|pin=%s|login=%d|ro=%d" % (
                        ut, pk, tk.login, int(any(s[1] == t and not s[2] for s in m.sess))), {"action": a})
                tk.login = USER if ut == C.CKU_USER else SO
                ctx.count("login_ok")
            else:
                if allowed:
                    # the state machine of PKCS#11 has no other obstacle than the ones in `allowed` (this library has no PIN lock-out)
                    raise Violation("C03|login|refused-although-permitted|user=%d|%s" % (ut, C.CKR_NAMES.get(r["rv"], hex(r["rv"]))),
                                    {"action": a, "login": tk.login, "ro_sessions": int(any(s[1] == t and not s[2] for s in m.sess))})
                ctx.count("login_refused")
            self.compare(ctx, m, a, r["rv"], "ok" if r["rv"] == 0 else "fail")
            return m
        if kind == "logout":
            h, t, rw = m.sess[a[1]]
            r = p.Logout(h)
            if r["rv"] == 0:
                m.tok[t].login = PUBLIC
                ctx.count("logout_ok")
            self.compare(ctx, m, a, r["rv"], "ok" if r["rv"] == 0 else "fail")
            return m
        if kind == "stale":
            h = m.dead[-1]
            if a[1] == "login":
                r = p.Login(h, C.CKU_USER, W.USER_A)
            elif a[1] == "logout":
                r = p.Logout(h)
            else:
                r = p.CloseSession(h)
            if r["rv"] == 0:
                raise Violation("C03|stale|%s-on-closed-handle-accepted" % a[1], {"handle": h})
            ctx.count("stale_refused")
            self.compare(ctx, m, a, r["rv"], "fail")
            return m
        if kind == "inittoken":
            _, t, pk = a
            tk = m.tok[t]
            pin = SO_PINS[t][tk.so] if pk == "right" else W.WRONG
            r = p.InitToken(slots[t], pin, t)
            allowed = not any(s[1] == t for s in m.sess) and (not tk.init or pk == "right")
            if r["rv"] == 0:
                if not allowed:
                    raise Violation("C03|inittoken|accepted-while-forbidden|sessions=%d|pin=%s" % (
                        sum(1 for s in m.sess if s[1] == t), pk), {"action": a})
                tk.init = True
                tk.user = None
                tk.login = PUBLIC
                if t == "C":
                    m.c_inits += 1
                ctx.count("inittoken_ok")
            else:
                if allowed:
                    raise Violation("C03|inittoken|refused-although-permitted|%s" % C.CKR_NAMES.get(r["rv"], hex(r["rv"])), {"action": a, "sessions_on_other_tokens": sum(1 for s in m.sess if s[1] != t)})
                ctx.count("inittoken_refused")
            self.compare(ctx, m, a, r["rv"], "ok" if r["rv"] == 0 else "fail")
            return m
        if kind == "initpin":
            _, i, new = a
            h, t, rw = m.sess[i]
            tk = m.tok[t]
            r = p.InitPIN(h, USER_PINS[t][new])
            allowed = tk.login == SO
            if r["rv"] == 0:
                if not allowed:
                    raise Violation("C03|initpin|accepted-outside-SO-session|login=%d" % tk.login, {"action": a})
                tk.user = new
                ctx.count("initpin_ok")
            self.compare(ctx, m, a, r["rv"], "ok" if r["rv"] == 0 else "fail")
            return m
        if kind == "setpin":
            _, i, ok_, new = a
            h, t, rw = m.sess[i]
            tk = m.tok[t]
            so_sess = tk.login == SO
            if so_sess:
                old = SO_PINS[t][tk.so] if ok_ == "right" else (W.WRONG if ok_ == "wrong" else USER_PINS[t][tk.user or 0])
                newpin = b"abc" if new == "short" else SO_PINS[t][new]
                allowed = rw and ok_ == "right" and new != "short"
            else:
                old = USER_PINS[t][tk.user or 0] if ok_ == "right" else (W.WRONG if ok_ == "wrong" else SO_PINS[t][tk.so])
                newpin = b"abc" if new == "short" else USER_PINS[t][new]
                allowed = rw and ok_ == "right" and tk.user is not None and new != "short"
            r = p.SetPIN(h, old, newpin)
            if r["rv"] == 0:
                if not allowed:
                    raise Violation("C03|setpin|accepted-while-forbidden|login=%d|old=%s|rw=%d|new=%s" % (tk.login, ok_, rw, new), {"action": a})
                if so_sess:
                    tk.so = new
                else:
                    tk.user = new
                ctx.count("setpin_ok")
            else:
                ctx.count("setpin_refused_permitted" if allowed else "setpin_refused")
            self.compare(ctx, m, a, r["rv"], "ok" if r["rv"] == 0 else "fail")
            return m
        raise RuntimeError("unknown action %r" % (a,))

    def key(self, ctx, m):
        # the token flags the library reports (PIN-count warnings left by failed attempts) are state the model does not carry: part of the key, so that
        # states that differ only in them are not merged
        slots = ctx.world["slots"]
        flags = tuple(ctx.p.GetTokenInfo(slots[t]).get("flags") for t in ("A", "B", "C") if t in slots and m.tok[t].init)
        return (tuple((n, m.tok[n].t()) for n in ("A", "B", "C")), tuple((t, rw) for h, t, rw in m.sess), m.c_inits, bool(m.dead), flags)

    def died_sig(self, action, d):
        return "C03|%s|%r" % (action[0], d.info)


def main(tier):
    rep = Report("C03", tier, "model_checking")
    quick = tier == "quick"
    variant = "ossl-asan" if quick else "ossl-plain"
    deadline = time.time() + (1200 if quick else 1500)
    runs = []
    cfgs = [("session/login machine, fixed PINs, <=3 sessions (2 on A, 1 on B)", dict(maxs=3, max_a=2, max_b=1), 40),
            ("PIN machine (InitPIN/SetPIN/InitToken), <=2 sessions on A", dict(maxs=2, max_a=2, max_b=0, pins=True, tokens=("A",)), 40)] if quick else \
           [("session/login machine, fixed PINs, <=4 sessions (3 on A, 2 on B)", dict(maxs=4, max_a=3, max_b=2), 60),
            ("PIN machine (InitPIN/SetPIN/InitToken), <=2 sessions on A, 1 on B", dict(maxs=2, max_a=2, max_b=1, pins=True), 60),
            ("third token via InitToken(free slot) + PINs, <=3 sessions", dict(maxs=3, max_a=2, max_b=1, pins=True, third=True), 60)]
    total = dict(states=0, transitions=0, traces=0)
    counters = {}
    samples = []
    exhaustive = True
    for title, kw, maxd in cfgs:
        ex = Explorer(C03(**kw), variant=variant, deadline=deadline)
        try:
            fix = ex.bfs(maxd)
            dfs_depth = 3 if quick else 4
            dfs_ok = ex.dfs(dfs_depth) if not ex._timeup() else False
            confirm_violations(ex, rep)
            st = ex.stats
            runs.append({"config": title, "variant": variant, "states": st["states"], "transitions": st["transitions"],
                         "fixpoint": fix, "depth_completed": st["depth_completed"], "levels": st["levels"],
                         "unmerged_depth": st["dfs_depth"], "unmerged_paths": st["dfs_paths"], "unmerged_transitions": st["dfs_transitions"]})
            total["states"] += st["states"]
            total["transitions"] += st["transitions"] + st["dfs_transitions"]
            total["traces"] += st["dfs_paths"] + st["states"]
            for k, v in st["counters"].items():
                counters[k] = counters.get(k, 0) + v
            samples += ex.samples[:3]
            exhaustive = exhaustive and fix and dfs_ok
        finally:
            ex.close()
    # unmerged enumeration of every sequence over the core alphabet (hidden library state cannot be merged away)
    core_depth = 5 if quick else 6
    ex = Explorer(C03(maxs=3, max_a=2, max_b=1, core=True), variant=variant, deadline=deadline)
    try:
        core_ok = ex.dfs(core_depth) if not ex._timeup() else False
        confirm_violations(ex, rep)
        st = ex.stats
        runs.append({"config": "core alphabet (open rw/ro, close oldest/newest, close-all, user/SO login, logout; 2 tokens, <=3 sessions), no merging", "variant": variant,
                     "unmerged_depth": core_depth, "unmerged_paths": st["dfs_paths"], "unmerged_transitions": st["dfs_transitions"], "complete": bool(core_ok)})
        total["transitions"] += st["dfs_transitions"]
        total["traces"] += st["dfs_paths"]
        for k, v in st["counters"].items():
            counters[k] = counters.get(k, 0) + v
        exhaustive = exhaustive and bool(core_ok)
    finally:
        ex.close()
    positive = sum(counters.get(k, 0) for k in ("login_ok", "open_ok", "logout_ok", "close_ok"))
    if positive == 0 or counters.get("login_ok", 0) == 0:
        rep.harness_errors.append("vacuous: no successful login/open was explored")
    rep.coverage = {"states": total["states"], "transitions": total["transitions"], "traces_validated_against_impl": total["traces"],
                    "samples": samples, "exhaustive": exhaustive, "runs": runs, "outcome_counters": counters,
                    "rule": "state = shortest action history per canonical key (token login/PIN/initialised flags, ordered session list); "
                            "every transition is executed on the real library and compared with the PKCS#11 login-state model; "
                            "traces = merged states (each reached by SNAP and again by replay from scratch) + unmerged DFS paths"}
    rep.assumptions = ["the canonical key captures all state relevant to future behaviour (bounded by the unmerged DFS cross-run)",
                       "session bound as stated per configuration; PIN alphabet: two values per user type and token, one wrong PIN, the other user's PIN"]
    return rep.finish()
