"""C07, always-authenticate clause (DESIGN.md 3/C07 second part): a private-key operation on a key with CKA_ALWAYS_AUTHENTICATE true cannot
produce output before a successful context-specific login.

Unmerged depth-first enumeration on the real library of every sequence (up to the depth bound) over
  SignInit / DecryptInit with always-authenticate RSA and EC private keys and a plain RSA key, in two sessions,
  Sign, SignUpdate, SignFinal, Decrypt,
  C_Login(CKU_CONTEXT_SPECIFIC) with the right PIN, a wrong PIN, the SO PIN, and in the OTHER session,
  C_Login(CKU_USER) again, C_Logout + C_Login(CKU_USER).
Oracle (only-if, restricted to sign and decrypt - the two uses PKCS#11 defines for the attribute): a Sign/SignUpdate/SignFinal/Decrypt call
returns CKR_OK only if the operation's key is not always-authenticate or a context-specific login with the user PIN succeeded in THAT session
since the Init; a context-specific login with a wrong or the SO PIN never returns CKR_OK.  Liveness counters guard against vacuity (the
authenticated path must produce output).
"""
from p11mc import consts as C
from p11mc.core import CheckBase, Violation
from p11mc import world as W, fixtures as F
from p11mc.p11 import Out, mech

KEYS = {"rsa_aa": ("rsa1024_priv", True), "ec_aa": ("ec256_priv", True), "rsa_plain": ("rsa1024_priv", False)}
INITS = [("sinit", 0, "rsa_aa", "sha256-rsa"), ("sinit", 0, "ec_aa", "ecdsa"), ("sinit", 0, "rsa_plain", "rsa-pkcs"), ("dinit", 0, "rsa_aa", "rsa-pkcs"), ("sinit", 1, "rsa_aa", "rsa-pkcs"),
         # Inits that must FAIL on an always-authenticate key (mechanism of another key type): a failed Init must not leave a re-authentication request behind
         ("sinit", 0, "rsa_aa", "ecdsa"), ("sinit", 0, "ec_aa", "rsa-pkcs")]
MECH = {"sha256-rsa": lambda: mech(C.CKM_SHA256_RSA_PKCS), "ecdsa": lambda: mech(C.CKM_ECDSA), "rsa-pkcs": lambda: mech(C.CKM_RSA_PKCS)}
OPS = [("sign", 0), ("supdate", 0), ("sfinal", 0), ("decrypt", 0), ("sign", 1)]
LOGINS = [("ctx", 0, "right"), ("ctx", 0, "wrong"), ("ctx", 0, "so"), ("ctx", 1, "right")]
MISC = [("userlogin", 0), ("relogin",), ("logout",)]      # after "logout" the user stays logged out until "userlogin" / "relogin"
DATA = bytes(range(32))


class C07AA(CheckBase):
    ID = "C07"

    def __init__(self):
        self.kw = {}

    def world(self, ctx):
        w = W.two_tokens(ctx)
        p = ctx.p
        W.ok(p.Initialize(), "init")
        s = W.ok(p.OpenSession(w["slots"]["A"]), "open")["h"]
        W.ok(p.Login(s, C.CKU_USER, W.USER_A), "login")
        for name, (kind, aa) in KEYS.items():
            W.ok(p.CreateObject(s, F.template(kind, token=True, private=True, label=name.encode(),
                                              extra=[(C.CKA_SIGN, True), (C.CKA_DECRYPT, True), (C.CKA_ALWAYS_AUTHENTICATE, aa)])), "key " + name)
        pub = W.ok(p.CreateObject(s, F.template("rsa1024_pub", token=True, private=False, label=b"rsa_pub", extra=[(C.CKA_ENCRYPT, True)])), "pub")["h"]
        W.ok(p.init_op("Encrypt", s, mech(C.CKM_RSA_PKCS), pub), "encrypt init")
        w["ct"] = W.ok(p.op("Encrypt", s, b"always-authenticate", Out(128)), "encrypt")["out"]
        W.ok(p.Finalize(), "final")
        return w

    def setup(self, ctx, world):
        p = ctx.p
        W.ok(p.Initialize(), "init")
        ss = [W.ok(p.OpenSession(world["slots"]["A"]), "open")["h"] for _ in (0, 1, 2)]      # the third session only looks keys up
        W.ok(p.Login(ss[0], C.CKU_USER, W.USER_A), "login")
        # model: sessions, per session op = None | dict(kind, aa, authed)
        # certain[si]: the model knows whether an operation is active in that session (lost after an error of unknown consequence, regained by a successful Init)
        return {"s": ss, "op": [None, None], "certain": [True, True], "logged_in": True}

    def actions(self, m):
        return INITS + OPS + LOGINS + MISC

    def key(self, ctx, m):
        return repr((m["op"], m["certain"], m.get("logged_in")))

    def step(self, ctx, m, a):
        p = ctx.p
        kind = a[0]
        if kind in ("sinit", "dinit"):
            _k, si, keyname, mname = a
            hs = p.FindAll(m["s"][2], [(C.CKA_LABEL, keyname.encode()), (C.CKA_CLASS, C.CKO_PRIVATE_KEY)]).get("hs") or []
            if len(hs) != 1:
                if not m.get("logged_in", True):
                    return m             # logged out: the private keys are not visible, nothing can be initialised
                raise Violation("C07|aa|harness|key-not-found", {"key": keyname})
            r = p.init_op("Sign" if kind == "sinit" else "Decrypt", m["s"][si], MECH[mname](), hs[0])
            if r["rv"] == C.CKR_OK:
                if m["op"][si] is not None:
                    ctx.count("init-accepted-while-model-holds-an-operation")
                m["op"][si] = {"kind": kind[0], "aa": KEYS[keyname][1], "authed": False, "mech": mname}
                m["certain"][si] = True
                ctx.count("init-ok")
            elif r["rv"] == C.CKR_OPERATION_ACTIVE and m["op"][si] is None:
                m["certain"][si] = False
            return m
        if kind in ("sign", "supdate", "sfinal", "decrypt"):
            si = a[1]
            s = m["s"][si]
            if kind == "sign":
                r = p.op("Sign", s, DATA, Out(160))
            elif kind == "supdate":
                r = p.op("SignUpdate", s, DATA)
            elif kind == "sfinal":
                r = p.op("SignFinal", s, None, Out(160))
            else:
                r = p.op("Decrypt", s, bytes.fromhex(ctx.world["ct"]), Out(160))
            op = m["op"][si]
            if op is not None and op["kind"] != ("d" if kind == "decrypt" else "s"):
                if r["rv"] == C.CKR_OK:
                    ctx.count("output-plain-key-or-unmodelled")
                return m                 # a call of the other kind does not touch the modelled operation
            if r["rv"] == C.CKR_USER_NOT_LOGGED_IN and op is not None and not op["aa"]:
                raise Violation("C07|aa|%s|ordinary-key-operation-refused-for-missing-context-specific-login|%s" % (kind, op["mech"]), {})
            if r["rv"] == C.CKR_OK:
                if op is not None and op["aa"] and not op["authed"] and kind == "supdate":
                    ctx.count("update-accepted-before-login (no output yet, not judged)")
                elif op is not None and op["aa"] and not op["authed"]:
                    raise Violation("C07|aa|%s|succeeded-without-context-specific-login|%s" % (kind, op["mech"]), {"answer": {k: v for k, v in r.items() if k != "out"}})
                ctx.count("output-after-context-login" if (op is not None and op["aa"]) else "output-plain-key-or-unmodelled")
            if kind == "supdate" and r["rv"] == C.CKR_OK:
                pass                     # operation continues
            elif r["rv"] != C.CKR_BUFFER_TOO_SMALL:
                m["op"][si] = None       # success, or an error that ends the operation (the automaton itself is C12's subject)
                if r["rv"] not in (C.CKR_OK, C.CKR_USER_NOT_LOGGED_IN):     # (CKR_OPERATION_NOT_INITIALIZED is also the answer to a multi-part call on a single-part operation, which stays)
                    m["certain"][si] = False
            return m
        if kind == "ctx":
            _k, si, which = a
            pin = {"right": W.USER_A, "wrong": W.WRONG, "so": W.SO_A}[which]
            r = p.Login(m["s"][si], C.CKU_CONTEXT_SPECIFIC, pin)
            op = m["op"][si]
            if r["rv"] == C.CKR_OK:
                if which != "right":
                    raise Violation("C07|aa|context-specific-login-accepted-%s-pin" % which, {})
                if op is None or not op["aa"] or op["authed"]:
                    # nothing is waiting for it.  (The model forgets an operation only on evidence that it ended; "op is None" after a failed call of the
                    # other kind is impossible because such calls leave the model alone.)
                    if m["certain"][si]:
                        raise Violation("C07|aa|context-specific-login-accepted-although-no-operation-waits-for-it", {"model_op": repr(op)})
                if op is not None:
                    op["authed"] = True
                ctx.count("context-login-ok")
            return m
        if kind == "userlogin":
            r = p.Login(m["s"][a[1]], C.CKU_USER, W.USER_A)
            if r["rv"] == C.CKR_OK:
                m["logged_in"] = True
            return m
        if kind == "logout":
            # an operation that was initialised before keeps its key material; whether it may still produce output is exactly the question
            if p.Logout(m["s"][0])["rv"] == C.CKR_OK:
                m["logged_in"] = False
            return m
        if kind == "relogin":
            p.Logout(m["s"][0])
            W.ok(p.Login(m["s"][0], C.CKU_USER, W.USER_A), "login again")
            m["logged_in"] = True
            return m
        raise ValueError(a)
