"""C07 - key usage flags, key type and mechanism restrictions (DESIGN.md 3/C07, Appendix E).

Full product, executed on the real library:  operation (7 keyed kinds) x key (15 class/type combinations) x usage-flag
variant (all true / exactly this operation's flag false) x every CKM_* value of PKCS#11 v2.40 plus unknown values x
CKA_ALLOWED_MECHANISMS in {absent, {m}, {another}} x slots.mechanisms in {ALL, positive list, negative list}; plus
C_DigestInit, C_GenerateKey and C_GenerateKeyPair x mechanism x configuration.  Oracle (only-if): CKR_OK implies flag true,
(class, type) fits the mechanism per the table written from the PKCS#11 mechanism sections, m in the allowed list when it
is non-empty, and m in C_GetMechanismList under that configuration.  Second part: always-authenticate histories.
"""
import copy, os, time, traceback
from p11mc import consts as C
from p11mc.core import CheckBase, Explorer, Violation, Died, confirm_violations
from p11mc import core
from p11mc.runner import Report
from p11mc import world as W, fixtures as F
from p11mc.p11 import Out, tpl, mech, blob, ul, keyderiv_string, ecdh_params, oaep_params, pss_params, gcm_params, ctr_params, cbc_encrypt_data_params, mechlist

OPS = ["encrypt", "decrypt", "sign", "verify", "wrap", "unwrap", "derive"]
FLAG = {"encrypt": C.CKA_ENCRYPT, "decrypt": C.CKA_DECRYPT, "sign": C.CKA_SIGN, "verify": C.CKA_VERIFY, "wrap": C.CKA_WRAP, "unwrap": C.CKA_UNWRAP, "derive": C.CKA_DERIVE}
CLASS_FLAGS = {C.CKO_SECRET_KEY: OPS, C.CKO_PUBLIC_KEY: ["encrypt", "verify", "wrap"], C.CKO_PRIVATE_KEY: ["decrypt", "sign", "unwrap", "derive"]}
KINDS = ["aes128", "des", "des2", "des3", "generic32", "rsa1024_pub", "rsa1024_priv", "dsa_pub", "dsa_priv", "dh_pub", "dh_priv",
         "ec256_pub", "ec256_priv", "ed25519_pub", "ed25519_priv"]
IV16, IV8 = bytes(range(16)), bytes(range(8))

# ---- reference table (DESIGN Appendix E): mechanism -> (operations, key types); written from the PKCS#11 v2.40 mechanism sections
SYM_ENC = {"encrypt", "decrypt", "wrap", "unwrap"}
SV = {"sign", "verify"}
TABLE = {}


def _t(ms, ops, kts, asym):
    for m in ms:
        TABLE[m] = (set(ops), set(kts), asym)


_t([C.CKM_RSA_PKCS, C.CKM_RSA_X_509], SYM_ENC | SV, [C.CKK_RSA], True)
_t([C.CKM_RSA_PKCS_OAEP], SYM_ENC, [C.CKK_RSA], True)
_t([C.CKM_MD5_RSA_PKCS, C.CKM_SHA1_RSA_PKCS, C.CKM_SHA224_RSA_PKCS, C.CKM_SHA256_RSA_PKCS, C.CKM_SHA384_RSA_PKCS, C.CKM_SHA512_RSA_PKCS, C.CKM_RSA_PKCS_PSS,
    C.CKM_SHA1_RSA_PKCS_PSS, C.CKM_SHA224_RSA_PKCS_PSS, C.CKM_SHA256_RSA_PKCS_PSS, C.CKM_SHA384_RSA_PKCS_PSS, C.CKM_SHA512_RSA_PKCS_PSS], SV, [C.CKK_RSA], True)
_t([C.CKM_DSA, C.CKM_DSA_SHA1, C.CKM_DSA_SHA224, C.CKM_DSA_SHA256, C.CKM_DSA_SHA384, C.CKM_DSA_SHA512], SV, [C.CKK_DSA], True)
_t([C.CKM_ECDSA], SV, [C.CKK_EC], True)
_t([C.CKM_EDDSA], SV, [C.CKK_EC_EDWARDS], True)
_t([C.CKM_DH_PKCS_DERIVE], {"derive"}, [C.CKK_DH], True)
_t([C.CKM_ECDH1_DERIVE], {"derive"}, [C.CKK_EC, C.CKK_EC_EDWARDS], True)
_t([C.CKM_MD5_HMAC], SV, [C.CKK_GENERIC_SECRET, C.CKK_MD5_HMAC], False)
_t([C.CKM_SHA_1_HMAC], SV, [C.CKK_GENERIC_SECRET, C.CKK_SHA_1_HMAC], False)
_t([C.CKM_SHA224_HMAC], SV, [C.CKK_GENERIC_SECRET, C.CKK_SHA224_HMAC], False)
_t([C.CKM_SHA256_HMAC], SV, [C.CKK_GENERIC_SECRET, C.CKK_SHA256_HMAC], False)
_t([C.CKM_SHA384_HMAC], SV, [C.CKK_GENERIC_SECRET, C.CKK_SHA384_HMAC], False)
_t([C.CKM_SHA512_HMAC], SV, [C.CKK_GENERIC_SECRET, C.CKK_SHA512_HMAC], False)
_t([C.CKM_AES_CMAC], SV, [C.CKK_AES], False)
_t([C.CKM_DES3_CMAC], SV, [C.CKK_DES2, C.CKK_DES3], False)
_t([C.CKM_DES_ECB, C.CKM_DES_CBC, C.CKM_DES_CBC_PAD], SYM_ENC, [C.CKK_DES], False)
_t([C.CKM_DES3_ECB, C.CKM_DES3_CBC, C.CKM_DES3_CBC_PAD], SYM_ENC, [C.CKK_DES2, C.CKK_DES3], False)
_t([C.CKM_AES_ECB, C.CKM_AES_CBC, C.CKM_AES_CBC_PAD, C.CKM_AES_CTR, C.CKM_AES_GCM, C.CKM_AES_KEY_WRAP, C.CKM_AES_KEY_WRAP_PAD], SYM_ENC, [C.CKK_AES], False)
_t([C.CKM_DES_ECB_ENCRYPT_DATA, C.CKM_DES_CBC_ENCRYPT_DATA], {"derive"}, [C.CKK_DES], False)
_t([C.CKM_DES3_ECB_ENCRYPT_DATA, C.CKM_DES3_CBC_ENCRYPT_DATA], {"derive"}, [C.CKK_DES2, C.CKK_DES3], False)
_t([C.CKM_AES_ECB_ENCRYPT_DATA, C.CKM_AES_CBC_ENCRYPT_DATA], {"derive"}, [C.CKK_AES], False)
_t([C.CKM_CONCATENATE_BASE_AND_KEY, C.CKM_CONCATENATE_BASE_AND_DATA, C.CKM_CONCATENATE_DATA_AND_BASE], {"derive"},
   [C.CKK_AES, C.CKK_DES, C.CKK_DES2, C.CKK_DES3, C.CKK_GENERIC_SECRET], False)

ALL_MECHS = sorted({v for k, v in vars(C).items() if k.startswith("CKM_") and isinstance(v, int) and v < 0x80000000}) + [0x7777, 0x80000001, 0xFFFFFFFF]

CONFIGS = {
    "ALL": "ALL",
    "positive": "CKM_AES_CBC,CKM_AES_KEY_WRAP,CKM_SHA256,CKM_SHA256_HMAC,CKM_RSA_PKCS,CKM_SHA256_RSA_PKCS,CKM_ECDSA,CKM_AES_KEY_GEN,CKM_EC_KEY_PAIR_GEN,CKM_CONCATENATE_BASE_AND_DATA,CKM_DSA_SHA1",
    "negative": "-CKM_AES_ECB,CKM_AES_CBC_PAD,CKM_SHA_1,CKM_SHA512_HMAC,CKM_RSA_PKCS_OAEP,CKM_RSA_X_509,CKM_ECDH1_DERIVE,CKM_AES_CMAC,CKM_DES3_KEY_GEN,CKM_RSA_PKCS_KEY_PAIR_GEN,CKM_AES_ECB_ENCRYPT_DATA,CKM_EDDSA,CKM_AES_KEY_WRAP_PAD,CKM_DSA",
}

HASH_OF = {C.CKM_SHA1_RSA_PKCS_PSS: (C.CKM_SHA_1, C.CKG_MGF1_SHA1, 20), C.CKM_SHA224_RSA_PKCS_PSS: (C.CKM_SHA224, C.CKG_MGF1_SHA224, 28),
           C.CKM_SHA256_RSA_PKCS_PSS: (C.CKM_SHA256, C.CKG_MGF1_SHA256, 32), C.CKM_SHA384_RSA_PKCS_PSS: (C.CKM_SHA384, C.CKG_MGF1_SHA384, 48),
           C.CKM_SHA512_RSA_PKCS_PSS: (C.CKM_SHA512, C.CKG_MGF1_SHA512, 64), C.CKM_RSA_PKCS_PSS: (C.CKM_SHA_1, C.CKG_MGF1_SHA1, 20)}


def mech_spec(m, kind, other_key=0):
    """a valid parameter for mechanism m (so that parameter errors do not mask the decision)"""
    if m in (C.CKM_AES_CBC, C.CKM_AES_CBC_PAD):
        return mech(m, IV16)
    if m in (C.CKM_DES_CBC, C.CKM_DES_CBC_PAD, C.CKM_DES3_CBC, C.CKM_DES3_CBC_PAD):
        return mech(m, IV8)
    if m == C.CKM_AES_CTR:
        return mech(m, ctr_params(128, IV16))
    if m == C.CKM_AES_GCM:
        return mech(m, gcm_params(bytes(12), b"", 128))
    if m == C.CKM_RSA_PKCS_OAEP:
        return mech(m, oaep_params())
    if m in HASH_OF:
        return mech(m, pss_params(*HASH_OF[m]))
    if m == C.CKM_ECDH1_DERIVE:
        peer = "ed25519peer" if kind.startswith("ed") else "ec256peer"
        if kind.startswith("ed"):
            peer = "x25519peer"
        return mech(m, ecdh_params(F.H(F.KEYS[peer]["rawpoint"])))
    if m == C.CKM_DH_PKCS_DERIVE:
        return mech(m, F.H(F.KEYS["dh1024peer"]["y"]))
    if m in (C.CKM_DES_ECB_ENCRYPT_DATA, C.CKM_DES3_ECB_ENCRYPT_DATA, C.CKM_AES_ECB_ENCRYPT_DATA):
        return mech(m, keyderiv_string(bytes(32)))
    if m in (C.CKM_DES_CBC_ENCRYPT_DATA, C.CKM_DES3_CBC_ENCRYPT_DATA):
        return mech(m, cbc_encrypt_data_params(IV8, bytes(32)))
    if m == C.CKM_AES_CBC_ENCRYPT_DATA:
        return mech(m, cbc_encrypt_data_params(IV16, bytes(32)))
    if m in (C.CKM_CONCATENATE_BASE_AND_DATA, C.CKM_CONCATENATE_DATA_AND_BASE):
        return mech(m, keyderiv_string(b"12345678"))
    if m == C.CKM_CONCATENATE_BASE_AND_KEY:
        return mech(m, ul(other_key))
    return mech(m)


def key_template(kind, variant, allowed):
    cls = F.klass(kind)
    flags = CLASS_FLAGS[cls]
    extra = [(FLAG[f], not (variant == "f-" + f)) for f in flags]
    if allowed is not None:
        extra.append((C.CKA_ALLOWED_MECHANISMS, mechlist(allowed)))
    return F.template(kind, token=False, private=False, label=b"k", extra=extra)


class C07(CheckBase):
    ID = "C07"

    def __init__(self, config="ALL"):
        self.kw = dict(config=config)
        self.config = config

    def world(self, ctx):
        return W.two_tokens(ctx)

    def setup(self, ctx, world):
        p = ctx.p
        W.ok(p.Initialize(), "init")
        slot = world["slots"]["A"]
        n = p.GetMechanismList(slot, "q")["n"]
        adv = p.GetMechanismList(slot, n)["mechs"]
        s0 = W.ok(p.OpenSession(slot), "open")["h"]
        W.ok(p.Login(s0, C.CKU_USER, W.USER_A), "login")
        return {"adv": adv, "s0": s0, "slot": slot}


def _blobs(ctx, st):
    """valid wrapped blobs per wrapping-key kind / mechanism family, produced with fully permitted keys of the same value (set-up only)"""
    p, s0 = ctx.p, st["s0"]
    out = {}
    tgt = W.ok(p.CreateObject(s0, F.template("aes128", token=False, private=False, label=b"wrap-target")), "target")["h"]
    for kind in ("aes128", "des", "des2", "des3", "rsa1024_pub"):
        k = p.CreateObject(s0, key_template(kind, "all", None))
        if k["rv"] != 0:
            continue
        for m in (C.CKM_AES_KEY_WRAP, C.CKM_AES_KEY_WRAP_PAD, C.CKM_AES_CBC_PAD, C.CKM_AES_CBC, C.CKM_AES_ECB, C.CKM_DES3_CBC_PAD, C.CKM_DES3_CBC, C.CKM_DES_CBC_PAD,
                  C.CKM_RSA_PKCS, C.CKM_RSA_PKCS_OAEP, C.CKM_RSA_X_509):
            r = p.call("C_WrapKey s=%d mech=%s wk=%d k=%d out=b600" % (s0, mech_spec(m, kind), k["h"], tgt))
            if r["rv"] == 0:
                out[(kind.replace("_pub", ""), m)] = bytes.fromhex(r["out"])[:r["len"]]
    st["blobs"] = out
    st["target"] = tgt


UT = [(C.CKA_CLASS, C.CKO_SECRET_KEY), (C.CKA_KEY_TYPE, C.CKK_AES), (C.CKA_TOKEN, False), (C.CKA_PRIVATE, False)]
DT = [(C.CKA_CLASS, C.CKO_SECRET_KEY), (C.CKA_KEY_TYPE, C.CKK_GENERIC_SECRET), (C.CKA_TOKEN, False), (C.CKA_PRIVATE, False), (C.CKA_VALUE_LEN, 16)]
DT_IMPLICIT = [(C.CKA_TOKEN, False), (C.CKA_PRIVATE, False)]


def _op_line(op, s, m, kind, h, st):
    ms = mech_spec(m, kind, st["target"])
    if op in ("encrypt", "decrypt", "sign", "verify"):
        return "C_%sInit s=%d mech=%s k=%d" % (op.capitalize(), s, ms, h)
    if op == "wrap":
        return "C_WrapKey s=%d mech=%s wk=%d k=%d out=b600" % (s, ms, h, st["target"])
    if op == "unwrap":
        b = st["blobs"].get((kind.replace("_pub", "").replace("_priv", ""), m), bytes(32))
        return "C_UnwrapKey s=%d mech=%s k=%d in=%s tpl=%s" % (s, ms, h, blob(b), tpl(UT))
    concat = m in (C.CKM_CONCATENATE_BASE_AND_KEY, C.CKM_CONCATENATE_BASE_AND_DATA, C.CKM_CONCATENATE_DATA_AND_BASE)
    return "C_DeriveKey s=%d mech=%s k=%d tpl=%s" % (s, ms, h, tpl(DT_IMPLICIT if concat else DT))


def judge(op, m, kind, variant, allowed, adv):
    """reasons why CKR_OK would be a violation (empty list = success is permitted)"""
    why = []
    cls = F.klass(kind)
    kt = dict(F.base(kind))[C.CKA_KEY_TYPE]
    if op not in CLASS_FLAGS[cls] or variant == "f-" + op:
        why.append("usage-flag-false")
    if allowed is not None and m not in allowed:
        why.append("not-in-allowed-mechanisms")
    if m not in adv:
        why.append("not-advertised")
    if m in TABLE:
        ops, kts, asym = TABLE[m]
        if op not in ops:
            why.append("operation-not-defined-for-mechanism")
        elif kt not in kts:
            why.append("key-type-mismatch")
        elif asym and cls == C.CKO_SECRET_KEY or (not asym and cls != C.CKO_SECRET_KEY):
            why.append("key-class-mismatch")
    return why


def _task(task):
    mechs = task
    ctx, check = core._W["ctx"], core._W["check"]
    st0 = core._W["model0"]
    ctx.counters = {}
    out = {"viol": {}, "harness": None, "counters": None, "samples": []}
    sh, p = ctx.sh, ctx.p
    try:
        sh.snap(copy=False)
        try:
            st = dict(st0)
            _blobs(ctx, st)
            adv = set(st["adv"])
            s0, slot = st["s0"], st["slot"]
            for m in mechs:
                other = C.CKM_SHA512_HMAC if m != C.CKM_SHA512_HMAC else C.CKM_SHA384_HMAC
                # keys for this mechanism
                keys = []
                clines = []
                for kind in KINDS:
                    cls = F.klass(kind)
                    combos = [("all", None), ("all", (m,)), ("all", (other,))] + [("f-" + f, None) for f in CLASS_FLAGS[cls]]
                    for variant, allowed in combos:
                        clines.append("C_CreateObject s=%d tpl=%s" % (s0, tpl(key_template(kind, variant, allowed))))
                        keys.append((kind, variant, allowed))
                rs = p.batch(clines)
                handles = [r["h"] if r["rv"] == 0 else 0 for r in rs]
                if not all(handles):
                    bad = [keys[i] for i, h in enumerate(handles) if not h]
                    out["harness"] = "key creation failed for %r" % (bad[:3],)
                    return out
                pool = [W.ok(p.OpenSession(slot), "open")["h"] for _ in range(1)]
                lines2, plan2 = [], []
                for (kind, variant, allowed), h in zip(keys, handles):
                    for op in OPS:
                        lines2.append(_op_line(op, pool[0], m, kind, h, st))
                        plan2.append((op, kind, variant, allowed))
                # execute: one fresh session per successful Init (an active operation would mask the next decision)
                i = 0
                s = pool[0]
                while i < len(lines2):
                    j = min(len(lines2), i + 400)
                    chunk = [l.replace("s=%d " % pool[0], "s=%d " % s, 1) for l in lines2[i:j]]
                    rs = p.batch(chunk)
                    redo_from = None
                    for k2, r in enumerate(rs):
                        op, kind, variant, allowed = plan2[i + k2]
                        ctx.count("cells")
                        if r["rv"] == 0:
                            ctx.count("cells_ok")
                            why = judge(op, m, kind, variant, allowed, adv)
                            if why:
                                sig = "C07|%s|%s|%s|key=%s|config=%s" % (op, "+".join(why), C.CKM_NAMES.get(m, hex(m)), kind, check.config)
                                out["viol"].setdefault(sig, {"signature": sig, "detail": {"line": chunk[k2][:300], "variant": variant, "allowed": allowed},
                                                             "mech": m, "history": [chunk[k2][:300]], "action": None})
                            elif len(out["samples"]) < 2:
                                out["samples"].append({"op": op, "mechanism": C.CKM_NAMES.get(m, hex(m)), "key": kind, "variant": variant, "allowed": allowed, "rv": "CKR_OK"})
                            if op in ("encrypt", "decrypt", "sign", "verify"):
                                # the session now has an active operation: replace it and re-run the rest of the chunk
                                p.CloseSession(s)
                                s = W.ok(p.OpenSession(slot), "open")["h"]
                                redo_from = i + k2 + 1
                                break
                    i = redo_from if redo_from is not None else j
                p.CloseSession(s)
                # configuration clause: digest and key generation
                s = W.ok(p.OpenSession(slot), "open")["h"]
                r = p.call("C_DigestInit s=%d mech=%s" % (s, mech(m)))
                ctx.count("cells")
                if r["rv"] == 0:
                    ctx.count("cells_ok")
                    if m not in adv:
                        sig = "C07|digest-init|not-advertised|%s|config=%s" % (C.CKM_NAMES.get(m, hex(m)), check.config)
                        out["viol"].setdefault(sig, {"signature": sig, "detail": {}, "mech": m, "history": [], "action": None})
                p.CloseSession(s)
                s = W.ok(p.OpenSession(slot), "open")["h"]
                gens = {C.CKM_AES_KEY_GEN: [(C.CKA_VALUE_LEN, 16)], C.CKM_DES_KEY_GEN: [], C.CKM_DES2_KEY_GEN: [], C.CKM_DES3_KEY_GEN: [], C.CKM_GENERIC_SECRET_KEY_GEN: [(C.CKA_VALUE_LEN, 16)]}
                gt = [(C.CKA_TOKEN, False), (C.CKA_PRIVATE, False)] + gens.get(m, [(C.CKA_VALUE_LEN, 16)])
                r = p.call("C_GenerateKey s=%d mech=%s tpl=%s" % (s, mech(m), tpl(gt)))
                ctx.count("cells")
                if r["rv"] == 0:
                    ctx.count("cells_ok")
                    if m not in adv:
                        sig = "C07|generate-key|not-advertised|%s|config=%s" % (C.CKM_NAMES.get(m, hex(m)), check.config)
                        out["viol"].setdefault(sig, {"signature": sig, "detail": {}, "mech": m, "history": [], "action": None})
                if m in (C.CKM_EC_KEY_PAIR_GEN, C.CKM_EC_EDWARDS_KEY_PAIR_GEN, C.CKM_RSA_PKCS_KEY_PAIR_GEN, C.CKM_DSA_KEY_PAIR_GEN, C.CKM_DH_PKCS_KEY_PAIR_GEN) or m not in adv:
                    pubt = {C.CKM_EC_KEY_PAIR_GEN: [(C.CKA_EC_PARAMS, F.H(F.KEYS["ec256"]["params"]))],
                            C.CKM_EC_EDWARDS_KEY_PAIR_GEN: [(C.CKA_EC_PARAMS, F.H(F.KEYS["ed25519"]["params"]))],
                            C.CKM_RSA_PKCS_KEY_PAIR_GEN: [(C.CKA_MODULUS_BITS, 1024), (C.CKA_PUBLIC_EXPONENT, b"\x01\x00\x01")],
                            C.CKM_DSA_KEY_PAIR_GEN: [(C.CKA_PRIME, F.H(F.KEYS["dsa1024"]["p"])), (C.CKA_SUBPRIME, F.H(F.KEYS["dsa1024"]["q"])), (C.CKA_BASE, F.H(F.KEYS["dsa1024"]["g"]))],
                            C.CKM_DH_PKCS_KEY_PAIR_GEN: [(C.CKA_PRIME, F.H(F.KEYS["dh1024"]["p"])), (C.CKA_BASE, F.H(F.KEYS["dh1024"]["g"]))]}.get(m, [(C.CKA_EC_PARAMS, F.H(F.KEYS["ec256"]["params"]))])
                    r = p.call("C_GenerateKeyPair s=%d mech=%s pub=%s priv=%s" % (s, mech(m), tpl(pubt + [(C.CKA_TOKEN, False)]), tpl([(C.CKA_TOKEN, False), (C.CKA_PRIVATE, False)])))
                    ctx.count("cells")
                    if r["rv"] == 0:
                        ctx.count("cells_ok")
                        if m not in adv:
                            sig = "C07|generate-key-pair|not-advertised|%s|config=%s" % (C.CKM_NAMES.get(m, hex(m)), check.config)
                            out["viol"].setdefault(sig, {"signature": sig, "detail": {}, "mech": m, "history": [], "action": None})
                p.CloseSession(s)
                # free the keys of this mechanism
                p.batch(["C_DestroyObject s=%d o=%d" % (s0, h) for h in handles])
        finally:
            sh.unwind(0)
    except Died as d:
        sig = "C07|died|%r|during=%s" % (d.info, (d.during or "")[:60])
        out["viol"][sig] = {"signature": sig, "detail": {"during": d.during}, "mech": mechs[0], "history": [d.during], "action": None}
        if d.info.get("eof"):
            core._fresh_shell()
    except Exception:
        out["harness"] = traceback.format_exc()
        try:
            core._fresh_shell()
        except Exception:
            pass
    out["counters"] = ctx.counters
    out["viol"] = list(out["viol"].values())
    return out


def run_matrix(rep, variant, configs, deadline):
    tot = {"cells": 0, "cells_ok": 0}
    samples = []
    runs = []
    for cname in configs:
        check = C07(config=cname)
        ex = Explorer(check, variant=variant, conf_kw={"mechanisms": CONFIGS[cname]}, deadline=deadline)
        try:
            adv = ex.pool.apply(_get_adv)
            found = {}
            tasks = [[m] for m in ALL_MECHS]
            # advertised mechanisms first (they are the expensive and interesting ones)
            tasks.sort(key=lambda t: (t[0] not in adv, t[0]))
            cnt = {}
            for r in ex.pool.imap_unordered(_task, tasks):
                if r["harness"]:
                    rep.harness_errors.append(r["harness"])
                for k, v in (r["counters"] or {}).items():
                    cnt[k] = cnt.get(k, 0) + v
                for v in r["viol"]:
                    found.setdefault(v["signature"], v)
                samples += r["samples"][:1]
            # confirm each violation by re-running its mechanism task in a fresh shell
            todo = sorted(found.items())
            by_mech = {}
            for sig, v in todo:
                by_mech.setdefault(v["mech"], []).append(sig)
            ms = sorted(by_mech)
            res = ex.pool.map(_task_fresh, [[m] for m in ms], chunksize=1)
            for m, r in zip(ms, res):
                seen = {v["signature"] for v in r["viol"]}
                for sig in by_mech[m]:
                    if sig in seen:
                        v = dict(found[sig])
                        v.update(variant=variant, store="file", replay_module="c07_usage", config=cname)
                        rep.add_violation(v)
                    else:
                        rep.harness_errors.append("violation %s did not reproduce" % sig)
            runs.append({"config": cname, "slots.mechanisms": CONFIGS[cname], "advertised": len(adv), "cells": cnt.get("cells", 0), "cells_ok": cnt.get("cells_ok", 0)})
            tot["cells"] += cnt.get("cells", 0)
            tot["cells_ok"] += cnt.get("cells_ok", 0)
            if cname == "positive" and not set(adv) <= {getattr(C, n) for n in CONFIGS[cname].split(",")}:
                rep.add_violation({"signature": "C07|config|positive-list-advertises-more-than-listed", "detail": {"advertised": adv}, "history": [], "action": None})
            if cname == "negative" and set(adv) & {getattr(C, n) for n in CONFIGS[cname].lstrip("-").split(",")}:
                rep.add_violation({"signature": "C07|config|negative-list-still-advertises-removed-mechanism", "detail": {"advertised": adv}, "history": [], "action": None})
        finally:
            ex.close()
    return tot, samples, runs


def _get_adv():
    return core._W["model0"]["adv"]


def _task_fresh(task):
    core._fresh_shell()
    return _task(task)


class TwoCall(Exception):
    pass


def config_list_pass(rep, variant):
    """the advertised list itself, judged independently of the library's own parsing: under a positive list exactly the named mechanisms the build supports,
    under a negative list everything but the named ones - also when the list contains a name this build does not know (first / middle / last), blanks
    or a repeated name.  returns the number of configurations compared"""
    import shutil
    from p11mc import p11 as P
    root = P.scratch_root()
    n = 0
    try:
        def advertised(conf, tag):
            sd = os.path.join(root, tag)
            shutil.copytree(os.path.join(root, "base"), sd)
            P.write_conf(sd, mechanisms=conf)
            sh = P.Shell(variant, sd)
            try:
                p = P.P11(sh)
                W.ok(p.Initialize(), "init")
                slot = p.GetSlotList(1, 8)["slots"][0]
                cnt = p.GetMechanismList(slot, "q")["n"]
                # the list is fetched the way applications do it: with exactly the reported count (the buffer ends at a guard page)
                try:
                    r = p.GetMechanismList(slot, cnt)
                except Died as d:
                    raise TwoCall("died=%r" % (d.info,))
                # (a name given twice in a positive list is advertised twice by the unchanged library: odd, but not against the statement - not judged)
                if r["rv"] != 0 or r.get("wmax", 0) > 8 * cnt:
                    raise TwoCall("rv=%s count=%d wmax=%s" % (C.CKR_NAMES.get(r["rv"], r["rv"]), cnt, r.get("wmax")))
                return set(r["mechs"])
            finally:
                sh.close()
        os.makedirs(os.path.join(root, "base"))
        P.write_conf(os.path.join(root, "base"))
        sh0 = P.Shell(variant, os.path.join(root, "base"))
        try:
            class _C:
                pass
            c_ = _C(); c_.p = P.P11(sh0)
            W.two_tokens(c_)
        finally:
            sh0.close()
        full = advertised("ALL", "all")
        if len(full) < 40:
            raise RuntimeError("configuration-list pass: only %d mechanisms advertised under ALL" % len(full))
        names = [x for x in CONFIGS["negative"].lstrip("-").split(",")]
        named = {getattr(C, x) for x in names}
        pos_names = CONFIGS["positive"].split(",")
        pos = {getattr(C, x) for x in pos_names}
        variants = []
        for where, lst in (("first", ["CKM_NO_SUCH_MECHANISM_9"] + names), ("middle", names[:5] + ["CKM_NO_SUCH_MECHANISM_9"] + names[5:]), ("last", names + ["CKM_NO_SUCH_MECHANISM_9"]),
                           ("repeated", names[:3] + names)):
            variants.append(("negative-list-with-unknown-name-%s" % where if where != "repeated" else "negative-list-with-repeated-name", "-" + ",".join(lst), full - named))
        for where, lst in (("first", ["CKM_NO_SUCH_MECHANISM_9"] + pos_names), ("last", pos_names + ["CKM_NO_SUCH_MECHANISM_9"])):
            variants.append(("positive-list-with-unknown-name-%s" % where, ",".join(lst), full & pos))
        variants.append(("negative-list-plain", "-" + ",".join(names), full - named))
        variants.append(("positive-list-plain", ",".join(pos_names), full & pos))
        # the restriction in force is the one of the configuration read by THIS C_Initialize: one process initialises under configuration 1, finalises,
        # the file is rewritten, and it initialises again (every ordered pair of ALL / negative / positive list)
        def advertised_after_reload(conf1, conf2, tag):
            sd = os.path.join(root, tag)
            shutil.copytree(os.path.join(root, "base"), sd)
            P.write_conf(sd, mechanisms=conf1)
            sh = P.Shell(variant, sd)
            try:
                p = P.P11(sh)
                W.ok(p.Initialize(), "init")
                slot = p.GetSlotList(1, 8)["slots"][0]
                p.GetMechanismList(slot, "q")
                W.ok(p.Finalize(), "final")
                P.write_conf(sd, mechanisms=conf2)
                W.ok(p.Initialize(), "init")
                slot = p.GetSlotList(1, 8)["slots"][0]
                cnt = p.GetMechanismList(slot, "q")["n"]
                return set(p.GetMechanismList(slot, cnt + 4)["mechs"])
            finally:
                sh.close()
        cfg3 = [("all", "ALL", full), ("negative", "-" + ",".join(names), full - named), ("positive", ",".join(pos_names), full & pos)]
        for t1, c1, _w1 in cfg3:
            for t2, c2, w2 in cfg3:
                if t1 == t2:
                    continue
                tag = "reload-%s-then-%s" % (t1, t2)
                got = advertised_after_reload(c1, c2, tag)
                n += 1
                if got != w2:
                    extra, missing = sorted(got - w2), sorted(w2 - got)
                    rep.add_violation({"signature": "C07|config|%s|advertised-list-differs-from-the-configured-restriction|%s" % (tag, "mechanisms-not-removed" if extra else "mechanisms-missing"),
                                       "detail": {"slots.mechanisms": c2, "first_configuration": c1, "advertised_but_excluded": [C.CKM_NAMES.get(x, hex(x)) for x in extra][:12], "allowed_but_missing": [C.CKM_NAMES.get(x, hex(x)) for x in missing][:12]},
                                       "history": [], "action": None, "variant": variant, "store": "file", "replay_module": "c07_usage", "config_tag": tag, "property": "C07"})
        # softhsm2.conf(5): "Anything after the hash sign will be ignored" - a comment may follow the list with or without a blank in between
        variants.append(("negative-list-with-comment-touching-the-last-name", "-" + ",".join(names) + "# disabled on purpose", full - named))
        variants.append(("negative-list-with-comment-after-blank", "-" + ",".join(names) + " # disabled on purpose", full - named))
        variants.append(("positive-list-with-comment-touching-the-last-name", ",".join(pos_names) + "#only these", full & pos))
        variants.append(("positive-list-with-repeated-name", ",".join(pos_names + pos_names[:1]), full & pos))
        variants.append(("positive-list-with-repeated-name-first", ",".join(pos_names[-1:] + pos_names), full & pos))
        for tag, conf, want in variants:
            try:
                got = advertised(conf, tag)
            except TwoCall as e:
                n += 1
                rep.add_violation({"signature": "C07|config|%s|mechanism-list-cannot-be-fetched-with-the-reported-count" % tag, "detail": {"slots.mechanisms": conf, "what": str(e)},
                                   "history": [], "action": None, "variant": variant, "store": "file", "replay_module": "c07_usage", "config_tag": tag, "property": "C07"})
                continue
            n += 1
            if got != want:
                extra, missing = sorted(got - want), sorted(want - got)
                rep.add_violation({"signature": "C07|config|%s|advertised-list-differs-from-the-configured-restriction|%s" % (tag, "mechanisms-not-removed" if extra else "mechanisms-missing"),
                                   "detail": {"slots.mechanisms": conf, "advertised_but_excluded": [C.CKM_NAMES.get(x, hex(x)) for x in extra][:12], "allowed_but_missing": [C.CKM_NAMES.get(x, hex(x)) for x in missing][:12]},
                                   "history": [], "action": None, "variant": variant, "store": "file", "replay_module": "c07_usage", "config_tag": tag, "property": "C07"})
    finally:
        shutil.rmtree(root, ignore_errors=True)
    return n


def main(tier):
    rep = Report("C07", tier, "exploration")
    quick = tier == "quick"
    variant = "ossl-asan" if quick else "ossl-plain"
    deadline = time.time() + (600 if quick else 1700)
    configs = ["ALL", "negative"] if quick else ["ALL", "positive", "negative"]
    tot, samples, runs = run_matrix(rep, variant, configs, deadline)
    if tot["cells_ok"] < 100:
        rep.harness_errors.append("vacuous: %r" % tot)
    ncfg = config_list_pass(rep, variant)
    # second part: the always-authenticate clause (checks/c07_aa.py), unmerged DFS over call sequences
    import c07_aa
    from p11mc.core import Explorer, confirm_violations
    aa_depth = 4 if quick else 5
    ex = Explorer(c07_aa.C07AA(), variant=variant, deadline=deadline + 600)
    try:
        aa_done = ex.dfs(aa_depth)
        confirm_violations(ex, rep)
        aa = {"depth": aa_depth, "sequences": ex.stats["dfs_paths"], "calls": ex.stats["dfs_transitions"], "complete": bool(aa_done), "counters": ex.stats["counters"], "alphabet": len(c07_aa.C07AA().actions(None))}
        if aa_done and not ex.stats["counters"].get("output-after-context-login"):
            rep.harness_errors.append("vacuous always-authenticate search: the authenticated path never produced output (%r)" % ex.stats["counters"])
    finally:
        ex.close()
    rep.coverage = {"evaluations": tot["cells"], "distinct_nontrivial": tot["cells_ok"], "samples": samples[:6], "exhaustive": bool(aa["complete"]), "runs": runs, "variant": variant, "always_authenticate_search": aa, "configuration_lists_compared": ncfg,
                    "rule": "one evaluation = one (operation | digest-init | generate-key | generate-key-pair) x mechanism x key kind x flag variant x allowed-list "
                            "variant x configuration cell executed on the real library; every CKM_* constant of PKCS#11 v2.40 plus three unknown values is used as "
                            "mechanism; non-trivial = the cell returned CKR_OK (the only-if oracle is evaluated on exactly these)"}
    rep.assumptions = ["always-authenticate clause: sign and decrypt only (the uses PKCS#11 defines for CKA_ALWAYS_AUTHENTICATE); RSA and EC keys, two sessions, every call sequence up to the stated depth",
                       "the (mechanism -> operations, key types) table in the check source transcribes the PKCS#11 v2.40 mechanism sections",
                       "mechanism parameters are the valid ones per mechanism; a cell that fails for another reason is not judged"]
    return rep.finish()


def replay(rec):
    import shutil, sys
    from p11mc import p11 as P
    sys.path.insert(0, P.VERIF + "/tools")
    import build_sut
    build_sut.build(rec["variant"])
    if rec.get("config_tag"):
        class _R:
            v = []
            def add_violation(self, x): self.v.append(x["signature"])
        r_ = _R()
        config_list_pass(r_, rec["variant"])
        print("recorded:", rec["signature"], "\nobserved:", r_.v)
        if rec["signature"] in r_.v:
            print("VIOLATION property=C07 replay=%s" % sys.argv[1])
            return 1
        return 0
    check = C07(config=rec["config"])
    root = P.scratch_root()
    try:
        template = core.build_template(check, rec["variant"], "file", root, {"mechanisms": CONFIGS[rec["config"]]})
        core._worker_init(check, rec["variant"], "file", template, root)
        r = _task([rec["mech"]])
        core._W["ctx"].stop_shell()
        sigs = [v["signature"] for v in r["viol"]]
        print("recorded:", rec["signature"], "\nobserved (same mechanism):", sigs[:10])
        if rec["signature"] in sigs:
            print("VIOLATION property=C07 replay=%s" % sys.argv[1])
            return 1
        return 0
    finally:
        shutil.rmtree(root, ignore_errors=True)
