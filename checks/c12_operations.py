"""C12 - one active operation per session and an honest output-length protocol (DESIGN.md 3/C12).

BFS on the real library over sequences of Init / single-part / Update / Final calls (each with a NULL length query first and
then an announced buffer of 0, L-1, L or L+7 bytes, L being the length the query reported) for a representative mechanism of
every size-logic branch: AES-ECB/CBC/CBC-PAD/CTR/GCM, DES3-CBC-PAD, RSA PKCS/OAEP/X.509 encryption, HMAC, CMAC, RSA PKCS (raw and
hashed), PSS (raw and hashed), DSA-SHA1, ECDSA, EdDSA, SHA-1/SHA-512 digests, object search.
Oracle = operation automaton of the statement: Init while active -> CKR_OPERATION_ACTIVE; continuation without operation ->
CKR_OPERATION_NOT_INITIALIZED; after success with a real buffer or an error other than CKR_BUFFER_TOO_SMALL the operation is
gone; a query / CKR_BUFFER_TOO_SMALL leaves it unchanged, which is checked DIFFERENTIALLY in every state: completing the operation
(also after an unrelated operation ran in a second session) must yield exactly what a clean single-part run yields for the
same total input; L is bounded as the statement says, retry with exactly L succeeds, canaries beyond announced/returned
lengths stay intact.
"""
import time
from p11mc import consts as C
from p11mc.core import CheckBase, Explorer, Violation, confirm_violations
from p11mc.runner import Report
from p11mc import world as W, fixtures as F
from p11mc.p11 import Out, Null, tpl, mech, gcm_params, ctr_params, oaep_params, pss_params

IV16, IV8 = bytes(range(16)), bytes(range(8))


def pat(off, n):
    return bytes(((i * 7 + 13) ^ (i >> 5)) & 0xFF for i in range(off, off + n))


# name -> descriptor.  family: cipher | asym-cipher | mac | sig | digest ; multi = multi-part calls allowed
M = {
    "aes-ecb": dict(fam="cipher", mech=lambda: mech(C.CKM_AES_ECB), key="aes", B=16, pad=False, tag=0, multi=True),
    "aes-cbc": dict(fam="cipher", mech=lambda: mech(C.CKM_AES_CBC, IV16), key="aes", B=16, pad=False, tag=0, multi=True),
    "aes-cbc-pad": dict(fam="cipher", mech=lambda: mech(C.CKM_AES_CBC_PAD, IV16), key="aes", B=16, pad=True, tag=0, multi=True),
    "aes-ctr": dict(fam="cipher", mech=lambda: mech(C.CKM_AES_CTR, ctr_params(128, IV16)), key="aes", B=16, pad=False, tag=0, multi=True, stream=True),
    "aes-gcm": dict(fam="cipher", mech=lambda: mech(C.CKM_AES_GCM, gcm_params(bytes(12), b"aad", 128)), key="aes", B=16, pad=False, tag=16, multi=True, stream=True),
    "des3-cbc-pad": dict(fam="cipher", mech=lambda: mech(C.CKM_DES3_CBC_PAD, IV8), key="des3", B=8, pad=True, tag=0, multi=True),
    "rsa-pkcs-enc": dict(fam="asym-cipher", mech=lambda: mech(C.CKM_RSA_PKCS), key="rsa", size=128, maxin=117, multi=False),
    "rsa-oaep": dict(fam="asym-cipher", mech=lambda: mech(C.CKM_RSA_PKCS_OAEP, oaep_params()), key="rsa", size=128, maxin=86, multi=False),
    "rsa-x509": dict(fam="asym-cipher", mech=lambda: mech(C.CKM_RSA_X_509), key="rsa", size=128, maxin=128, multi=False),
    "hmac-sha256": dict(fam="mac", mech=lambda: mech(C.CKM_SHA256_HMAC), key="generic", size=32, multi=True, det=True),
    "aes-cmac": dict(fam="mac", mech=lambda: mech(C.CKM_AES_CMAC), key="aes", size=16, multi=True, det=True),
    "rsa-pkcs-sig": dict(fam="sig", mech=lambda: mech(C.CKM_RSA_PKCS), key="rsa", size=128, multi=False, det=True, maxin=117),
    "sha256-rsa-pkcs": dict(fam="sig", mech=lambda: mech(C.CKM_SHA256_RSA_PKCS), key="rsa", size=128, multi=True, det=True),
    "rsa-pss": dict(fam="sig", mech=lambda: mech(C.CKM_RSA_PKCS_PSS, pss_params(C.CKM_SHA_1, C.CKG_MGF1_SHA1, 20)), key="rsa", size=128, multi=False, det=False, fixin=20),
    "sha256-rsa-pss": dict(fam="sig", mech=lambda: mech(C.CKM_SHA256_RSA_PKCS_PSS, pss_params(C.CKM_SHA256, C.CKG_MGF1_SHA256, 32)), key="rsa", size=128, multi=True, det=False),
    "dsa-sha1": dict(fam="sig", mech=lambda: mech(C.CKM_DSA_SHA1), key="dsa", size=40, multi=True, det=False),
    "ecdsa": dict(fam="sig", mech=lambda: mech(C.CKM_ECDSA), key="ec", size=64, multi=False, det=False, fixin=32),
    "eddsa": dict(fam="sig", mech=lambda: mech(C.CKM_EDDSA), key="ed", size=64, multi=False, det=True),
    "sha1": dict(fam="digest", mech=lambda: mech(C.CKM_SHA_1), size=20, multi=True),
    "sha512": dict(fam="digest", mech=lambda: mech(C.CKM_SHA512), size=64, multi=True),
}
KINDS_OF = {"cipher": ("Encrypt", "Decrypt"), "asym-cipher": ("Encrypt", "Decrypt"), "mac": ("Sign", "Verify"), "sig": ("Sign", "Verify"), "digest": ("Digest",)}
SHAPES = ["query", "exact", "short", "zero", "big"]


def lens_for(d):
    if d["fam"] == "cipher":
        B = d["B"]
        return [0, 1, B - 1, B, B + 1, 2 * B]
    # ... plus inputs the mechanism must REFUSE (longer than it can take, not the fixed size): a call that fails must leave no operation behind
    if "fixin" in d:
        return [d["fixin"], d["fixin"] + 1]
    if d["fam"] == "asym-cipher":
        return [0, 1, 16, d["maxin"], d["maxin"] + 1, d["size"] + 1]
    if "maxin" in d:
        return [0, 1, 63, 64, 65, d["maxin"], d["maxin"] + 1, d["size"] + 1]
    return [0, 1, 63, 64, 65]


class Op:
    def __init__(self, name, kind):
        self.name, self.kind = name, kind
        self.fed = 0         # bytes of input consumed by successful Update calls
        self.out = b""       # output produced so far
        self.updated = False


class Model:
    def __init__(self):
        self.s = 0
        self.s2 = 0
        self.keys = {}
        self.op = None
        self.ct = {}          # decrypt inputs: (mech name, plaintext length) is computed on demand


class C12(CheckBase):
    ID = "C12"

    def __init__(self, mechs=None, max_calls=3):
        self.kw = dict(mechs=mechs, max_calls=max_calls)
        self.mechs = list(mechs) if mechs else sorted(M)
        self.max_calls = max_calls

    def world(self, ctx):
        return W.two_tokens(ctx)

    def setup(self, ctx, world):
        p = ctx.p
        W.ok(p.Initialize(), "init")
        m = Model()
        m.s = W.ok(p.OpenSession(world["slots"]["A"]), "open")["h"]
        m.s2 = W.ok(p.OpenSession(world["slots"]["A"]), "open")["h"]
        W.ok(p.Login(m.s, C.CKU_USER, W.USER_A), "login")
        allf = [(a, True) for a in (C.CKA_ENCRYPT, C.CKA_DECRYPT, C.CKA_SIGN, C.CKA_VERIFY)]
        mk = lambda kind, extra: W.ok(p.CreateObject(m.s, F.template(kind, token=False, private=True, label=b"k", extra=extra)), kind)["h"]
        m.keys["aes"] = (mk("aes128", allf),) * 2
        m.keys["des3"] = (mk("des3", allf),) * 2
        m.keys["generic"] = (mk("generic32", [(C.CKA_SIGN, True), (C.CKA_VERIFY, True)]),) * 2
        m.keys["rsa"] = (mk("rsa1024_priv", [(C.CKA_DECRYPT, True), (C.CKA_SIGN, True)]), mk("rsa1024_pub", [(C.CKA_ENCRYPT, True), (C.CKA_VERIFY, True)]))
        m.keys["dsa"] = (mk("dsa_priv", [(C.CKA_SIGN, True)]), mk("dsa_pub", [(C.CKA_VERIFY, True)]))
        m.keys["ec"] = (mk("ec256_priv", [(C.CKA_SIGN, True)]), mk("ec256_pub", [(C.CKA_VERIFY, True)]))
        m.keys["ed"] = (mk("ed25519_priv", [(C.CKA_SIGN, True)]), mk("ed25519_pub", [(C.CKA_VERIFY, True)]))
        return m

    # ---- helpers
    def key_for(self, m, name, kind):
        d = M[name]
        if d["fam"] == "digest":
            return 0
        priv, pub = m.keys[d["key"]]
        return pub if kind in ("Encrypt", "Verify") else priv

    def init_line(self, m, name, kind, s=None):
        d = M[name]
        s = s or m.s
        if kind == "Digest":
            return "C_DigestInit s=%d mech=%s" % (s, d["mech"]())
        return "C_%sInit s=%d mech=%s k=%d" % (kind, s, d["mech"](), self.key_for(m, name, kind))

    def clean(self, ctx, m, name, kind, data, sig=None):
        """clean single-part run on the second session inside a throw-away snapshot -> answer dict"""
        p, sh = ctx.p, ctx.sh
        d0 = sh.depth
        sh.snap(copy=False)
        try:
            r = p.call(self.init_line(m, name, kind, m.s2))
            if r["rv"] != 0:
                return {"rv": r["rv"], "stage": "init"}
            if kind == "Verify":
                return p.op("Verify", m.s2, data, sig=sig)
            return p.op(kind, m.s2, data, Out(len(data) + 300))
        finally:
            sh.unwind(d0)

    def input_for(self, ctx, m, name, kind, total):
        """the byte string of which the operation's input is a prefix: pattern for encrypt/sign/digest, a ciphertext for decrypt"""
        d = M[name]
        if kind != "Decrypt":
            return pat(0, total)
        # ciphertext of the longest plaintext that fits; computed by a clean encrypt
        n = total
        return None

    def actions(self, m):
        acts = []
        if m.op is None:
            for name in self.mechs:
                for kind in KINDS_OF[M[name]["fam"]]:
                    acts.append(("init", name, kind))
            acts.append(("init", "find", "Find"))
            return acts
        op = m.op
        if op.kind == "Find":
            if op.fed < self.max_calls:
                for n in (0, 1, 2):
                    acts.append(("find", n))
            acts.append(("find-final",))
            return acts
        d = M[op.name]
        ncalls = op.fed_calls if hasattr(op, "fed_calls") else 0
        lens = lens_for(d)
        if op.kind == "Decrypt" and d["fam"] == "cipher":
            lens = [l for l in lens]
        # (a cipher operation that has been fed with Update calls still accepts the single-part call for the rest: the library does not switch that off)
        if not op.updated or (d["fam"] == "cipher" and op.kind in ("Encrypt", "Decrypt")):
            for l in lens:
                for sh_ in (SHAPES if op.kind != "Verify" else ["exact"]):
                    acts.append(("single", l, sh_))
        if ncalls < self.max_calls - 1:
            for l in lens:
                for sh_ in (SHAPES if (d["fam"] in ("cipher",) and op.kind in ("Encrypt", "Decrypt")) else ["exact"]):
                    acts.append(("update", l, sh_))
        if op.updated or True:
            for sh_ in (SHAPES if op.kind != "Verify" else ["exact", "bad-signature"]):
                acts.append(("final", sh_))
        return acts

    # ---- expected need bound
    def bound(self, d, kind, inlen, buffered):
        if d["fam"] == "cipher":
            return inlen + buffered + d["B"] + d["tag"]
        return d["size"]

    def fixed(self, d, kind):
        return d["fam"] in ("mac", "sig", "digest") or (d["fam"] == "asym-cipher" and kind == "Encrypt")

    # ---- calls with the length protocol
    def call_out(self, ctx, m, cname, data, shape, d, kind, inlen, buffered, what):
        """query, judge L, then (unless query-only) call with the announced size per shape.  returns (consumed?, output bytes | None, gone?)"""
        p = ctx.p
        s = m.s

        def line(out):
            l = "C_%s s=%d" % (cname, s)
            if data is not None:
                l += " in=x" + data.hex()
            return l + " out=" + out
        q = p.call(line("n0"))
        if q["rv"] != 0:
            ctx.count("query_failed")
            return ("failed", q["rv"], None)
        L = q["len"]
        bnd = self.bound(d, kind, inlen, buffered)
        sigb = "C12|%s|%s|%s" % (m.op.name, cname, what)
        if self.fixed(d, kind) and cname not in ("EncryptUpdate", "DecryptUpdate") and L != d["size"]:
            raise Violation(sigb + "|query-length-not-the-fixed-size", {"reported": L, "size": d["size"]})
        if L > bnd:
            raise Violation(sigb + "|query-length-larger-than-mechanism-can-need", {"reported": L, "bound": bnd, "in": inlen, "buffered": buffered})
        ctx.count("queries")
        if shape == "query":
            return ("unchanged", 0, None)
        ann = {"exact": L, "short": L - 1, "zero": 0, "big": L + 7}[shape]
        if ann < 0:
            return ("unchanged", 0, None)
        r = p.call(line("b%d" % ann))
        wmax = r.get("wmax", 0)
        if wmax > ann:
            raise Violation(sigb + "|wrote-beyond-announced-length|%s" % shape, {"announced": ann, "wmax": wmax})
        if r["rv"] == C.CKR_BUFFER_TOO_SMALL:
            if ann >= L:
                raise Violation(sigb + "|buffer-too-small-although-reported-length-was-announced|%s" % shape, {"announced": ann, "reported_before": L, "reported_now": r.get("len")})
            if r.get("len", 0) > bnd:
                raise Violation(sigb + "|too-small-answer-reports-excessive-length", {"reported": r.get("len"), "bound": bnd})
            ctx.count("too_small_answers")
            return ("unchanged", 0, None)
        if r["rv"] != 0:
            ctx.count("call_failed")
            return ("failed", r["rv"], None)
        if r["len"] > ann:
            raise Violation(sigb + "|returned-length-exceeds-announced|%s" % shape, {"announced": ann, "returned": r["len"]})
        if wmax > r["len"]:
            raise Violation(sigb + "|wrote-beyond-returned-length|%s" % shape, {"returned": r["len"], "wmax": wmax})
        ctx.count("calls_ok")
        return ("ok", 0, bytes.fromhex(r.get("out", ""))[:r["len"]])

    def decrypt_input(self, ctx, m, name, upto):
        """ciphertext stream to feed: encryption (clean run) of the pattern of a length that makes sense for the mechanism"""
        d = M[name]
        key = (name, upto)
        n = upto
        r = self.clean(ctx, m, name, "Encrypt", pat(0, n))
        if r["rv"] != 0:
            return None
        return bytes.fromhex(r["out"])[:r["len"]]

    def step(self, ctx, m, a):
        p = ctx.p
        k0 = a[0]
        if k0 == "init":
            _, name, kind = a
            if kind == "Find":
                r = p.FindObjectsInit(m.s, [])
                if r["rv"] == 0:
                    m.op = Op("find", "Find")
                return m
            r = p.call(self.init_line(m, name, kind))
            if r["rv"] == 0:
                m.op = Op(name, kind)
                m.op.fed_calls = 0
                if kind == "Decrypt":
                    d = M[name]
                    # fix the plaintext length whose ciphertext will be fed: 2 blocks + 3 (padded / stream) or 2 blocks
                    if d["fam"] == "cipher":
                        n = 2 * d["B"] + (3 if (d["pad"] or d.get("stream")) else 0)
                    else:
                        n = 16
                    m.op.pt_len = n
                    m.op.stream = self.decrypt_input(ctx, m, name, n)
                if kind == "Verify":
                    m.op.sig = None
                ctx.count("init_ok")
            else:
                ctx.count("init_refused:%s" % name)
            self.state_checks(ctx, m, a)
            return m
        op = m.op
        if op.kind == "Find":
            if k0 == "find":
                r = p.FindObjects(m.s, a[1])
                if r["rv"] != 0:
                    m.op = None
                else:
                    op.fed += 1
            else:
                r = p.FindObjectsFinal(m.s)
                m.op = None
            self.state_checks(ctx, m, a)
            return m
        d = M[op.name]
        kind = op.kind
        buffered = op.fed - len(op.out) if (d["fam"] == "cipher") else 0
        buffered = max(buffered, 0)
        if k0 in ("single", "update"):
            n = a[1]
            if kind == "Decrypt":
                src = op.stream or b""
                data = src[op.fed:op.fed + n] if k0 == "update" else (src if n >= d.get("B", 16) else src[:n])
                n = len(data)
            else:
                data = pat(op.fed, n)
            if kind == "Verify":
                if k0 == "single":
                    sig = self.signature(ctx, m, op.name, data)
                    r = p.op("Verify", m.s, data, sig=sig if sig is not None else bytes(d["size"]))
                    m.op = None
                    if sig is not None and r["rv"] != 0:
                        raise Violation("C12|%s|Verify|valid-signature-rejected" % op.name, {"rv": r["rv"], "len": n})
                else:
                    r = p.op("VerifyUpdate", m.s, data)
                    if r["rv"] == 0:
                        op.fed += n; op.updated = True; op.fed_calls += 1
                    else:
                        m.op = None
                self.state_checks(ctx, m, a)
                return m
            if k0 == "update" and kind in ("Sign", "Digest"):
                r = p.op("%sUpdate" % kind, m.s, data)
                if r["rv"] == 0:
                    op.fed += n; op.updated = True; op.fed_calls += 1
                else:
                    m.op = None
                    if d["multi"]:
                        ctx.count("update_failed")
                self.state_checks(ctx, m, a)
                return m
            cname = kind if k0 == "single" else kind + "Update"
            st, rv, out = self.call_out(ctx, m, cname, data, a[2], d, kind, n, buffered, k0)
            if st == "ok":
                if k0 == "single":
                    total_in = (pat(0, op.fed) + data) if kind != "Decrypt" else (op.stream or b"")[:op.fed] + data
                    if not op.updated:
                        self.judge_complete(ctx, m, op, kind, total_in, op.out + out, a)
                    # (after Update calls the single-part call is outside what PKCS#11 defines: its output is not judged, only the length protocol -
                    # nothing written beyond the announced or reported length - which call_out has already checked)
                    m.op = None
                else:
                    op.fed += n; op.out += out; op.updated = True; op.fed_calls += 1
            elif st == "failed":
                m.op = None
            elif st == "unchanged" and k0 == "single" and not op.updated and a[2] != "query":
                # the call answered CKR_BUFFER_TOO_SMALL: the statement says the operation is unchanged, so the SAME single-part call with the reported
                # length must now do what a clean run does (throw-away snapshot)
                d1 = ctx.sh.depth
                ctx.sh.snap(copy=False)
                try:
                    base = "C_%s s=%d in=x%s" % (cname, m.s, data.hex())
                    q = p.call(base + " out=n0")
                    r = p.call(base + " out=b%d" % q.get("len", 0)) if q["rv"] == 0 else q
                    ctx.count("single_part_retries_after_too_small")
                    if r["rv"] != 0:
                        ref = self.clean(ctx, m, op.name, kind, data)
                        if ref["rv"] == 0:
                            raise Violation("C12|%s|%s|retry-after-buffer-too-small-fails-although-clean-run-succeeds|%s" % (op.name, cname, a[2]),
                                            {"rv": r["rv"], "query_rv": q["rv"], "after": a})
                    else:
                        self.judge_complete(ctx, m, op, kind, data if kind == "Decrypt" else pat(0, op.fed) + data, bytes.fromhex(r.get("out", ""))[:r["len"]], ("retry",) + tuple(a))
                finally:
                    ctx.sh.unwind(d1)
            self.state_checks(ctx, m, a)
            return m
        if k0 == "final":
            shape = a[1]
            if kind == "Verify":
                total = pat(0, op.fed)
                sig = self.signature(ctx, m, op.name, total)
                if shape == "bad-signature" and sig:
                    sig = bytes([sig[0] ^ 1]) + sig[1:]
                r = p.op("VerifyFinal", m.s, sig if sig is not None else bytes(d["size"]))
                m.op = None
                if sig is not None and d["multi"]:
                    if shape == "exact" and r["rv"] != 0 and op.updated:
                        raise Violation("C12|%s|VerifyFinal|valid-signature-rejected-after-multi-part" % op.name, {"rv": r["rv"], "fed": op.fed})
                    if shape == "bad-signature" and r["rv"] == 0:
                        raise Violation("C12|%s|VerifyFinal|corrupted-signature-accepted" % op.name, {})
                self.state_checks(ctx, m, a)
                return m
            st, rv, out = self.call_out(ctx, m, kind + "Final", None, shape, d, kind, 0, buffered, "final")
            if st == "ok":
                total_in = pat(0, op.fed) if kind != "Decrypt" else (op.stream or b"")[:op.fed]
                if op.updated or d["fam"] in ("digest", "mac") or d["fam"] == "cipher":
                    self.judge_complete(ctx, m, op, kind, total_in, op.out + out, a)
                m.op = None
            elif st == "failed":
                m.op = None
            self.state_checks(ctx, m, a)
            return m
        raise RuntimeError(a)

    def signature(self, ctx, m, name, data):
        r = self.clean(ctx, m, name, "Sign", data)
        if r["rv"] != 0:
            return None
        return bytes.fromhex(r["out"])[:r["len"]]

    def judge_complete(self, ctx, m, op, kind, total_in, total_out, a):
        """the completed operation's total output vs a clean single-part run over the same total input"""
        d = M[op.name]
        ctx.count("completions")
        if kind == "Decrypt" and d["fam"] == "cipher":
            if total_in == (op.stream or b"") and total_out != pat(0, op.pt_len):
                raise Violation("C12|%s|Decrypt|completed-output-differs-from-plaintext" % op.name, {"got": total_out, "want": pat(0, op.pt_len), "action": a})
            return
        if kind == "Decrypt":
            if total_in == (op.stream or b"") and total_out != pat(0, op.pt_len) and op.name != "rsa-x509":
                raise Violation("C12|%s|Decrypt|completed-output-differs-from-plaintext" % op.name, {"got": total_out})
            return
        det = d.get("det", True) if d["fam"] in ("mac", "sig") else (d["fam"] in ("cipher", "digest"))
        ref = self.clean(ctx, m, op.name, kind, total_in)
        if ref["rv"] != 0:
            ctx.count("reference_failed")
            return
        want = bytes.fromhex(ref["out"])[:ref["len"]]
        if det:
            if total_out != want:
                raise Violation("C12|%s|%s|completed-output-differs-from-clean-single-part-run" % (op.name, kind), {"got": total_out, "want": want, "in_len": len(total_in), "action": a})
            ctx.count("outputs_equal_reference")
        elif d["fam"] == "sig":
            v = self.clean(ctx, m, op.name, "Verify", total_in, sig=total_out)
            if v["rv"] != 0:
                raise Violation("C12|%s|Sign|completed-signature-does-not-verify" % op.name, {"rv": v["rv"], "in_len": len(total_in)})
            ctx.count("signatures_verified")

    # ---- automaton checks evaluated in every state (in throw-away snapshots)
    def state_checks(self, ctx, m, a):
        p, sh = ctx.p, ctx.sh
        # (1) Init of any kind while an operation is active -> OPERATION_ACTIVE; without -> continuations NOT_INITIALIZED
        d0 = sh.depth
        sh.snap(copy=False)
        try:
            if m.op is not None:
                for name, kind in (("sha1", "Digest"), ("aes-ecb", "Encrypt"), ("aes-cbc", "Decrypt"), ("hmac-sha256", "Sign"), ("hmac-sha256", "Verify")):
                    r = p.call(self.init_line(m, name, kind))
                    ctx.count("init_while_active")
                    if r["rv"] != C.CKR_OPERATION_ACTIVE:
                        raise Violation("C12|automaton|%sInit-while-%s-active-returned-%s" % (kind, m.op.kind, C.CKR_NAMES.get(r["rv"], hex(r["rv"]))), {"active": m.op.name, "after": a})
                r = p.FindObjectsInit(m.s, [])
                if r["rv"] != C.CKR_OPERATION_ACTIVE:
                    raise Violation("C12|automaton|FindObjectsInit-while-%s-active-returned-%s" % (m.op.kind, C.CKR_NAMES.get(r["rv"], hex(r["rv"]))), {"after": a})
            else:
                lines = ["C_EncryptUpdate s=%d in=x00 out=b32" % m.s, "C_EncryptFinal s=%d out=b32" % m.s, "C_Encrypt s=%d in=x00 out=b32" % m.s,
                         "C_DecryptUpdate s=%d in=x00 out=b32" % m.s, "C_DecryptFinal s=%d out=b32" % m.s, "C_Decrypt s=%d in=x00 out=b32" % m.s,
                         "C_SignUpdate s=%d in=x00" % m.s, "C_SignFinal s=%d out=b256" % m.s, "C_Sign s=%d in=x00 out=b256" % m.s,
                         "C_VerifyUpdate s=%d in=x00" % m.s, "C_VerifyFinal s=%d in=x00" % m.s, "C_Verify s=%d in=x00 sig=x00" % m.s,
                         "C_DigestUpdate s=%d in=x00" % m.s, "C_DigestFinal s=%d out=b64" % m.s, "C_Digest s=%d in=x00 out=b64" % m.s,
                         "C_FindObjects s=%d max=1" % m.s, "C_FindObjectsFinal s=%d" % m.s]
                # every probe in a snapshot of its own: a continuation call that meets a left-over operation may end it (C_SignUpdate on a single-part-only
                # operation answers CKR_OPERATION_NOT_INITIALIZED and resets), which would hide the left-over from the probes that follow
                rs = []
                for l in lines:
                    d1 = sh.depth
                    sh.snap(copy=False)
                    try:
                        rs.append(p.call(l))
                    finally:
                        sh.unwind(d1)
                # ... and "an operation that finished or failed is gone": a new operation of every kind can be started
                for name, kind in (("sha1", "Digest"), ("aes-ecb", "Encrypt"), ("aes-cbc", "Decrypt"), ("hmac-sha256", "Sign"), ("hmac-sha256", "Verify"), ("find", "Find")):
                    d1 = sh.depth
                    sh.snap(copy=False)
                    try:
                        r = p.FindObjectsInit(m.s, []) if kind == "Find" else p.call(self.init_line(m, name, kind))
                        ctx.count("init_without_operation")
                        if r["rv"] == C.CKR_OPERATION_ACTIVE:
                            raise Violation("C12|automaton|%sInit-refused-as-active-although-no-operation-is-active|after-%s" % (kind, a[0]), {"after": a})
                    finally:
                        sh.unwind(d1)
                for l, r in zip(lines, rs):
                    ctx.count("continuation_without_operation")
                    if r["rv"] != C.CKR_OPERATION_NOT_INITIALIZED:
                        raise Violation("C12|automaton|%s-without-operation-returned-%s|after-%s" % (l.split()[0], C.CKR_NAMES.get(r["rv"], hex(r["rv"])), a[0]),
                                        {"after": a, "wmax": r.get("wmax")})
                    if r.get("wmax"):
                        raise Violation("C12|automaton|%s-without-operation-wrote-output" % l.split()[0], {"after": a})
        finally:
            sh.unwind(d0)
        # (2) the active operation is intact: complete it canonically (once directly, once after an unrelated operation ran to
        #     completion in the second session) and compare with the clean run
        if m.op is not None and m.op.kind not in ("Find", "Verify"):
            op = m.op
            d = M[op.name]
            if not (op.updated or d["fam"] in ("digest", "mac", "cipher")):
                return
            for other in (False, True):
                d0 = sh.depth
                sh.snap(copy=False)
                try:
                    if other:
                        lines = ["C_DigestInit s=%d mech=%s" % (m.s2, mech(C.CKM_SHA256)), "C_DigestUpdate s=%d in=x616263" % m.s2, "C_DigestFinal s=%d out=b32" % m.s2,
                                 "C_EncryptInit s=%d mech=%s k=%d" % (m.s2, mech(C.CKM_AES_CBC_PAD, IV16), m.keys["aes"][0]), "C_Encrypt s=%d in=x%s out=b32" % (m.s2, bytes(5).hex())]
                        rs = p.batch(lines)
                        if rs[2]["rv"] != 0 or rs[2].get("out", "")[:8] != "ba7816bf" or rs[4]["rv"] != 0:
                            raise Violation("C12|two-sessions|operation-in-second-session-disturbed-by-%s" % op.kind, {"active": op.name})
                    buffered = max(op.fed - len(op.out), 0) if d["fam"] == "cipher" else 0
                    q = p.call("C_%sFinal s=%d out=n0" % (op.kind, m.s))
                    if q["rv"] != 0:
                        continue
                    r = p.call("C_%sFinal s=%d out=b%d" % (op.kind, m.s, q["len"]))
                    if r["rv"] == C.CKR_BUFFER_TOO_SMALL:
                        raise Violation("C12|%s|%sFinal|retry-with-reported-length-too-small" % (op.name, op.kind), {"reported": q["len"], "now": r.get("len")})
                    total_in = pat(0, op.fed) if op.kind != "Decrypt" else (op.stream or b"")[:op.fed]
                    if r["rv"] != 0:
                        # the canonical completion failed: fine only if a clean run over the same total input fails as well
                        ref = self.clean(ctx, m, op.name, op.kind, total_in)
                        if ref["rv"] == 0:
                            raise Violation("C12|%s|%sFinal|completion-fails-although-clean-run-succeeds|after-%s-%s" % (op.name, op.kind, a[0], a[-1]),
                                            {"rv": r["rv"], "fed": op.fed, "after": a, "second_session": other})
                        continue
                    out = op.out + bytes.fromhex(r.get("out", ""))[:r["len"]]
                    self.judge_complete(ctx, m, op, op.kind, total_in, out, ("state-after",) + tuple(a) + (("second-session",) if other else ()))
                finally:
                    sh.unwind(d0)

    def key(self, ctx, m):
        if m.op is None:
            return ("none",)
        op = m.op
        return (op.name, op.kind, op.fed, len(op.out), op.updated, getattr(op, "fed_calls", 0))

    def died_sig(self, action, d):
        return "C12|%s|%r" % (action[0] if action else None, d.info)


def main(tier):
    rep = Report("C12", tier, "model_checking")
    quick = tier == "quick"
    variant = "ossl-asan" if quick else "ossl-plain"
    deadline = time.time() + (600 if quick else 1700)
    depth = 4 if quick else 6
    ex = Explorer(C12(max_calls=3 if quick else 4), variant=variant, deadline=deadline)
    try:
        fix = ex.bfs(depth)
        done = fix or ex.stats["depth_completed"] >= depth
        confirm_violations(ex, rep)
        st = ex.stats
        c = st["counters"]
        if not c.get("outputs_equal_reference") or not c.get("too_small_answers") or not c.get("init_while_active") or not c.get("continuation_without_operation"):
            rep.harness_errors.append("vacuous: %r" % c)
        rep.coverage = {"states": st["states"], "transitions": st["transitions"], "traces_validated_against_impl": st["states"],
                        "samples": ex.samples[:5], "exhaustive": bool(done), "levels": st["levels"], "depth_bound": depth, "outcome_counters": c, "variant": variant,
                        "mechanisms": sorted(M),
                        "rule": "all call sequences Init, then up to %d Update/single-part calls and Final, each in the shapes query / exact / short / zero / big with "
                                "input lengths around the block size, merged on (mechanism, kind, bytes fed, bytes produced); in every state the automaton probes and "
                                "the differential completion (direct and after a second-session operation) run in throw-away snapshots" % (3 if quick else 4)}
        rep.assumptions = ["reference for 'unchanged' = the library's own clean single-part run over the same total input (independent correctness is C10's subject)",
                           "one representative mechanism per size-logic branch; single DES unusable on this image"]
    finally:
        ex.close()
    return rep.finish()
