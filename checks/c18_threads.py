"""C18 - thread safety with locking enabled (DESIGN.md 3/C18, 2.5).

Stateless model checking of the real library: C_Initialize is given application mutex callbacks that belong to a deterministic
scheduler (engine/p11sh RUNTHREADS): only one thread runs at a time, every LockMutex callback, thread start and thread end is a
scheduling point, blocking happens in the scheduler.  For every harness body (2-3 threads x 1-2 calls forced to collide on shared
structures) EVERY schedule with at most `bound` preemptions is executed (iterative context bounding, bound 0, 1, 2), each in a fresh
process image forked from the set-up state with its own copy of the token directory.
Oracle: every call returns (no deadlock / death / ASan report / mutex-protocol violation); the abstracted outcome (return codes,
outputs, handle identity classes, final observations) equals the outcome of at least one SEQUENTIAL interleaving of the same calls,
all of which are obtained by running them on the real library in the same harness.
"""
import itertools, json, os, time, traceback
from p11mc import consts as C
from p11mc.core import CheckBase, Explorer, Died
from p11mc import core
from p11mc.runner import Report
from p11mc import world as W, fixtures as F
from p11mc.p11 import Out, tpl, mech


VARIANTS = (["ossl-asan"], ["ossl-asan", "ossl-tsan"])


class C18(CheckBase):
    ID = "C18"

    def __init__(self):
        self.kw = {}

    def world(self, ctx):
        w = W.two_tokens(ctx)
        p = ctx.p
        W.ok(p.Initialize(), "init")
        s = W.ok(p.OpenSession(w["slots"]["A"]), "open")["h"]
        W.ok(p.Login(s, C.CKU_USER, W.USER_A), "login")
        for i in (0, 1):
            W.ok(p.CreateObject(s, F.template("aes128", token=True, private=True, label=b"priv-key-%d" % i, extra=[(C.CKA_ENCRYPT, True), (C.CKA_SIGN, True)])), "k")
        W.ok(p.CreateObject(s, F.template("generic32", token=True, private=True, label=b"priv-hmac", extra=[(C.CKA_SIGN, True)])), "h")
        W.ok(p.CreateObject(s, F.template("data", token=True, private=False, label=b"pub-data")), "d")
        W.ok(p.Finalize(), "final")
        return w

    def setup(self, ctx, world):
        # not the first initialisation of the process: an application may well have used the library without locking before (state kept in
        # singletons across C_Finalize must not leak into the locking configuration of the next C_Initialize)
        W.ok(ctx.p.Initialize(), "C_Initialize without locking")
        W.ok(ctx.p.Finalize(), "C_Finalize")
        W.ok(ctx.p.Initialize("sched"), "C_Initialize with scheduler callbacks")
        return None


def find1(p, s, label):
    return p.FindAll(s, [(C.CKA_LABEL, label)])["hs"][0]


# body: name -> function(ctx) -> (threads: list of list of lines, final: list of lines)   [set-up runs on ctx.p in the (discarded) snapshot]
def body_defs():
    B = {}
    A = lambda ctx: ctx.world["slots"]["A"]
    Bs = lambda ctx: ctx.world["slots"]["B"]
    LBL = lambda b: tpl([(C.CKA_LABEL, b)])

    def user_sessions(ctx, n=2, login=True):
        p = ctx.p
        ss = [W.ok(p.OpenSession(A(ctx)), "open")["h"] for _ in range(n)]
        if login:
            W.ok(p.Login(ss[0], C.CKU_USER, W.USER_A), "login")
        return ss

    def b_open_close_last(ctx):
        p = ctx.p
        sx = W.ok(p.OpenSession(A(ctx)), "open")["h"]
        W.ok(p.Login(sx, C.CKU_USER, W.USER_A), "login")
        return [["C_OpenSession slot=%d flags=6" % A(ctx), "C_GetSessionInfo s=$0", "FINDALL s=$0 tpl="], ["C_CloseSession s=%d" % sx]], ["C_GetSessionInfo s=%d" % sx]
    B["open-vs-close-last-session"] = b_open_close_last

    def b_open_open(ctx):
        return [["C_OpenSession slot=%d flags=6" % A(ctx), "C_GetSessionInfo s=$0"], ["C_OpenSession slot=%d flags=4" % A(ctx), "C_GetSessionInfo s=$0"]], []
    B["open-vs-open"] = b_open_open

    def b_create_find(ctx):
        s0, s1 = user_sessions(ctx)
        return [["C_CreateObject s=%d tpl=%s" % (s0, tpl(F.template("data", token=False, private=False, label=b"fresh")))], ["FINDALL s=%d tpl=%s" % (s1, LBL(b"fresh"))]], ["FINDALL s=%d tpl=%s" % (s0, LBL(b"fresh"))]
    B["create-session-object-vs-find"] = b_create_find

    def b_create_create_session(ctx):
        s0, s1 = user_sessions(ctx)
        return [["C_CreateObject s=%d tpl=%s" % (s0, tpl(F.template("aes128", token=False, private=True, label=b"n0")))], ["C_CreateObject s=%d tpl=%s" % (s1, tpl(F.template("aes128", token=False, private=True, label=b"n1")))]], ["FINDALL s=%d tpl=" % s0]
    B["create-vs-create-session-objects"] = b_create_create_session

    def b_close_owner_create(ctx):
        # the closing session OWNS a session object (its close rewrites the session-object table) while another session adds one
        s0, s1, s2 = user_sessions(ctx, 3)
        W.ok(ctx.p.CreateObject(s0, F.template("data", token=False, private=False, label=b"owned-by-closing")), "o")
        return [["C_CloseSession s=%d" % s0], ["C_CreateObject s=%d tpl=%s" % (s1, tpl(F.template("data", token=False, private=False, label=b"made-meanwhile"))),
                                               "FINDALL s=%d tpl=%s" % (s1, LBL(b"made-meanwhile"))]], ["FINDALL s=%d tpl=" % s2, "FINDALL s=%d tpl=%s" % (s2, LBL(b"made-meanwhile"))]
    B["close-session-owning-objects-vs-create-session-object"] = b_close_owner_create

    def b_create_create_token(ctx):
        s0, s1 = user_sessions(ctx)
        return [["C_CreateObject s=%d tpl=%s" % (s0, tpl(F.template("data", token=True, private=False, label=b"t0")))], ["C_CreateObject s=%d tpl=%s" % (s1, tpl(F.template("data", token=True, private=False, label=b"t1")))]], ["FINDALL s=%d tpl=" % s0]
    B["create-vs-create-token-objects"] = b_create_create_token

    def b_destroy_get(ctx):
        s0, s1 = user_sessions(ctx)
        o = W.ok(ctx.p.CreateObject(s0, F.template("data", token=False, private=False, label=b"victim")), "o")["h"]
        return [["C_DestroyObject s=%d o=%d" % (s0, o)], ["C_GetAttributeValue s=%d o=%d tpl=%s" % (s1, o, tpl([(C.CKA_LABEL, Out(16)), (C.CKA_VALUE, Out(64))]))]], ["FINDALL s=%d tpl=%s" % (s0, LBL(b"victim"))]
    B["destroy-vs-get-attribute"] = b_destroy_get

    def b_login_info(ctx):
        s0, s1 = user_sessions(ctx, login=False)
        return [["C_Login s=%d user=1 pin=x%s" % (s0, W.USER_A.hex())], ["C_GetSessionInfo s=%d" % s1, "FINDALL s=%d tpl=" % s1]], ["C_GetSessionInfo s=%d" % s1]
    B["login-vs-session-info"] = b_login_info

    def b_logout_find(ctx):
        s0, s1 = user_sessions(ctx)
        return [["C_Logout s=%d" % s0], ["FINDALL s=%d tpl=" % s1]], ["FINDALL s=%d tpl=" % s1, "C_GetSessionInfo s=%d" % s1]
    B["logout-vs-find"] = b_logout_find

    def b_sign_logout(ctx):
        s0, s1 = user_sessions(ctx)
        k = find1(ctx.p, s0, b"priv-hmac")
        return [["C_SignInit s=%d mech=%s k=%d" % (s0, mech(C.CKM_SHA256_HMAC), k), "C_Sign s=%d in=x616263 out=b32" % s0], ["C_Logout s=%d" % s1]], ["C_GetSessionInfo s=%d" % s0]
    B["sign-with-private-key-vs-logout"] = b_sign_logout

    def b_read_private(ctx):
        s0, s1 = user_sessions(ctx)
        k0, k1 = find1(ctx.p, s0, b"priv-key-0"), find1(ctx.p, s0, b"priv-key-1")
        T = tpl([(C.CKA_VALUE, Out(16)), (C.CKA_LABEL, Out(16))])
        return [["C_GetAttributeValue s=%d o=%d tpl=%s" % (s0, k0, T)], ["C_GetAttributeValue s=%d o=%d tpl=%s" % (s1, k1, T)]], []
    B["read-private-attributes-concurrently"] = b_read_private

    def b_encrypt_encrypt(ctx):
        s0, s1 = user_sessions(ctx)
        k0, k1 = find1(ctx.p, s0, b"priv-key-0"), find1(ctx.p, s0, b"priv-key-1")
        return [["C_EncryptInit s=%d mech=%s k=%d" % (s0, mech(C.CKM_AES_ECB), k0), "C_Encrypt s=%d in=x%s out=b16" % (s0, bytes(16).hex())],
                ["C_EncryptInit s=%d mech=%s k=%d" % (s1, mech(C.CKM_AES_ECB), k1), "C_Encrypt s=%d in=x%s out=b16" % (s1, bytes(16).hex())]], []
    B["encrypt-vs-encrypt-private-keys"] = b_encrypt_encrypt

    def b_random_digest(ctx):
        s0, s1 = user_sessions(ctx)
        return [["C_GenerateRandom s=%d out=b16" % s0], ["C_DigestInit s=%d mech=%s" % (s1, mech(C.CKM_SHA256)), "C_Digest s=%d in=x616263 out=b32" % s1]], []
    B["generate-random-vs-digest"] = b_random_digest

    def b_two_tokens(ctx):
        p = ctx.p
        sa = W.ok(p.OpenSession(A(ctx)), "open")["h"]
        sb = W.ok(p.OpenSession(Bs(ctx)), "open")["h"]
        return [["C_Login s=%d user=1 pin=x%s" % (sa, W.USER_A.hex()), "C_CreateObject s=%d tpl=%s" % (sa, tpl(F.template("aes128", token=False, private=True, label=b"a")))],
                ["C_Login s=%d user=1 pin=x%s" % (sb, W.USER_B.hex()), "C_CreateObject s=%d tpl=%s" % (sb, tpl(F.template("aes128", token=False, private=True, label=b"b")))]], ["FINDALL s=%d tpl=" % sa, "FINDALL s=%d tpl=" % sb]
    B["token-A-vs-token-B"] = b_two_tokens

    def b_find_find_relogin(ctx):
        p = ctx.p
        s0, s1 = user_sessions(ctx)
        W.ok(p.Logout(s0), "logout")
        W.ok(p.Login(s0, C.CKU_USER, W.USER_A), "login")      # every private handle is dead now: both searches must (re)register the object
        return [["FINDALL s=%d tpl=%s" % (s0, LBL(b"priv-key-0"))], ["FINDALL s=%d tpl=%s" % (s1, LBL(b"priv-key-0"))]], ["FINDALL s=%d tpl=%s" % (s0, LBL(b"priv-key-0"))]
    B["find-vs-find-after-relogin"] = b_find_find_relogin

    def b_close_close(ctx):
        s0, s1 = user_sessions(ctx)
        ctx.p.CreateObject(s1, F.template("data", token=False, private=False, label=b"s1-obj"))
        return [["C_CloseSession s=%d" % s0], ["C_CloseSession s=%d" % s1]], ["C_OpenSession slot=%d flags=6" % A(ctx), "C_GetSessionInfo s=$0", "FINDALL s=$0 tpl="]
    B["close-vs-close-all-sessions-gone"] = b_close_close

    def b_login_login(ctx):
        s0, s1 = user_sessions(ctx, login=False)
        return [["C_Login s=%d user=1 pin=x%s" % (s0, W.USER_A.hex())], ["C_Login s=%d user=1 pin=x%s" % (s1, W.USER_A.hex())]], ["C_GetSessionInfo s=%d" % s0, "C_GetSessionInfo s=%d" % s1]
    B["login-user-vs-login-user"] = b_login_login

    def b_login_so_user(ctx):
        s0, s1 = user_sessions(ctx, login=False)
        return [["C_Login s=%d user=0 pin=x%s" % (s0, W.SO_A.hex())], ["C_Login s=%d user=1 pin=x%s" % (s1, W.USER_A.hex())]], ["C_GetSessionInfo s=%d" % s0, "C_GetSessionInfo s=%d" % s1]
    B["login-so-vs-login-user"] = b_login_so_user

    def b_logout_login(ctx):
        s0, s1 = user_sessions(ctx)
        return [["C_Logout s=%d" % s0], ["C_Login s=%d user=1 pin=x%s" % (s1, W.USER_A.hex())]], ["C_GetSessionInfo s=%d" % s0, "FINDALL s=%d tpl=" % s1]
    B["logout-vs-login"] = b_logout_login

    def b_destroy_destroy(ctx):
        s0, s1 = user_sessions(ctx)
        o = W.ok(ctx.p.CreateObject(s0, F.template("data", token=False, private=False, label=b"victim")), "o")["h"]
        return [["C_DestroyObject s=%d o=%d" % (s0, o)], ["C_DestroyObject s=%d o=%d" % (s1, o)]], ["FINDALL s=%d tpl=%s" % (s0, LBL(b"victim"))]
    B["destroy-vs-destroy-same-object"] = b_destroy_destroy

    def b_set_get(ctx):
        s0, s1 = user_sessions(ctx)
        o = W.ok(ctx.p.CreateObject(s0, F.template("aes128", token=False, private=False, label=b"old-label", ident=b"i")), "o")["h"]
        return [["C_SetAttributeValue s=%d o=%d tpl=%s" % (s0, o, tpl([(C.CKA_LABEL, b"new-label"), (C.CKA_ID, b"new-id")]))],
                ["C_GetAttributeValue s=%d o=%d tpl=%s" % (s1, o, tpl([(C.CKA_LABEL, Out(16)), (C.CKA_ID, Out(16))]))]], ["C_GetAttributeValue s=%d o=%d tpl=%s" % (s1, o, tpl([(C.CKA_LABEL, Out(16)), (C.CKA_ID, Out(16))]))]
    B["set-attribute-vs-get-attribute"] = b_set_get

    def b_set_find(ctx):
        s0, s1 = user_sessions(ctx)
        o = find1(ctx.p, s0, b"pub-data")
        return [["C_SetAttributeValue s=%d o=%d tpl=%s" % (s0, o, tpl([(C.CKA_LABEL, b"renamed")]))], ["FINDALL s=%d tpl=%s" % (s1, LBL(b"renamed")), "FINDALL s=%d tpl=%s" % (s1, LBL(b"pub-data"))]], ["FINDALL s=%d tpl=%s" % (s1, LBL(b"renamed"))]
    B["set-token-attribute-vs-find"] = b_set_find

    def b_copy_destroy(ctx):
        s0, s1 = user_sessions(ctx)
        o = W.ok(ctx.p.CreateObject(s0, F.template("data", token=False, private=False, label=b"src")), "o")["h"]
        return [["C_CopyObject s=%d o=%d tpl=%s" % (s1, o, tpl([(C.CKA_LABEL, b"dst")]))], ["C_DestroyObject s=%d o=%d" % (s0, o)]], ["FINDALL s=%d tpl=%s" % (s0, LBL(b"src")), "FINDALL s=%d tpl=%s" % (s0, LBL(b"dst"))]
    B["copy-vs-destroy-source"] = b_copy_destroy

    def b_closeall_open(ctx):
        s0, s1 = user_sessions(ctx)
        # the opening thread does not USE its new session while the other thread may be closing it (that would be one session used by two threads,
        # which PKCS#11 forbids); what became of the token is observed afterwards
        return [["C_CloseAllSessions slot=%d" % A(ctx)], ["C_OpenSession slot=%d flags=6" % A(ctx)]], ["C_GetSessionInfo s=%d" % s0, "C_GetSessionInfo s=$T1.0", "C_OpenSession slot=%d flags=6" % A(ctx), "C_GetSessionInfo s=$2", "FINDALL s=$2 tpl="]
    B["close-all-sessions-vs-open"] = b_closeall_open

    def b_gen_gen(ctx):
        s0, s1 = user_sessions(ctx)
        T = lambda lab: tpl([(C.CKA_VALUE_LEN, 16), (C.CKA_TOKEN, False), (C.CKA_PRIVATE, True), (C.CKA_LABEL, lab)])
        return [["C_GenerateKey s=%d mech=%s tpl=%s" % (s0, mech(C.CKM_AES_KEY_GEN), T(b"g0"))], ["C_GenerateKey s=%d mech=%s tpl=%s" % (s1, mech(C.CKM_AES_KEY_GEN), T(b"g1"))]], ["FINDALL s=%d tpl=%s" % (s0, LBL(b"g0")), "FINDALL s=%d tpl=%s" % (s0, LBL(b"g1"))]
    B["generate-key-vs-generate-key"] = b_gen_gen

    def b_destroy_token_find(ctx):
        s0, s1 = user_sessions(ctx)
        o = find1(ctx.p, s0, b"pub-data")
        return [["C_DestroyObject s=%d o=%d" % (s0, o)], ["FINDALL s=%d tpl=%s" % (s1, LBL(b"pub-data"))]], ["FINDALL s=%d tpl=" % s1]
    B["destroy-token-object-vs-find"] = b_destroy_token_find

    def b_set_set_token(ctx):
        s0, s1 = user_sessions(ctx)
        o = find1(ctx.p, s0, b"priv-key-0")
        G = tpl([(C.CKA_LABEL, Out(16)), (C.CKA_ID, Out(16))])
        return [["C_SetAttributeValue s=%d o=%d tpl=%s" % (s0, o, tpl([(C.CKA_LABEL, b"renamed-key")]))], ["C_SetAttributeValue s=%d o=%d tpl=%s" % (s1, o, tpl([(C.CKA_ID, b"new-id")]))]], \
               ["C_GetAttributeValue s=%d o=%d tpl=%s" % (s0, o, G)]
    B["set-token-attribute-vs-set-token-attribute"] = b_set_set_token

    def b_inittoken_open(ctx):
        s0, s1 = user_sessions(ctx)                  # sessions on A keep the library busy; token B has none
        return [["C_InitToken slot=%d pin=x%s label=x%s" % (Bs(ctx), W.SO_B.hex(), b"B".ljust(32).hex())], ["C_OpenSession slot=%d flags=6" % Bs(ctx), "C_GetSessionInfo s=$0"]], \
               ["C_GetTokenInfo slot=%d" % Bs(ctx), "C_GetSessionInfo s=$T1.0"]
    B["inittoken-vs-open-session-same-token"] = b_inittoken_open

    def b_setpin_login(ctx):
        s0, s1 = user_sessions(ctx, login=False)
        NEW = b"user-pin-A-new"
        return [["C_SetPIN s=%d old=x%s new=x%s" % (s0, W.USER_A.hex(), NEW.hex())], ["C_Login s=%d user=1 pin=x%s" % (s1, W.USER_A.hex())]], \
               ["C_GetSessionInfo s=%d" % s0, "C_Logout s=%d" % s1, "C_Login s=%d user=1 pin=x%s" % (s1, NEW.hex())]
    B["setpin-vs-login-with-old-pin"] = b_setpin_login

    def b_three(ctx):
        s0, s1 = user_sessions(ctx)
        return [["C_OpenSession slot=%d flags=6" % A(ctx)], ["C_CreateObject s=%d tpl=%s" % (s1, tpl(F.template("data", token=False, private=False, label=b"x")))], ["C_GetSessionInfo s=%d" % s0, "FINDALL s=%d tpl=%s" % (s0, LBL(b"x"))]], []
    B["three-threads-open-create-find"] = b_three
    return B


RANDOM_CALLS = ("C_GenerateRandom",)


def abstract(res, threads, final):
    """outcome with handles replaced by identity classes (order of first appearance) and random outputs dropped"""
    classes = {}

    def cls(h):
        if h == 0:
            return "0"
        return classes.setdefault(h, len(classes))
    out = []
    for lines, answers in list(zip(threads, res["threads"])) + [(final, res["final"])]:
        row = []
        for line, a in zip(lines, answers):
            fn = line.split(" ")[0]
            item = [fn, a.get("rv")]
            if "h" in a and fn in ("C_OpenSession", "C_CreateObject", "C_CopyObject", "C_GenerateKey", "C_UnwrapKey", "C_DeriveKey"):
                item.append(("h", cls(a["h"]) if a.get("rv") == 0 else "0"))
            if "hs" in a:
                item.append(("hs", tuple(sorted(cls(h) for h in a["hs"]))))
            if "out" in a and fn not in RANDOM_CALLS:
                item.append(("out", a["out"]))
            if "attrs" in a:
                item.append(("attrs", tuple((x[0], x[1], x[2]) for x in a["attrs"])))
            if "state" in a:
                item.append(("state", a["state"], a.get("flags")))
            row.append(tuple(item))
        out.append(tuple(row) + (("missing", len(lines) - len(answers)),) * (len(lines) != len(answers)))
    return tuple(out)


def asan_summary(sh):
    """(error kind and function of the newest AddressSanitizer reports of this shell's processes, log text); the logs are removed"""
    import glob, re
    kinds, text = [], ""
    for lf in sorted(glob.glob(os.path.join(sh.statedir, "..", "asan.log*")), key=os.path.getmtime):
        try:
            t = open(lf, errors="replace").read()
            os.unlink(lf)
        except OSError:
            continue
        text += t
        for m in re.finditer(r"SUMMARY: AddressSanitizer: (\S+) \S+ in (.+)", t):
            fn = re.sub(r"\(.*", "", m.group(2)).strip()
            kinds.append("%s-in-%s" % (m.group(1), fn))
    return (",".join(sorted(set(kinds))) or "unclassified"), text


def anomaly(ab, seq_out):
    """names the calls whose result differs from the closest sequential outcome (fewest differing calls): part of the violation signature"""
    from p11mc.p11 import rvname
    best = None
    for so in sorted(seq_out, key=repr):
        d = []
        for ri, (ra, rs) in enumerate(zip(ab, so)):
            rn = "F" if ri == len(ab) - 1 else "T%d" % ri
            for ci in range(max(len(ra), len(rs))):
                a = ra[ci] if ci < len(ra) else None
                b = rs[ci] if ci < len(rs) else None
                if a == b:
                    continue
                if a is None or b is None or a[0] == "missing" or b[0] == "missing":
                    d.append("%s.%d:missing" % (rn, ci))
                elif a[1] != b[1]:
                    d.append("%s.%s=%s" % (rn, a[0], rvname(a[1]) if isinstance(a[1], int) else a[1]))
                else:
                    kinds = [x[0] for x, y in zip(a[2:], b[2:]) if x != y]
                    d.append("%s.%s:%s-differs" % (rn, a[0], "+".join(kinds) or "payload"))
        if best is None or len(d) < len(best):
            best = d
    return ",".join(best or ["?"])


def spec_text(threads, final, schedule=None, seq=None):
    L = []
    if seq is not None:
        L.append("seq " + " ".join("%d:%d" % x for x in seq))
    else:
        L.append("schedule " + " ".join(str(x) for x in (schedule or [])))
    for t, lines in enumerate(threads):
        for l in lines:
            L.append("T%d %s" % (t, l))
    for l in final:
        L.append("F " + l)
    return "\n".join(L).encode().hex()


def interleavings(lens):
    """all call-level orders preserving each thread's order"""
    out = []

    def rec(pos, acc):
        if all(pos[t] == lens[t] for t in range(len(lens))):
            out.append(list(acc))
            return
        for t in range(len(lens)):
            if pos[t] < lens[t]:
                pos[t] += 1
                acc.append((t, pos[t] - 1))
                rec(pos, acc)
                acc.pop()
                pos[t] -= 1
    rec([0] * len(lens), [])
    return out


def _task(task):
    """explore the subtree below `prefix` of body `name` with the remaining preemption budget"""
    name, prefixes, bound, split = task          # split: run each prefix once and hand its children back to the master instead of recursing
    max_execs = 400000
    ctx = core._W["ctx"]
    ctx.counters = {}
    out = {"viol": {}, "harness": None, "counters": None, "samples": [], "root_points": None, "name": name, "children": []}
    sh, p = ctx.sh, ctx.p

    def V(sig, det):
        out["viol"].setdefault(sig, {"signature": sig, "detail": det, "task": [name, [det.get("schedule", [])], 0, True], "history": [], "action": None})
    try:
        sh.snap()
        try:
            threads, final = body_defs()[name](ctx)
            # sequential reference outcomes
            seq_out = set()
            for order in interleavings([len(t) for t in threads]):
                r = sh.cmd("RUNTHREADS spec=" + spec_text(threads, final, seq=order))
                if "tdied" in r:
                    V("C18|%s|sequential-run-died|%r" % (name, r["tdied"]), {"order": order})
                    continue
                seq_out.add(abstract(r, threads, final))
                ctx.count("sequential_runs")
            execs = [0]
            outcomes = set()

            def run(pref):
                r = sh.cmd("RUNTHREADS spec=" + spec_text(threads, final, schedule=pref))
                execs[0] += 1
                ctx.count("schedules_executed")
                return r

            def check(r, pref):
                if "tdied" in r:
                    kind, log = asan_summary(sh)
                    V("C18|%s|process-died|%s%s" % (name, "signal-%s" % r["tdied"].get("signal") if "signal" in r["tdied"] else "exit-%s" % r["tdied"].get("exit"), "" if kind == "unclassified" else "|" + kind),
                      {"schedule": list(pref), "asan_log": log[:3000]})
                    return None
                if r.get("serr"):
                    V("C18|%s|%s" % (name, r["serr"].split(":")[0].replace(" ", "-") if not r["serr"].startswith("mutex protocol") else r["serr"].replace(" ", "-")), {"schedule": list(pref), "error": r["serr"]})
                    return r
                if not r.get("locks") and r.get("threads"):
                    # locking was requested with application callbacks, calls on shared structures ran, and the library did not lock once
                    V("C18|%s|library-made-no-mutex-callback-although-locking-was-requested" % name, {"schedule": list(pref), "mutexes_created": r.get("mutexes")})
                if r.get("asan"):
                    kind, log = asan_summary(sh)
                    if True:
                        V("C18|%s|asan-report|%s" % (name, kind), {"schedule": list(pref), "asan_log": log[:3000]})
                ab = abstract(r, threads, final)
                outcomes.add(ab)
                if ab not in seq_out:
                    V("C18|%s|no-sequential-order-explains|%s" % (name, anomaly(ab, seq_out)), {"schedule": list(pref), "outcome": repr(ab)[:900], "sequential_outcomes": [repr(x)[:500] for x in sorted(seq_out, key=repr)[:3]]})
                return r

            def choices_of(r):
                return [pt[3].index(pt[1]) for pt in r["points"]]

            def preempt_cost(points, upto):
                c = 0
                for pt in points[:upto]:
                    if pt[0] >= 0 and pt[0] in pt[3] and pt[1] != pt[0]:
                        c += 1
                return c

            def explore(pref, budget):
                if execs[0] >= max_execs:
                    out["capped"] = True
                    return
                r = run(pref)
                r = check(r, pref)
                if r is None or "points" not in r:
                    return
                pts = r["points"]
                ch = choices_of(r)
                if list(ch[:len(pref)]) != list(pref):
                    V("C18|%s|harness|replayed-prefix-diverged" % name, {"schedule": list(pref), "seen": ch[:len(pref)]})
                    return
                if not pref and out["root_points"] is None:
                    out["root_points"] = [[pt[0], pt[3]] for pt in pts]
                for i in range(len(pref), len(pts)):
                    pt = pts[i]
                    cost = preempt_cost(pts, i)
                    for alt in range(1, len(pt[3])):
                        extra = 1 if (pt[0] >= 0 and pt[0] in pt[3]) else 0
                        if cost + extra > budget:
                            continue
                        if split and cost + extra < budget:
                            out["children"].append(ch[:i] + [alt])      # preemptions left below this child: a job of its own
                        else:
                            explore(ch[:i] + [alt], budget)
            for prefix in prefixes:
                explore(list(prefix), bound)
            import hashlib
            out["samples"].append({"body": name, "schedules": execs[0], "outcome_hashes": sorted(hashlib.sha1(repr(o).encode()).hexdigest()[:12] for o in outcomes), "sequential_outcomes": len(seq_out)})
            ctx.count("distinct_outcomes:%s" % name, 0)
            out["outcomes"] = len(outcomes)
        finally:
            sh.unwind(0)
    except Died as d:
        sig = "C18|%s|harness-shell-died|%r" % (name, d.info)
        out["viol"][sig] = {"signature": sig, "detail": {"during": (d.during or "")[:200]}, "task": [name, [list(x) for x in prefixes][:1], bound, True], "history": [], "action": None}
        core._fresh_shell()
    except Exception:
        out["harness"] = "task %r: %s" % (task, traceback.format_exc())
        try:
            core._fresh_shell()
        except Exception:
            pass
    out["counters"] = ctx.counters
    out["viol"] = list(out["viol"].values())
    return out


# ------------------------------------------------------------------------------------------------ race-detector side pass
def parse_tsan(text):
    """[(funcA, funcB, excerpt)] for every data-race report whose two accesses both have a frame in the library sources"""
    import re
    out = []
    for blk in text.split("WARNING: ThreadSanitizer: data race")[1:]:
        blk = blk.split("SUMMARY: ThreadSanitizer")[0]
        stacks, cur = [], None
        for line in blk.splitlines():
            if re.match(r"^  (Previous )?(atomic )?(read|write|Read|Write|Atomic read|Atomic write) of size", line.strip() and line):
                cur = []
                stacks.append(cur)
            elif line.startswith("  ") and not line.startswith("    ") and line.strip():
                cur = None          # another section (Location, Mutex, Thread ...)
            elif cur is not None and line.strip().startswith("#"):
                cur.append(line.strip())
        fns = []
        for st in stacks[:2]:
            fn = None
            for fr in st:
                m = re.match(r"#\d+ (.+?) (/\S*/src/lib/\S+):\d+", fr)
                if m:
                    fn = re.sub(r"\(.*", "", m.group(1)).strip()
                    break
            fns.append(fn)
        if len(fns) == 2 and all(fns):
            out.append((min(fns), max(fns), blk[:1800]))
    return out


def _tsan_task(task):
    """every schedule with at most one preemption of one body under ThreadSanitizer; the scheduler's hand-overs are invisible to the detector
    (engine/p11sh/rawsync.c), the library's mutexes are announced to it: a report is a pair of conflicting accesses that no library lock orders"""
    import glob
    name, max_runs = task
    ctx = core._W["ctx"]
    out = {"races": {}, "harness": None, "name": name, "runs": 0, "capped": False}
    sh = ctx.sh
    logs = os.path.join(sh.statedir, "..", "tsan.log*")
    try:
        sh.snap()
        try:
            threads, final = body_defs()[name](ctx)

            def run(pref):
                r = sh.cmd("RUNTHREADS spec=" + spec_text(threads, final, schedule=pref))
                out["runs"] += 1
                for lf in glob.glob(logs):
                    try:
                        t = open(lf, errors="replace").read()
                        os.unlink(lf)
                    except OSError:
                        continue
                    for fa, fb, ex in parse_tsan(t):
                        # signature = the two CLASSES whose methods race.  (Which of several racing accesses to one object the detector reports varies
                        # from run to run - its shadow memory keeps four accesses per word and evicts at random -, the classes involved do not.)
                        ca, cb = sorted((fa.split("::")[0], fb.split("::")[0]))
                        d_ = out["races"].setdefault("C18|data-race|%s|%s" % (ca, cb), {"body": name, "schedule": list(pref), "report": ex, "function_pairs": []})
                        if [fa, fb] not in d_["function_pairs"] and len(d_["function_pairs"]) < 12:
                            d_["function_pairs"].append([fa, fb])
                return r
            for lf in glob.glob(logs):
                os.unlink(lf)
            r = run([])
            pts = r.get("points") or []
            ch = [pt[3].index(pt[1]) for pt in pts]
            for i, pt in enumerate(pts):
                for alt in range(1, len(pt[3])):
                    if out["runs"] >= max_runs:
                        out["capped"] = True
                        break
                    run(ch[:i] + [alt])
        finally:
            sh.unwind(0)
    except Died as d:
        out["harness"] = "tsan pass %s: shell died %r" % (name, d.info)
        core._fresh_shell()
    except Exception:
        out["harness"] = "tsan pass %r: %s" % (task, traceback.format_exc())
        try:
            core._fresh_shell()
        except Exception:
            pass
    return out


def tsan_pass(rep, quick):
    """returns the coverage dict of the side pass; races go to rep as violations (signature = the two library functions)"""
    names = sorted(body_defs())
    if os.environ.get("C18_BODIES"):
        names = [n for n in names if n in os.environ["C18_BODIES"].split(",")]
    ex = Explorer(C18(), variant="ossl-tsan")
    cov = {"bodies": len(names), "schedules": 0, "capped_bodies": [], "distinct_races": 0}
    found = {}
    try:
        for r in ex.pool.imap_unordered(_tsan_task, [(n, 300 if quick else 3000) for n in names], chunksize=1):
            if r["harness"]:
                rep.harness_errors.append(r["harness"])
            cov["schedules"] += r["runs"]
            if r["capped"]:
                cov["capped_bodies"].append(r["name"])
            for sig, det in r["races"].items():
                found.setdefault(sig, det)
        # replay before report: the body's pass is repeated and must show the same pair again
        again = {}
        for r in ex.pool.imap_unordered(_tsan_task, [(n, 300 if quick else 3000) for n in sorted({d["body"] for d in found.values()})], chunksize=1):
            again[r["name"]] = set(r["races"])
        for sig, det in sorted(found.items()):
            if sig in again.get(det["body"], ()):
                rep.add_violation({"signature": sig, "detail": det, "task": ["tsan", det["body"]], "history": [], "action": None, "variant": "ossl-tsan", "store": "file", "replay_module": "c18_threads", "property": "C18"})
            else:
                rep.harness_errors.append("data race %s (body %s) did not show again when the body was repeated" % (sig, det["body"]))
    finally:
        ex.close()
    cov["distinct_races"] = len(found)
    return cov


def _replay_one(task):
    """run exactly one schedule of a body (for confirmation / replay)"""
    name, prefixes, _b, _m = task
    return _task((name, [list(prefixes[0])], 0, True))


def main(tier):
    rep = Report("C18", tier, "model_checking")
    quick = tier == "quick"
    variant = "ossl-asan"        # both tiers: a use after free that a schedule provokes must not go unnoticed
    deadline = time.time() + (400 if quick else 7200)
    ex = Explorer(C18(), variant=variant)
    cnt, samples = {}, []
    complete = True
    per_body = {}
    found = {}
    outcome_sets = {}
    wave_log = []
    try:
        names = sorted(body_defs())
        if os.environ.get("C18_BODIES"):          # maintainer switch: explore some bodies only (never set by a registered command)
            names = [n for n in names if n in os.environ["C18_BODIES"].split(",")]
        # wave 0: root run of every body (gives the scheduling points); waves 1..: the children are handed back and re-distributed in chunks so that all
        # workers stay busy; the last wave explores the remaining subtrees recursively
        def absorb(r):
            if r["harness"]:
                rep.harness_errors.append(r["harness"])
            for k, v in (r["counters"] or {}).items():
                cnt[k] = cnt.get(k, 0) + v
            for v in r["viol"]:
                found.setdefault(v["signature"], v)
            for s_ in r["samples"]:
                pb = per_body[s_["body"]]
                pb["schedules"] += s_["schedules"]
                outcome_sets.setdefault(s_["body"], set()).update(s_["outcome_hashes"])
                pb["sequential_outcomes"] = s_["sequential_outcomes"]
        for n in names:
            per_body[n] = {"scheduling_points": 0, "preemption_bound": 0, "schedules": 0}
        roots = ex.pool.map(_task, [(n, [[]], 9, True) for n in names], chunksize=1)
        wave = []
        for n, r in zip(names, roots):
            pts = r.get("root_points") or []
            # largest preemption bound whose (over-)estimated number of schedules fits the per-body budget; the bound actually completed is reported per body
            npts, budget = max(len(pts), 1), (16000 if quick else 400000)
            bound = 1
            for b, est in ((2, 0.4 * npts ** 2), (3, 0.1 * npts ** 3)):
                if est <= budget and b <= (2 if quick else 3):
                    bound = b
            per_body[n].update(scheduling_points=len(pts), preemption_bound=bound)
            absorb(r)
            # the root was run with budget 3: keep only the children within this body's bound (a child of the root costs 0 or 1 preemption)
            for c in r["children"]:
                wave.append((n, c))
        bounds = {n: per_body[n]["preemption_bound"] for n in names}
        depth = 0
        while wave and complete:
            depth += 1
            by = {}
            for n, c in wave:
                by.setdefault(n, []).append(c)
            jobs = []
            for n, cs in by.items():
                k = max(1, min(8, len(cs) // (ex.workers * 4)))
                for i in range(0, len(cs), k):
                    jobs.append((n, cs[i:i + k], bounds[n], True))
            jobs.sort(key=lambda j: -per_body[j[0]]["scheduling_points"])
            wave = []
            t_w = time.time()
            for r in ex.pool.imap_unordered(_task, jobs, chunksize=1):
                absorb(r)
                for c in r["children"]:
                    wave.append((r["name"], c))
                if r.get("capped"):
                    complete = False
                if time.time() > deadline:
                    complete = False
                    break
            wave_log.append({"wave": depth, "jobs": len(jobs), "seconds": round(time.time() - t_w, 1)})
        if not complete:
            import multiprocessing as mp
            ex.pool.terminate(); ex.pool.join()
            ex.pool = mp.get_context("fork").Pool(ex.workers, core._worker_init, (ex.check, ex.variant, ex.store, ex.template, ex.base_root))
        todo = sorted(found.items())
        res = ex.pool.map(_replay_one, [tuple(v["task"]) for s, v in todo], chunksize=1)
        for (sig, v), r in zip(todo, res):
            if any(x["signature"] == sig for x in r["viol"]):
                v = dict(v); v.update(variant=variant, store="file", replay_module="c18_threads")
                rep.add_violation(v)
            else:
                rep.harness_errors.append("violation %s did not reproduce on replaying its schedule" % sig)
    finally:
        ex.close()
    tsan_cov = None
    if not quick or os.environ.get("C18_TSAN"):
        tsan_cov = tsan_pass(rep, quick)
    total = sum(b["schedules"] for b in per_body.values())
    if total < 50:
        rep.harness_errors.append("vacuous: %d schedules" % total)
    rep.coverage = {"states": total, "transitions": sum(b["schedules"] * max(b["scheduling_points"], 1) for b in per_body.values()), "traces_validated_against_impl": total,
                    "samples": [dict(body=k, distinct_outcomes=len(outcome_sets.get(k, ())), **v) for k, v in sorted(per_body.items())], "exhaustive": complete, "variant": variant, "waves": wave_log, "race_detector_side_pass": tsan_cov, "sequential_reference_runs": cnt.get("sequential_runs", 0),
                    "rule": "states = schedules executed on the real library (each in a fresh process image, own directory copy); for every body ALL schedules with at most the stated "
                            "number of preemptions at LockMutex / thread start / thread end points; transitions = schedules x scheduling points of the default run; distinct outcomes per body "
                            "are listed in samples (one outcome from many schedules means nothing collided)"}
    rep.assumptions = ["scheduling points are the application mutex callbacks, thread start and thread end: unsynchronised accesses between two lock operations are not interleaved; the thorough tier "
                       "adds a ThreadSanitizer pass over every schedule with at most one preemption (scheduler hand-overs hidden from the detector, library locks announced to it) that reports such accesses",
                       "2-3 threads, 1-3 calls each; file store; CKF_OS_LOCKING_OK uses the same lock sites with pthread mutexes and is not explored"]
    return rep.finish()


def replay(rec):
    import shutil, sys
    from p11mc import p11 as P
    sys.path.insert(0, P.VERIF + "/tools")
    import build_sut
    build_sut.build(rec["variant"])
    check = C18()
    root = P.scratch_root()
    try:
        template = core.build_template(check, rec["variant"], "file", root)
        core._worker_init(check, rec["variant"], "file", template, root)
        if rec["task"][0] == "tsan":
            r = _tsan_task((rec["task"][1], 3000))
            core._W["ctx"].stop_shell()
            print("body:", rec["task"][1], "\nrecorded:", rec["signature"], "\nobserved:", sorted(r["races"]))
            if rec["signature"] in r["races"]:
                print("VIOLATION property=C18 replay=%s" % sys.argv[1])
                return 1
            return 0
        r = _replay_one(tuple(rec["task"]))
        core._W["ctx"].stop_shell()
        sigs = [v["signature"] for v in r["viol"]]
        print("body/schedule:", rec["task"][:2], "\nrecorded:", rec["signature"], "\nobserved:", sigs[:10])
        if rec["signature"] in sigs:
            print("VIOLATION property=C18 replay=%s" % sys.argv[1])
            return 1
        return 0
    finally:
        shutil.rmtree(root, ignore_errors=True)
