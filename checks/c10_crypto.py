"""C10 - cryptographic results are correct, interoperable and verification is sound (DESIGN.md 3/C10).

Exhaustive grid on the real library against an independent implementation (Botan via refsh, hashlib for digests):
mechanism x key size x every message length 0..(k blocks + 1) x every composition of the message into <= 2 (quick) / 3
(thorough) parts fed through the multi-part calls x both directions; CTR counter widths; GCM IV/AAD/tag-length variants; and the
TAMPER enumeration: every single bit of data, signature/MAC, IV, AAD and tag flipped -> verification / authenticated decryption
must fail.  Deterministic mechanisms: byte equality with the reference.  Randomised ones: token output verifies/decrypts under the
reference and reference output verifies/decrypts under the token.
"""
import hashlib, hmac, itertools, os, struct, time, traceback
from p11mc import consts as C
from p11mc.core import CheckBase, Explorer, Violation, Died
from p11mc import core
from p11mc.runner import Report
from p11mc import world as W, fixtures as F
from p11mc.ref import Ref, RefError
from p11mc.p11 import Out, tpl, mech, blob, gcm_params, ctr_params, oaep_params, pss_params, ecdh_params

IV16, IV8 = bytes(range(0x30, 0x40)), bytes(range(0x50, 0x58))


def msg(n, seed=0):
    return bytes(((i * 11 + seed * 29 + 5) ^ (i >> 3)) & 0xFF for i in range(n))


def compositions(n, maxparts):
    """all ways to cut a message of length n into 1..maxparts non-empty consecutive parts (n = 0: the empty message as one part)"""
    if n == 0:
        return [(0,)]
    out = [(n,)]
    if maxparts >= 2:
        out += [(a, n - a) for a in range(1, n)]
    if maxparts >= 3:
        out += [(a, b, n - a - b) for a in range(1, n - 1) for b in range(1, n - a)]
    return out


class C10(CheckBase):
    ID = "C10"

    def __init__(self):
        self.kw = {}

    def world(self, ctx):
        return W.two_tokens(ctx)

    def setup(self, ctx, world):
        p = ctx.p
        W.ok(p.Initialize(), "init")
        s = W.ok(p.OpenSession(world["slots"]["A"]), "open")["h"]
        W.ok(p.Login(s, C.CKU_USER, W.USER_A), "login")
        return {"s": s}


class Cell:
    """collects violations / counters of one task"""

    def __init__(self, ctx, task):
        self.ctx, self.task, self.viol, self.samples = ctx, task, {}, []

    def V(self, sig, det=None):
        self.viol.setdefault(sig, {"signature": sig, "detail": det, "task": list(self.task), "history": [], "action": None})

    def count(self, k, n=1):
        self.ctx.count(k, n)


def mk(p, s, kind, extra):
    return W.ok(p.CreateObject(s, F.template(kind, token=False, private=False, label=b"k", extra=extra)), kind)["h"]


def multipart(p, s, kind, initline, parts_data, outcap, final_sig=None):
    """Init, Update*, Final in one pipelined batch; returns (rv list, concatenated output)"""
    lines = [initline]
    for d in parts_data:
        if kind in ("Encrypt", "Decrypt"):
            # room for everything fed so far plus two blocks: an implementation may hold data back and hand it out later (the length protocol is C12's subject)
            lines.append("C_%sUpdate s=%d in=x%s out=b%d" % (kind, s, d.hex(), max(len(d) + 32, outcap)))
        else:
            lines.append("C_%sUpdate s=%d in=x%s" % (kind, s, d.hex()))
    if kind == "Verify":
        lines.append("C_VerifyFinal s=%d in=x%s" % (s, final_sig.hex()))
    else:
        lines.append("C_%sFinal s=%d out=b%d" % (kind, s, outcap))
    rs = p.batch(lines)
    out = b""
    for r in rs[1:]:
        if "out" in r and r["rv"] == 0:
            out += bytes.fromhex(r["out"])[:r["len"]]
    return [r["rv"] for r in rs], out


def single(p, s, kind, initline, data, outcap, sig=None):
    if kind == "Verify":
        rs = p.batch([initline, "C_Verify s=%d in=x%s sig=x%s" % (s, data.hex(), sig.hex())])
        return [r["rv"] for r in rs], b""
    rs = p.batch([initline, "C_%s s=%d in=x%s out=b%d" % (kind, s, data.hex(), outcap)])
    out = bytes.fromhex(rs[1].get("out", ""))[:rs[1].get("len", 0)] if rs[1]["rv"] == 0 else b""
    return [r["rv"] for r in rs], out


# ------------------------------------------------------------------------------------------------
# reference computations
def ref_cipher(ref, name, key, iv, data, enc, aad=None, tagbytes=16, ctrbits=128):
    kn = {16: "AES-128", 24: "AES-192", 32: "AES-256"}
    alg = kn[len(key)] if name.startswith("aes") else "TripleDES"
    if name.startswith("des3") and len(key) == 16:
        key = key + key[:8]
    mode = name.split("-", 1)[1]
    if mode == "ecb":
        return ref.try_out("BLOCK", alg=alg, dir="enc" if enc else "dec", key=key, **{"in": data}) if data else b""
    if mode == "cbc":
        return ref.try_out("CIPHER", alg=alg + "/CBC/NoPadding", dir="enc" if enc else "dec", key=key, iv=iv, **{"in": data})
    if mode == "cbc-pad":
        return ref.try_out("CIPHER", alg=alg + "/CBC/PKCS7", dir="enc" if enc else "dec", key=key, iv=iv, **{"in": data})
    if mode == "ctr":
        # generic CTR with a counter of ctrbits bits (big endian, in the low bits of the block), built on single-block encryptions
        nblocks = (len(data) + 15) // 16
        base = int.from_bytes(iv, "big")
        mask = (1 << ctrbits) - 1
        blocks = b"".join((((base & ~mask) | ((base + i) & mask)) & ((1 << 128) - 1)).to_bytes(16, "big") for i in range(nblocks))
        ks = ref.out("BLOCK", alg=alg, key=key, **{"in": blocks}) if nblocks else b""
        return bytes(a ^ b for a, b in zip(data, ks))
    if mode == "gcm":
        if enc:
            full = ref.try_out("CIPHER", alg=alg + "/GCM(16)", dir="enc", key=key, iv=iv, aad=aad or b"", **{"in": data})
            return None if full is None else full[:len(data)] + full[len(data):len(data) + tagbytes]
        return None
    raise KeyError(name)


def task_cipher(cell, p, s, ref, name, keylen, maxparts, maxlen, quick):
    key = {16: F.AES128, 24: F.AES192, 32: F.AES256}[keylen] if name.startswith("aes") else (F.DES3 if keylen == 24 else F.DES2)
    kind = {"aes": "aes%d" % (keylen * 8), "des3": "des3" if keylen == 24 else "des2"}[name.split("-")[0]]
    h = mk(p, s, kind, [(C.CKA_ENCRYPT, True), (C.CKA_DECRYPT, True)])
    B = 16 if name.startswith("aes") else 8
    mode = name.split("-", 1)[1]
    iv = IV16 if B == 16 else IV8
    variants = [dict()]
    if mode == "ctr":
        variants = [dict(bits=b, iv=((1 << 128) - 1 - ((1 << b) - 1) | max((1 << b) - 1 - 5, 0)).to_bytes(16, "big")) for b in ((128, 32) if quick else (128, 64, 32, 8, 1))]
        variants.append(dict(bits=128, iv=IV16))
    if mode == "gcm":
        variants = [dict(iv=msg(ivl, 3), aad=msg(al, 4), tag=tb) for ivl in ((12, 16) if quick else (1, 12, 16, 64)) for al in ((0, 17) if quick else (0, 1, 16, 17))
                    for tb in ((128, 96) if quick else (32, 64, 96, 104, 112, 120, 128))]
    for var in variants:
        civ = var.get("iv", iv)
        if mode == "ecb":
            ms = mech({"aes": C.CKM_AES_ECB, "des3": C.CKM_DES3_ECB}[name.split("-")[0]])
        elif mode == "cbc":
            ms = mech({"aes": C.CKM_AES_CBC, "des3": C.CKM_DES3_CBC}[name.split("-")[0]], civ)
        elif mode == "cbc-pad":
            ms = mech({"aes": C.CKM_AES_CBC_PAD, "des3": C.CKM_DES3_CBC_PAD}[name.split("-")[0]], civ)
        elif mode == "ctr":
            ms = mech(C.CKM_AES_CTR, ctr_params(var["bits"], civ))
        else:
            ms = mech(C.CKM_AES_GCM, gcm_params(civ, var["aad"], var["tag"]))
        einit = "C_EncryptInit s=%d mech=%s k=%d" % (s, ms, h)
        dinit = "C_DecryptInit s=%d mech=%s k=%d" % (s, ms, h)
        tagb = var.get("tag", 0) // 8
        lens = range(0, maxlen + 1)
        if mode == "ctr" and var["bits"] < 8:
            lens = range(0, 17)         # a 1-bit counter wraps after two blocks: stay below
        if mode == "gcm" and len(variants) > 8:
            lens = [0, 1, 15, 16, 17, 33]
        for n in lens:
            if mode in ("ecb", "cbc") and n % B:
                continue
            pt = msg(n, keylen)
            want = ref_cipher(ref, name, key, civ, pt, True, aad=var.get("aad"), tagbytes=tagb or 16, ctrbits=var.get("bits", 128))
            if want is None:
                cell.count("reference_unavailable")
                continue
            rvs, ct = single(p, s, "Encrypt", einit, pt, n + 64)
            cell.count("cells")
            vtag = "%s-%d" % (name, keylen * 8) + ("|ctrbits=%d" % var["bits"] if mode == "ctr" else "") + ("|iv=%d|aad=%d|tag=%d" % (len(civ), len(var["aad"]), var["tag"]) if mode == "gcm" else "")
            if rvs != [0, 0]:
                if n == 0 and mode in ("ecb", "cbc"):
                    continue
                cell.V("C10|%s|encrypt-refused|len=%s" % (vtag, "0" if n == 0 else ("block-multiple" if n % B == 0 else "other")), {"rv": rvs, "len": n})
                continue
            if ct != want:
                cell.V("C10|%s|ciphertext-differs-from-reference|len%%block=%d" % (vtag, n % B), {"len": n, "token": ct, "reference": want})
                continue
            cell.count("outputs_equal_reference")
            # decrypt of the reference ciphertext
            rvs, back = single(p, s, "Decrypt", dinit, want, n + 64)
            if rvs != [0, 0] or back != pt:
                cell.V("C10|%s|decrypt-of-reference-ciphertext-wrong|len%%block=%d" % (vtag, n % B), {"len": n, "rv": rvs, "got": back})
            # every composition into <= maxparts parts, both directions
            if mode == "gcm" and var is not variants[0] and not (var["tag"] == 128 and len(civ) == 12):
                comps = [(n,)] + ([(1, n - 1)] if n > 1 else [])
            else:
                comps = compositions(n, maxparts)
            for comp in comps:
                for direction, initl, data, expect in (("Encrypt", einit, pt, want), ("Decrypt", dinit, want, pt)):
                    cuts, off = [], 0
                    total = len(data)
                    # scale the composition of the plaintext length onto this direction's input (ciphertext may be longer: last part takes the rest)
                    for i, c in enumerate(comp):
                        end = off + c if i < len(comp) - 1 else total
                        cuts.append(data[off:end])
                        off = end
                    rvs, out = multipart(p, s, direction, initl, cuts, len(data) + 64)
                    cell.count("multipart_runs")
                    if any(rvs) or out != expect:
                        cell.V("C10|%s|multi-part-%s-differs-from-single-part|parts=%d" % (vtag, direction.lower(), len(comp)), {"len": n, "split": comp, "rv": rvs, "got": out, "want": expect})
            # tamper (authenticated mode): every bit of ciphertext, tag, IV and AAD
            if mode == "gcm" and n in (0, 1, 16, 17):
                def attempt(ctt, ivv, aadd):
                    ms2 = mech(C.CKM_AES_GCM, gcm_params(ivv, aadd, var["tag"]))
                    return single(p, s, "Decrypt", "C_DecryptInit s=%d mech=%s k=%d" % (s, ms2, h), ctt, n + 64)
                for what, base in (("ciphertext-or-tag", want), ("iv", civ), ("aad", var["aad"])):
                    for bit in range(len(base) * 8):
                        mod = bytearray(base)
                        mod[bit // 8] ^= 1 << (bit % 8)
                        mod = bytes(mod)
                        rvs, out = attempt(mod if what == "ciphertext-or-tag" else want, mod if what == "iv" else civ, mod if what == "aad" else var["aad"])
                        cell.count("tamper_cases")
                        where = what if what != "ciphertext-or-tag" else ("tag" if bit // 8 >= n else "ciphertext")
                        if rvs == [0, 0]:
                            cell.V("C10|%s|tampered-%s-accepted|ptlen=%d" % (vtag, where, n), {"bit": bit})
                        # ... and the same tampered input through the multi-part calls (whole input in one Update, and cut after the first byte); one bit per byte
                        if bit % 8 == 0:
                            ctt = mod if what == "ciphertext-or-tag" else want
                            ms2 = mech(C.CKM_AES_GCM, gcm_params(mod if what == "iv" else civ, mod if what == "aad" else var["aad"], var["tag"]))
                            for cuts in ([ctt], [ctt[:1], ctt[1:]]):
                                rvm, outm = multipart(p, s, "Decrypt", "C_DecryptInit s=%d mech=%s k=%d" % (s, ms2, h), cuts, n + 64)
                                cell.count("tamper_cases")
                                if not any(rvm):
                                    cell.V("C10|%s|tampered-%s-accepted-by-multi-part-decryption|ptlen=%d" % (vtag, where, n), {"bit": bit, "parts": [len(c) for c in cuts]})
                if var["aad"]:
                    rvs, out = attempt(want, civ, b"")
                    if rvs == [0, 0]:
                        cell.V("C10|%s|removed-aad-accepted|ptlen=%d" % (vtag, n), {})
    p.DestroyObject(s, h)


HASHES = {"md5": (C.CKM_MD5, C.CKM_MD5_HMAC, "MD5", 64), "sha1": (C.CKM_SHA_1, C.CKM_SHA_1_HMAC, "SHA-1", 64), "sha224": (C.CKM_SHA224, C.CKM_SHA224_HMAC, "SHA-224", 64),
          "sha256": (C.CKM_SHA256, C.CKM_SHA256_HMAC, "SHA-256", 64), "sha384": (C.CKM_SHA384, C.CKM_SHA384_HMAC, "SHA-384", 128), "sha512": (C.CKM_SHA512, C.CKM_SHA512_HMAC, "SHA-512", 128)}


def task_digest(cell, p, s, ref, hname, maxparts, quick):
    dm, _, _, blk = HASHES[hname]
    init = "C_DigestInit s=%d mech=%s" % (s, mech(dm))
    top = blk + 1 if quick else 2 * blk + 1
    for n in range(0, top + 1):
        data = msg(n, 7)
        want = hashlib.new(hname, data).digest()
        rvs, out = single(p, s, "Digest", init, data, 80)
        cell.count("cells")
        if rvs != [0, 0] or out != want:
            cell.V("C10|%s|digest-differs-from-reference" % hname, {"len": n, "rv": rvs})
            continue
        cell.count("outputs_equal_reference")
        comps = compositions(n, maxparts) if (n <= 40 or n in (blk - 1, blk, blk + 1, 2 * blk, 2 * blk + 1)) else compositions(n, 2)
        for comp in comps:
            cuts, off = [], 0
            for c in comp:
                cuts.append(data[off:off + c]); off += c
            rvs, out = multipart(p, s, "Digest", init, cuts, 80)
            cell.count("multipart_runs")
            if any(rvs) or out != want:
                cell.V("C10|%s|multi-part-digest-differs|parts=%d" % (hname, len(comp)), {"len": n, "split": comp})


def task_mac(cell, p, s, ref, name, keyspec, maxparts, quick):
    if name.startswith("hmac-"):
        hname = name[5:]
        mm, alg, blk = HASHES[hname][1], "HMAC(%s)" % HASHES[hname][2], HASHES[hname][3]
        key = F.GENERIC[keyspec]
        h = mk(p, s, "generic%d" % keyspec, [(C.CKA_SIGN, True), (C.CKA_VERIFY, True)])
        refmac = lambda d: hmac.new(key, d, hname).digest()
    else:
        if name == "cmac-aes":
            key = {16: F.AES128, 24: F.AES192, 32: F.AES256}[keyspec]
            mm, alg, blk = C.CKM_AES_CMAC, "CMAC(AES-%d)" % (keyspec * 8), 16
            h = mk(p, s, "aes%d" % (keyspec * 8), [(C.CKA_SIGN, True), (C.CKA_VERIFY, True)])
        else:
            key = F.DES3 if keyspec == 24 else F.DES2 + F.DES2[:8]
            mm, alg, blk = C.CKM_DES3_CMAC, "CMAC(TripleDES)", 8
            h = mk(p, s, "des3" if keyspec == 24 else "des2", [(C.CKA_SIGN, True), (C.CKA_VERIFY, True)])
        refmac = lambda d: ref.out("MAC", alg=alg, key=key, **{"in": d})
    sinit = "C_SignInit s=%d mech=%s k=%d" % (s, mech(mm), h)
    vinit = "C_VerifyInit s=%d mech=%s k=%d" % (s, mech(mm), h)
    vt = "%s-key%d" % (name, keyspec)
    top = (blk + 1) if quick else (2 * blk + 1)
    for n in range(0, top + 1):
        data = msg(n, 9)
        want = refmac(data)
        rvs, out = single(p, s, "Sign", sinit, data, 80)
        cell.count("cells")
        if rvs[0] != 0:
            cell.count("init_refused_not_judged")     # e.g. a key shorter than the library's minimum for this HMAC: stricter than the standard, not wrong
            continue
        if rvs != [0, 0] or out != want:
            cell.V("C10|%s|mac-differs-from-reference" % vt, {"len": n, "rv": rvs, "got": out, "want": want})
            continue
        cell.count("outputs_equal_reference")
        rvs, _ = single(p, s, "Verify", vinit, data, 0, sig=want)
        if rvs != [0, 0]:
            cell.V("C10|%s|reference-mac-rejected" % vt, {"len": n, "rv": rvs})
        comps = compositions(n, maxparts) if (n <= 34 or n in (blk - 1, blk, blk + 1, 2 * blk, 2 * blk + 1)) else compositions(n, 2)
        for comp in comps:
            cuts, off = [], 0
            for c in comp:
                cuts.append(data[off:off + c]); off += c
            rvs, out = multipart(p, s, "Sign", sinit, cuts, 80)
            cell.count("multipart_runs")
            if any(rvs) or out != want:
                cell.V("C10|%s|multi-part-mac-differs|parts=%d" % (vt, len(comp)), {"len": n, "split": comp, "rv": rvs})
            rvs, _ = multipart(p, s, "Verify", vinit, cuts, 0, final_sig=want)
            if any(rvs):
                cell.V("C10|%s|multi-part-verify-rejects-reference-mac|parts=%d" % (vt, len(comp)), {"len": n, "split": comp, "rv": rvs})
        if n in (0, 1, blk, blk + 1):
            for what, base in (("mac", want), ("data", data)):
                for bit in range(len(base) * 8):
                    mod = bytearray(base); mod[bit // 8] ^= 1 << (bit % 8); mod = bytes(mod)
                    rvs, _ = single(p, s, "Verify", vinit, mod if what == "data" else data, 0, sig=mod if what == "mac" else want)
                    cell.count("tamper_cases")
                    if rvs == [0, 0]:
                        cell.V("C10|%s|tampered-%s-accepted" % (vt, what), {"len": n, "bit": bit})
            rvs, _ = single(p, s, "Verify", vinit, data, 0, sig=want[:-1])
            if rvs == [0, 0]:
                cell.V("C10|%s|truncated-mac-accepted" % vt, {"len": n})
    p.DestroyObject(s, h)


def rsa_args(name):
    k = F.KEYS[name]
    return dict(type="rsa", n=F.H(k["n"]), e=F.H(k["e"]), d=F.H(k["d"]), p=F.H(k["p"]), q=F.H(k["q"]))


SIG_HASH = {"md5": (C.CKM_MD5_RSA_PKCS, None, "MD5", 16), "sha1": (C.CKM_SHA1_RSA_PKCS, C.CKM_SHA1_RSA_PKCS_PSS, "SHA-1", 20), "sha224": (C.CKM_SHA224_RSA_PKCS, C.CKM_SHA224_RSA_PKCS_PSS, "SHA-224", 28),
            "sha256": (C.CKM_SHA256_RSA_PKCS, C.CKM_SHA256_RSA_PKCS_PSS, "SHA-256", 32), "sha384": (C.CKM_SHA384_RSA_PKCS, C.CKM_SHA384_RSA_PKCS_PSS, "SHA-384", 48),
            "sha512": (C.CKM_SHA512_RSA_PKCS, C.CKM_SHA512_RSA_PKCS_PSS, "SHA-512", 64)}
PSS_PARAM = {"sha1": (C.CKM_SHA_1, C.CKG_MGF1_SHA1), "sha224": (C.CKM_SHA224, C.CKG_MGF1_SHA224), "sha256": (C.CKM_SHA256, C.CKG_MGF1_SHA256), "sha384": (C.CKM_SHA384, C.CKG_MGF1_SHA384),
             "sha512": (C.CKM_SHA512, C.CKG_MGF1_SHA512)}


def sig_roundtrip(cell, p, s, ref, vt, sinit_of, vinit_of, refsign, refverify, data_lens, det, multi, maxparts, tamper=True):
    """shared logic for signature mechanisms. sinit_of()/vinit_of() -> init lines; refsign(data)->sig|None; refverify(data,sig)->bool"""
    for n in data_lens:
        data = msg(n, 21)
        rvs, sig = single(p, s, "Sign", sinit_of(), data, 600)
        cell.count("cells")
        if rvs != [0, 0]:
            cell.V("C10|%s|sign-refused" % vt, {"len": n, "rv": rvs})
            continue
        rs = refsign(data)
        if det and rs is not None:
            if sig != rs:
                cell.V("C10|%s|signature-differs-from-reference" % vt, {"len": n, "token": sig, "reference": rs})
                continue
            cell.count("outputs_equal_reference")
        if not refverify(data, sig):
            cell.V("C10|%s|token-signature-rejected-by-reference" % vt, {"len": n})
            continue
        cell.count("signatures_verified_by_reference")
        if rs is not None:
            rvs, _ = single(p, s, "Verify", vinit_of(), data, 0, sig=rs)
            if rvs != [0, 0]:
                cell.V("C10|%s|reference-signature-rejected-by-token" % vt, {"len": n, "rv": rvs})
            else:
                cell.count("reference_signatures_verified_by_token")
        if multi:
            comps = compositions(n, maxparts) if n <= 20 else [(n,), (1, n - 1), (n // 2, n - n // 2), (n - 1, 1)]
            for comp in comps:
                cuts, off = [], 0
                for c in comp:
                    cuts.append(data[off:off + c]); off += c
                rvs, msig = multipart(p, s, "Sign", sinit_of(), cuts, 600)
                cell.count("multipart_runs")
                if any(rvs) or (det and msig != sig) or (not det and not refverify(data, msig)):
                    cell.V("C10|%s|multi-part-signature-wrong|parts=%d" % (vt, len(comp)), {"len": n, "split": comp, "rv": rvs})
                rvs, _ = multipart(p, s, "Verify", vinit_of(), cuts, 0, final_sig=sig)
                if any(rvs):
                    cell.V("C10|%s|multi-part-verify-rejects-valid-signature|parts=%d" % (vt, len(comp)), {"len": n, "split": comp, "rv": rvs})
        if tamper and n == data_lens[0]:
            for what, base in (("signature", sig), ("data", data)):
                for bit in range(len(base) * 8):
                    mod = bytearray(base); mod[bit // 8] ^= 1 << (bit % 8); mod = bytes(mod)
                    rvs, _ = single(p, s, "Verify", vinit_of(), mod if what == "data" else data, 0, sig=mod if what == "signature" else sig)
                    cell.count("tamper_cases")
                    if rvs == [0, 0]:
                        cell.V("C10|%s|tampered-%s-accepted" % (vt, what), {"len": n, "bit": bit})


def task_rsa(cell, p, s, ref, keyname, quick, maxparts):
    ka = rsa_args(keyname)
    pub = {k: v for k, v in ka.items() if k in ("type", "n", "e")}
    hp = mk(p, s, keyname + "_priv", [(C.CKA_SIGN, True), (C.CKA_DECRYPT, True)])
    hu = mk(p, s, keyname + "_pub", [(C.CKA_VERIFY, True), (C.CKA_ENCRYPT, True)])
    klen = len(ka["n"])

    def rsign(pad):
        return lambda d: ref.try_out("SIGN", pad=pad, **dict(ka, **{"in": d}))

    def rverify(pad):
        def f(d, sg):
            r = ref.call("VERIFY", pad=pad, sig=sg, **dict(pub, **{"in": d}))
            return bool(r.get("ok") and r.get("valid"))
        return f
    # raw PKCS#1 v1.5 signature over caller-supplied data
    sig_roundtrip(cell, p, s, ref, "rsa-pkcs|%s" % keyname, lambda: "C_SignInit s=%d mech=%s k=%d" % (s, mech(C.CKM_RSA_PKCS), hp),
                  lambda: "C_VerifyInit s=%d mech=%s k=%d" % (s, mech(C.CKM_RSA_PKCS), hu), rsign("EMSA3(Raw)"), rverify("EMSA3(Raw)"),
                  [20, 0, 1, 35, klen - 11], True, False, maxparts)
    for hn in (("sha256", "sha1") if quick else sorted(SIG_HASH)):
        m1, m2, bn, hl = SIG_HASH[hn]
        sig_roundtrip(cell, p, s, ref, "%s-rsa-pkcs|%s" % (hn, keyname), lambda: "C_SignInit s=%d mech=%s k=%d" % (s, mech(m1), hp),
                      lambda: "C_VerifyInit s=%d mech=%s k=%d" % (s, mech(m1), hu), rsign("EMSA3(%s)" % bn), rverify("EMSA3(%s)" % bn),
                      [17, 0, 1, 64, 65, 200], True, True, maxparts, tamper=(hn == "sha256"))
        if m2 is None:
            continue
        hm, mgf = PSS_PARAM[hn]
        maxsalt = klen - hl - 2
        # a salt longer than emLen - hLen - 2 cannot be encoded (RSA-1024 with SHA-512 and a 64-byte salt): refusing it is right, so it is not a cell
        for salt in [x for x in ((hl,) if quick else sorted({0, hl, maxsalt})) if 0 <= x <= maxsalt]:
            pp = pss_params(hm, mgf, salt)
            pad = "EMSA4(%s,MGF1,%d)" % (bn, salt)
            sig_roundtrip(cell, p, s, ref, "%s-rsa-pss-salt%s|%s" % (hn, "0" if salt == 0 else ("hlen" if salt == hl else "max"), keyname),
                          lambda: "C_SignInit s=%d mech=%s k=%d" % (s, mech(m2, pp), hp), lambda: "C_VerifyInit s=%d mech=%s k=%d" % (s, mech(m2, pp), hu),
                          rsign(pad), rverify(pad), [33, 0, 200], False, True, 2, tamper=(hn == "sha256" and salt == hl))
            # raw PSS: the caller supplies the hash
            rawpad = "EMSA4_Raw(%s,MGF1,%d)" % (bn, salt)
            hv = hashlib.new(hn, msg(33, 21)).digest()
            rvs, sg = single(p, s, "Sign", "C_SignInit s=%d mech=%s k=%d" % (s, mech(C.CKM_RSA_PKCS_PSS, pp), hp), hv, 600)
            cell.count("cells")
            if rvs != [0, 0]:
                cell.V("C10|rsa-pss-raw-%s|%s|sign-refused" % (hn, keyname), {"rv": rvs})
            elif not rverify(pad)(msg(33, 21), sg):
                cell.V("C10|rsa-pss-raw-%s|%s|token-signature-rejected-by-reference" % (hn, keyname), {})
            else:
                cell.count("signatures_verified_by_reference")
                rs_ = rsign(pad)(msg(33, 21))
                rvs, _ = single(p, s, "Verify", "C_VerifyInit s=%d mech=%s k=%d" % (s, mech(C.CKM_RSA_PKCS_PSS, pp), hu), hv, 0, sig=rs_)
                if rvs != [0, 0]:
                    cell.V("C10|rsa-pss-raw-%s|%s|reference-signature-rejected-by-token" % (hn, keyname), {"rv": rvs})
    # encryption: PKCS#1 v1.5, OAEP (randomised: cross decrypt), X.509 raw (deterministic)
    for ename, em, pad, maxin in (("rsa-pkcs-enc", mech(C.CKM_RSA_PKCS), "EME-PKCS1-v1_5", klen - 11), ("rsa-oaep", mech(C.CKM_RSA_PKCS_OAEP, oaep_params()), "OAEP(SHA-1)", klen - 42)):
        for n in sorted({0, 1, 16, maxin}):
            data = msg(n, 31)
            rvs, ct = single(p, s, "Encrypt", "C_EncryptInit s=%d mech=%s k=%d" % (s, em, hu), data, 600)
            cell.count("cells")
            if rvs != [0, 0]:
                if n == 0:
                    continue
                cell.V("C10|%s|%s|encrypt-refused" % (ename, keyname), {"len": n, "rv": rvs})
                continue
            back = ref.try_out("PKDEC", pad=pad, **dict(ka, **{"in": ct}))
            if back != data:
                cell.V("C10|%s|%s|token-ciphertext-not-decryptable-by-reference" % (ename, keyname), {"len": n})
            else:
                cell.count("ciphertexts_decrypted_by_reference")
            rct = ref.try_out("PKENC", pad=pad, **dict(pub, **{"in": data}))
            if rct is not None:
                rvs, out = single(p, s, "Decrypt", "C_DecryptInit s=%d mech=%s k=%d" % (s, em, hp), rct, 600)
                if rvs != [0, 0] or out != data:
                    cell.V("C10|%s|%s|reference-ciphertext-not-decryptable-by-token" % (ename, keyname), {"len": n, "rv": rvs})
                else:
                    cell.count("reference_ciphertexts_decrypted_by_token")
    for n in (klen, klen - 1, 1):
        data = b"\x00" * (1 if n == klen else 0) + msg(n - (1 if n == klen else 0), 33)
        want = ref.try_out("RSARAW", n=ka["n"], e=ka["e"], **{"in": data})
        rvs, ct = single(p, s, "Encrypt", "C_EncryptInit s=%d mech=%s k=%d" % (s, mech(C.CKM_RSA_X_509), hu), data, 600)
        cell.count("cells")
        if rvs == [0, 0] and want is not None and ct != want:
            cell.V("C10|rsa-x509|%s|raw-encryption-differs-from-reference" % keyname, {"len": n})
        elif rvs == [0, 0]:
            cell.count("outputs_equal_reference")
            rvs, out = single(p, s, "Decrypt", "C_DecryptInit s=%d mech=%s k=%d" % (s, mech(C.CKM_RSA_X_509), hp), want, 600)
            if rvs != [0, 0] or out.lstrip(b"\0") != data.lstrip(b"\0"):
                cell.V("C10|rsa-x509|%s|raw-decryption-wrong" % keyname, {"len": n, "rv": rvs})


def task_dsa_ec(cell, p, s, ref, which, quick, maxparts):
    if which == "dsa":
        k = F.KEYS["dsa1024"]
        priv = dict(type="dsa", p=F.H(k["p"]), q=F.H(k["q"]), g=F.H(k["g"]), x=F.H(k["x"]))
        pub = dict(type="dsa", p=F.H(k["p"]), q=F.H(k["q"]), g=F.H(k["g"]), y=F.H(k["y"]))
        hp, hu = mk(p, s, "dsa_priv", [(C.CKA_SIGN, True)]), mk(p, s, "dsa_pub", [(C.CKA_VERIFY, True)])
        mechs = [("dsa-raw", C.CKM_DSA, "Raw", [20], False)] + [("dsa-%s" % hn, getattr(C, "CKM_DSA_" + hn.upper()), "EMSA1(%s)" % bn, [17, 0, 200], True)
                                                              for hn, bn in (("sha1", "SHA-1"), ("sha256", "SHA-256")) + (() if quick else (("sha224", "SHA-224"), ("sha384", "SHA-384"), ("sha512", "SHA-512")))]
    elif which.startswith("ec"):
        k = F.KEYS[which]
        curve = {"ec256": "secp256r1", "ec384": "secp384r1", "ec521": "secp521r1"}[which]
        priv = dict(type="ecdsa", curve=curve, x=F.H(k["value"]))
        pub = dict(type="ecdsa", curve=curve, point=F.H(k["rawpoint"]))
        hp, hu = mk(p, s, which + "_priv", [(C.CKA_SIGN, True)]), mk(p, s, which + "_pub", [(C.CKA_VERIFY, True)])
        hl = {"ec256": 32, "ec384": 48, "ec521": 64}[which]
        mechs = [("ecdsa-%s" % which, C.CKM_ECDSA, "Raw", [hl, 20], False)]
    else:
        k = F.KEYS["ed25519"]
        priv = dict(type="ed25519", x=F.H(k["value"]) + F.H(k["rawpoint"]))
        pub = dict(type="ed25519", point=F.H(k["rawpoint"]))
        hp, hu = mk(p, s, "ed25519_priv", [(C.CKA_SIGN, True)]), mk(p, s, "ed25519_pub", [(C.CKA_VERIFY, True)])
        mechs = [("eddsa-ed25519", C.CKM_EDDSA, "Pure", [33, 0, 1, 200], False)]
    for vt, mm, pad, lens, multi in mechs:
        det = which == "ed25519"

        def refsign(d, pad=pad):
            return ref.try_out("SIGN", pad=pad, **dict(priv, **{"in": d}))

        def refverify(d, sg, pad=pad):
            r = ref.call("VERIFY", pad=pad, sig=sg, **dict(pub, **{"in": d}))
            return bool(r.get("ok") and r.get("valid"))
        sig_roundtrip(cell, p, s, ref, vt, lambda mm=mm: "C_SignInit s=%d mech=%s k=%d" % (s, mech(mm), hp), lambda mm=mm: "C_VerifyInit s=%d mech=%s k=%d" % (s, mech(mm), hu),
                      refsign, refverify, lens, det, multi, maxparts)


def task_derive(cell, p, s, ref, which):
    """shared secrets against the reference, with an ordinary peer and with a peer whose secret has a LEADING ZERO byte"""
    T = [(C.CKA_CLASS, C.CKO_SECRET_KEY), (C.CKA_KEY_TYPE, C.CKK_GENERIC_SECRET), (C.CKA_TOKEN, False), (C.CKA_PRIVATE, False), (C.CKA_SENSITIVE, False), (C.CKA_EXTRACTABLE, True)]
    peers = [("ordinary", "peer")] + ([("leading-zero", "peer_lz")] if which != "x25519" else [])
    for pname, suffix in peers:
        if which == "dh":
            k, peer = F.KEYS["dh1024"], F.KEYS["dh1024" + suffix]
            hp = mk(p, s, "dh_priv", [(C.CKA_DERIVE, True)])
            r_mech, r_tpl = mech(C.CKM_DH_PKCS_DERIVE, F.H(peer["y"])), T + [(C.CKA_VALUE_LEN, 128)]
            r = p.DeriveKey(s, r_mech, hp, r_tpl)
            want = ref.try_out("AGREE", type="dh", p=F.H(k["p"]), g=F.H(k["g"]), x=F.H(k["x"]), peer=F.H(peer["y"]))
            want = want.rjust(128, b"\0") if want is not None else None
            pure = pow(int(peer["y"], 16), int(k["x"], 16), int(k["p"], 16)).to_bytes(128, "big")
        elif which.startswith("ec"):
            k, peer = F.KEYS[which], F.KEYS[which + suffix]
            curve = {"ec256": "secp256r1", "ec384": "secp384r1", "ec521": "secp521r1"}[which]
            hp = mk(p, s, which + "_priv", [(C.CKA_DERIVE, True)])
            flen = {"ec256": 32, "ec384": 48, "ec521": 66}[which]
            r_mech, r_tpl = mech(C.CKM_ECDH1_DERIVE, ecdh_params(F.H(peer["rawpoint"]))), T + [(C.CKA_VALUE_LEN, flen)]
            r = p.DeriveKey(s, r_mech, hp, r_tpl)
            want = ref.try_out("AGREE", type="ecdh", curve=curve, x=F.H(k["value"]), peer=F.H(peer["rawpoint"]))
            pure = F.H(peer["shared_x"]) if "shared_x" in peer else None
        else:
            k, peer = F.KEYS["x25519"], F.KEYS["x25519peer"]
            hp = mk(p, s, "x25519_priv", [(C.CKA_DERIVE, True)])
            r_mech, r_tpl = mech(C.CKM_ECDH1_DERIVE, ecdh_params(F.H(peer["rawpoint"]))), T + [(C.CKA_VALUE_LEN, 32)]
            r = p.DeriveKey(s, r_mech, hp, r_tpl)
            want = ref.try_out("AGREE", type="x25519", x=F.H(k["value"]), peer=F.H(peer["rawpoint"]))
            pure = None
        cell.count("cells")
        if pure is not None and want is not None and pure != want:
            raise RuntimeError("reference implementations disagree on %s/%s" % (which, pname))
        if r["rv"] != 0:
            cell.V("C10|derive-%s|%s-peer|refused" % (which, pname), {"rv": r["rv"]})
            continue
        rv, val = p.get_attr(s, r["h"], C.CKA_VALUE)
        if want is None:
            cell.count("reference_unavailable")
        elif val != want:
            cell.V("C10|derive-%s|%s-peer|shared-secret-differs-from-reference" % (which, pname), {"token": val, "reference": want})
        else:
            cell.count("outputs_equal_reference")
        # a shorter key than the shared secret: PKCS#11 cuts the secret to the requested length by removing bytes from the LEADING end
        if want is not None and len(want) > 16:
            T16 = [x for x in r_tpl if x[0] != C.CKA_VALUE_LEN] + [(C.CKA_VALUE_LEN, 16)]
            r16 = p.DeriveKey(s, r_mech, hp, T16)
            cell.count("cells")
            if r16["rv"] != 0:
                cell.V("C10|derive-%s|%s-peer|short-key-refused" % (which, pname), {"rv": r16["rv"]})
            else:
                rv16, val16 = p.get_attr(s, r16["h"], C.CKA_VALUE)
                if val16 != want[-16:]:
                    cell.V("C10|derive-%s|%s-peer|short-key-is-not-the-trailing-bytes-of-the-shared-secret" % (which, pname), {"token": val16, "reference_secret": want})
                else:
                    cell.count("outputs_equal_reference")


def _task(task):
    ctx, check = core._W["ctx"], core._W["check"]
    ctx.counters = {}
    cell = Cell(ctx, task)
    out = {"viol": [], "harness": None, "counters": None, "samples": []}
    sh, p = ctx.sh, ctx.p
    ref = Ref()
    try:
        sh.snap(copy=False)
        try:
            s = core._W["model0"]["s"]
            kind = task[0]
            quick = task[-1]
            mp = 2 if quick else 3
            if kind == "cipher":
                task_cipher(cell, p, s, ref, task[1], task[2], mp, (2 if quick else 3) * (16 if task[1].startswith("aes") else 8) + 1, quick)
            elif kind == "digest":
                task_digest(cell, p, s, ref, task[1], mp, quick)
            elif kind == "mac":
                task_mac(cell, p, s, ref, task[1], task[2], mp, quick)
            elif kind == "rsa":
                task_rsa(cell, p, s, ref, task[1], quick, mp)
            elif kind == "sig":
                task_dsa_ec(cell, p, s, ref, task[1], quick, mp)
            elif kind == "derive":
                task_derive(cell, p, s, ref, task[1])
            out["samples"].append({"task": list(task), "cells": ctx.counters.get("cells", 0), "multipart_runs": ctx.counters.get("multipart_runs", 0), "tamper_cases": ctx.counters.get("tamper_cases", 0)})
        finally:
            sh.unwind(0)
    except Died as d:
        sig = "C10|died|%r|%s" % (d.info, task[:3])
        cell.viol[sig] = {"signature": sig, "detail": {"during": (d.during or "")[:300]}, "task": list(task), "history": [], "action": None}
        if d.info.get("eof"):
            core._fresh_shell()
    except Exception:
        out["harness"] = "task %r: %s" % (task, traceback.format_exc())
        try:
            core._fresh_shell()
        except Exception:
            pass
    finally:
        ref.close()
    out["counters"] = ctx.counters
    out["viol"] = list(cell.viol.values())
    return out


def _task_fresh(task):
    core._fresh_shell()
    return _task(task)


def task_list(quick):
    t = []
    for name in ("aes-ecb", "aes-cbc", "aes-cbc-pad", "aes-ctr", "aes-gcm"):
        for kl in ((16, 32) if quick and name not in ("aes-cbc-pad",) else (16, 24, 32)):
            t.append(("cipher", name, kl, quick))
    for name in ("des3-ecb", "des3-cbc", "des3-cbc-pad"):
        for kl in ((24,) if quick else (24, 16)):
            t.append(("cipher", name, kl, quick))
    for hn in sorted(HASHES):
        t.append(("digest", hn, quick))
        for ks in ((64,) if quick else (1, 20, 32, 64, 129)):
            t.append(("mac", "hmac-" + hn, ks, quick))
    for ks in ((16,) if quick else (16, 24, 32)):
        t.append(("mac", "cmac-aes", ks, quick))
    t.append(("mac", "cmac-des3", 24, quick))
    if not quick:
        t.append(("mac", "cmac-des3", 16, quick))
    t.append(("rsa", "rsa1024", quick))
    if not quick:
        t.append(("rsa", "rsa2048", quick))
    for w in ("dsa", "ec256", "ec384", "ec521", "ed25519"):
        t.append(("sig", w, quick))
    for w in ("dh", "ec256", "ec384", "ec521", "x25519"):
        t.append(("derive", w, quick))
    return t


VARIANTS = (["ossl-asan", "botan-plain"], ["ossl-plain", "ossl-asan", "botan-plain"])


def main(tier):
    rep = Report("C10", tier, "exploration")
    quick = tier == "quick"
    variant = "ossl-asan" if quick else "ossl-plain"
    cnt, samples = {}, []
    run_lane(rep, variant, quick, cnt, samples, "")
    # the same grid on the library built with the Botan backend (same references; a second, independently written implementation of every mechanism)
    cnt_b = {}
    run_lane(rep, "botan-plain", quick, cnt_b, [], "botan|")
    finish(rep, quick, variant, cnt, samples, cnt_b)
    return rep.finish()


def run_lane(rep, variant, quick, cnt, samples, tag):
    ex = Explorer(C10(), variant=variant)
    try:
        tasks = task_list(quick)
        found = {}
        for r in ex.pool.imap_unordered(_task, tasks):
            if r["harness"]:
                rep.harness_errors.append(r["harness"])
            for k, v in (r["counters"] or {}).items():
                cnt[k] = cnt.get(k, 0) + v
            for v in r["viol"]:
                if tag and v["signature"].split("|")[-2].endswith("-refused"):
                    # the second backend may support a narrower parameter range (Botan's GCM has no 32-bit tags): a refusal is not a wrong result
                    cnt["refusals_not_judged"] = cnt.get("refusals_not_judged", 0) + 1
                    continue
                found.setdefault(v["signature"], v)
            samples += r["samples"][:1]
        todo = sorted(found.items())
        by_task = {}
        for sig, v in todo:
            by_task.setdefault(tuple(v["task"]), []).append(sig)
        tl = sorted(by_task)
        res = ex.pool.map(_task_fresh, tl, chunksize=1)
        for t, r in zip(tl, res):
            seen = {x["signature"] for x in r["viol"]}
            for sig in by_task[t]:
                if sig in seen:
                    v = dict(found[sig]); v.update(variant=variant, store="file", replay_module="c10_crypto")
                    if tag:
                        v["signature"] = v["signature"].replace("C10|", "C10|" + tag, 1)
                    rep.add_violation(v)
                else:
                    rep.harness_errors.append("violation %s did not reproduce" % sig)
    finally:
        ex.close()


def finish(rep, quick, variant, cnt, samples, cnt_b):
    nontrivial = cnt.get("outputs_equal_reference", 0) + cnt.get("signatures_verified_by_reference", 0) + cnt.get("reference_signatures_verified_by_token", 0) + cnt.get("ciphertexts_decrypted_by_reference", 0)
    if nontrivial < 100 or not cnt.get("tamper_cases") or not cnt.get("multipart_runs"):
        rep.harness_errors.append("vacuous: %r" % cnt)
    rep.coverage = {"evaluations": cnt.get("cells", 0) + cnt.get("multipart_runs", 0) + cnt.get("tamper_cases", 0), "distinct_nontrivial": nontrivial,
                    "samples": samples[:8], "exhaustive": True, "variant": variant, "outcome_counters": cnt, "tasks": len(task_list(quick)), "botan_lane": cnt_b,
                    "rule": "evaluations = single-part cells + multi-part runs (every composition into <= %d parts, both directions) + tamper cases (every single bit); "
                            "non-trivial = cells in which token output and reference output were both produced and compared (equality, or cross verification / "
                            "cross decryption for randomised schemes)" % (2 if quick else 3)}
    rep.assumptions = ["reference: Botan 2.19 (refsh) for ciphers, CMAC, RSA/DSA/ECDSA/Ed25519/DH/ECDH/X25519, hashlib/hmac for digests and HMAC; CTR with arbitrary counter width is "
                       "built on Botan single-block encryption", "key and message VALUES are fixed patterns; single DES and Ed448/X448 are not covered (no usable reference / legacy provider)",
                       "second lane: the same grid on the Botan-backed build (a mechanism that build refuses at Init is counted, not judged)"]


def replay(rec):
    import shutil, sys
    from p11mc import p11 as P
    sys.path.insert(0, P.VERIF + "/tools")
    import build_sut
    build_sut.build(rec["variant"]); build_sut.build_ref()
    check = C10()
    root = P.scratch_root()
    try:
        template = core.build_template(check, rec["variant"], "file", root)
        core._worker_init(check, rec["variant"], "file", template, root)
        r = _task(tuple(rec["task"]))
        core._W["ctx"].stop_shell()
        sigs = [v["signature"] for v in r["viol"]]
        print("task:", rec["task"], "\nrecorded:", rec["signature"], "\nobserved:", sigs[:10])
        if rec["signature"] in sigs:
            print("VIOLATION property=C10 replay=%s" % sys.argv[1])
            return 1
        return 0
    finally:
        shutil.rmtree(root, ignore_errors=True)
