"""C09 - a call that fails has no effect on objects (DESIGN.md 3/C09).

For every object-management / generate / unwrap / derive call a valid invocation is taken and EVERY single-point breakage
of it is enumerated (bad entry inserted at the first / middle / last template position, every mandatory entry dropped,
wrong session state, bad mechanism parameters, every truncation and every single-byte corruption of valid wrapped blobs,
stale and foreign handles).  Each case runs in its own process snapshot from a populated start state; whenever the call
returns an error, the complete observation - what every session finds with all attribute values, validity of every known
handle, and the raw token directory (file names, modes, contents without generation counters) - must equal the
observation taken before the call.  No expected error codes are written down anywhere.
"""
import copy, os, time, traceback
from p11mc import consts as C
from p11mc.core import CheckBase, Explorer, Violation, Died
from p11mc import core
from p11mc.runner import Report
from p11mc import world as W, fixtures as F, snapshot as S
from p11mc.p11 import Out, Null, tpl, mech, blob, ul, keyderiv_string, ecdh_params, oaep_params, cbc_encrypt_data_params

SEC_USAGE = [(a, True) for a in (C.CKA_ENCRYPT, C.CKA_DECRYPT, C.CKA_SIGN, C.CKA_VERIFY, C.CKA_WRAP, C.CKA_UNWRAP, C.CKA_DERIVE)]
IV16 = bytes(range(16))


VARIANTS = (["ossl-asan", "ossl-plain"], ["ossl-plain", "ossl-asan"])      # the fs-fault clause runs the un-instrumented build under fsx


class C09(CheckBase):
    ID = "C09"

    def __init__(self, full=False, store="file"):
        self.kw = dict(full=full, store=store)
        self.full = full

    def world(self, ctx):
        return W.two_tokens(ctx)

    def setup(self, ctx, world):
        W.ok(ctx.p.Initialize(), "init")
        return None

    # ---- start states
    def build_start(self, ctx, which):
        p = ctx.p
        slots = ctx.world["slots"]
        H = {}
        H["s0"] = W.ok(p.OpenSession(slots["A"]), "open")["h"]
        H["s1"] = W.ok(p.OpenSession(slots["A"]), "open")["h"]
        H["s2"] = W.ok(p.OpenSession(slots["A"], W.RO), "open")["h"]
        H["sb"] = W.ok(p.OpenSession(slots["B"]), "open")["h"]
        W.ok(p.Login(H["s0"], C.CKU_USER, W.USER_A), "login")
        W.ok(p.Login(H["sb"], C.CKU_USER, W.USER_B), "login")
        s0 = H["s0"]

        def mk(name, kind, token, private, extra=()):
            H[name] = W.ok(p.CreateObject(s0, F.template(kind, token=token, private=private, ident=name.encode(), label=name.encode(), extra=list(extra))), name)["h"]
        mk("aes_tok_pub", "aes128", 1, 0, SEC_USAGE)
        mk("aes_tok_prv", "aes128", 1, 1, SEC_USAGE)
        mk("aes_ses_pub", "aes128", 0, 0, SEC_USAGE)
        mk("gen_ses_prv", "generic32", 0, 1, [(C.CKA_DERIVE, True), (C.CKA_SIGN, True)])
        mk("rsa_pub_tok", "rsa1024_pub", 1, 0, [(C.CKA_WRAP, True), (C.CKA_ENCRYPT, True)])
        mk("rsa_priv_tok", "rsa1024_priv", 1, 1, [(C.CKA_UNWRAP, True), (C.CKA_DECRYPT, True), (C.CKA_SIGN, True)])
        mk("ec_priv_ses", "ec256_priv", 0, 1, [(C.CKA_DERIVE, True), (C.CKA_SIGN, True)])
        mk("data_tok_pub", "data", 1, 0)
        mk("kek", "aes256", 0, 0, SEC_USAGE)
        mk("aes_nodestroy", "aes128", 0, 0, [(C.CKA_DESTROYABLE, False)])
        mk("aes_nomodify", "aes128", 1, 0, [(C.CKA_MODIFIABLE, False)])
        mk("aes_nocopy", "aes128", 0, 0, [(C.CKA_COPYABLE, False)])
        H["b_aes"] = W.ok(p.CreateObject(H["sb"], F.template("aes128", token=1, private=0, label=b"b_aes")), "b_aes")["h"]
        # blobs
        r = W.ok(p.WrapKey(s0, mech(C.CKM_AES_KEY_WRAP), H["kek"], H["aes_ses_pub"], Out(64)), "wrap aes")
        H["blob_aes"] = bytes.fromhex(r["out"])[:r["len"]]
        r = W.ok(p.WrapKey(s0, mech(C.CKM_AES_CBC_PAD, IV16), H["kek"], H["ec_priv_ses"], Out(400)), "wrap ec")
        H["blob_ec"] = bytes.fromhex(r["out"])[:r["len"]]
        r = W.ok(p.WrapKey(s0, mech(C.CKM_RSA_PKCS), H["rsa_pub_tok"], H["aes_ses_pub"], Out(128)), "wrap rsa")
        H["blob_rsa"] = bytes.fromhex(r["out"])[:r["len"]]
        # a destroyed handle and a private handle that is dead in the 'public' start state
        t = W.ok(p.CreateObject(s0, F.template("data", token=0, private=0, label=b"tmp")), "tmp")["h"]
        W.ok(p.DestroyObject(s0, t), "destroy tmp")
        H["stale"] = t
        if which == "public":
            W.ok(p.Logout(s0), "logout")
        elif which == "so":
            W.ok(p.Logout(s0), "logout")
            W.ok(p.CloseSession(H["s2"]), "close ro")
            W.ok(p.Login(s0, C.CKU_SO, W.SO_A), "login so")
            H["s2"] = H["s1"]
        return H

    # ---- breakages of a template
    BAD = [("unknown-attr", (0x80001234, b"zz")), ("readonly-LOCAL", (C.CKA_LOCAL, True)), ("readonly-ALWAYS_SENSITIVE", (C.CKA_ALWAYS_SENSITIVE, True)),
           ("badsize-bool", (C.CKA_COPYABLE, ul(1))), ("null-value", (C.CKA_LABEL, Null(8))), ("foreign-attr-MODULUS_BITS", (C.CKA_MODULUS_BITS, 1024)),
           ("bad-check-value", (C.CKA_CHECK_VALUE, b"\x00\x01\x02")), ("class-mismatch", (C.CKA_CLASS, C.CKO_HW_FEATURE)),
           ("badsize-ulong", (C.CKA_KEY_TYPE, b"\x1f")), ("trusted-by-user", (C.CKA_TRUSTED, True))]

    LOCK = [(C.CKA_DESTROYABLE, False), (C.CKA_MODIFIABLE, False), (C.CKA_COPYABLE, False)]

    def breakages(self, T, drops=True, lock=False):
        """single-point breakages of template T; lock=True: the same for T with the object locked down (not destroyable / modifiable / copyable),
        so that a clean-up path that goes through the API's own permission checks is exercised too"""
        if lock:
            return [(n + "+locked", T2) for n, T2 in self.breakages(T + self.LOCK, drops)]
        out = []
        n = len(T)
        for pos_name, pos in (("first", 0), ("middle", n // 2), ("last", n)):
            for name, ent in self.BAD:
                out.append(("%s@%s" % (name, pos_name), T[:pos] + [ent] + T[pos:]))
        if drops:
            for i, (t, v) in enumerate(T):
                out.append(("drop-%s" % C.CKA_NAMES.get(t, hex(t)), T[:i] + T[i + 1:]))
        out.append(("oversize-64-entries", T + [(C.CKA_LABEL, b"x%d" % i) for i in range(64)]))
        # every byte-string entry named TWICE (another value first) before the entry that is rejected: an undo log that keeps one saved value per attribute
        # must restore the value from before the call, not the intermediate one
        twice = [(t, v + b"-first-value") for t, v in T if isinstance(v, bytes) and t in (C.CKA_LABEL, C.CKA_ID, C.CKA_APPLICATION)]
        if twice:
            for name, ent in self.BAD[:3] + self.BAD[-3:]:
                out.append(("repeated-entries+%s@last" % name, twice + T + [ent]))
                out.append(("repeated-entries+%s@middle" % name, twice + T[:1] + twice + [ent] + T[1:]))
        return out

    # ---- the case list: (call, target description, breakage, request line)
    def cases(self, H, which):
        s0, s1, s2 = H["s0"], H["s1"], H["s2"]
        cs = []
        full = self.full
        kinds = F.NINE if full else ["data", "aes128", "rsa1024_priv", "ec256_pub", "cert"]
        combos = [(1, 0), (1, 1), (0, 0), (0, 1)]
        # C_CreateObject
        for kind in kinds:
            for token, private in combos:
                T = F.template(kind, token=token, private=private, ident=b"new", label=b"new-object")
                tgt = "%s|%s|%s" % (kind, "token" if token else "session", "private" if private else "public")
                for bname, T2 in self.breakages(T) + self.breakages(T, lock=True):
                    cs.append(("C_CreateObject", tgt, bname, "C_CreateObject s=%d tpl=%s" % (s0, tpl(T2))))
                cs.append(("C_CreateObject", tgt, "ro-session" if token else "ro-session-ok", "C_CreateObject s=%d tpl=%s" % (s2, tpl(T))))
        # C_CopyObject
        for src in ("aes_tok_pub", "aes_ses_pub", "aes_tok_prv", "data_tok_pub", "rsa_priv_tok", "gen_ses_prv"):
            for token in (0, 1):
                T = [(C.CKA_LABEL, b"copied"), (C.CKA_TOKEN, bool(token))]
                for bname, T2 in self.breakages(T):
                    cs.append(("C_CopyObject", "%s->%s" % (src, "token" if token else "session"), bname, "C_CopyObject s=%d o=%d tpl=%s" % (s0, H[src], tpl(T2))))
            cs.append(("C_CopyObject", src, "private-to-public", "C_CopyObject s=%d o=%d tpl=%s" % (s0, H[src], tpl([(C.CKA_PRIVATE, False), (C.CKA_LABEL, b"copied")]))))
            cs.append(("C_CopyObject", src, "ro-session-token-copy", "C_CopyObject s=%d o=%d tpl=%s" % (s2, H[src], tpl([(C.CKA_TOKEN, True)]))))
            cs.append(("C_CopyObject", src, "sensitive-downgrade", "C_CopyObject s=%d o=%d tpl=%s" % (s0, H[src], tpl([(C.CKA_LABEL, b"copied"), (C.CKA_SENSITIVE, True), (C.CKA_EXTRACTABLE, True), (C.CKA_VALUE, b"0123456789abcdef")]))))
        for hname in ("stale", "s1", "aes_nocopy"):
            cs.append(("C_CopyObject", hname, "bad-source-handle", "C_CopyObject s=%d o=%d tpl=%s" % (s0, H[hname], tpl([(C.CKA_LABEL, b"copied")]))))
        # C_SetAttributeValue
        for obj in ("aes_tok_pub", "aes_ses_pub", "aes_tok_prv", "gen_ses_prv", "data_tok_pub", "rsa_priv_tok", "rsa_pub_tok", "ec_priv_ses"):
            T = [(C.CKA_LABEL, b"changed-label"), (C.CKA_ID, b"changed-id")] if obj != "data_tok_pub" else [(C.CKA_LABEL, b"changed-label"), (C.CKA_APPLICATION, b"changed-app")]
            if obj.startswith(("aes", "gen")):
                T.append((C.CKA_DERIVE, False))
            for bname, T2 in self.breakages(T, drops=False):
                cs.append(("C_SetAttributeValue", obj, bname, "C_SetAttributeValue s=%d o=%d tpl=%s" % (s0, H[obj], tpl(T2))))
                cs.append(("C_SetAttributeValue", obj + "|via-second-session", bname, "C_SetAttributeValue s=%d o=%d tpl=%s" % (s1, H[obj], tpl(T2))))
            for extra_name, ent in (("value-readonly", (C.CKA_VALUE, b"0123456789abcdef")), ("sensitive-off", (C.CKA_SENSITIVE, False) if False else (C.CKA_EXTRACTABLE, True)),
                                    ("token-flip", (C.CKA_TOKEN, obj.find("ses") >= 0)), ("private-flip", (C.CKA_PRIVATE, obj.find("prv") < 0 and obj.find("priv") < 0))):
                for pos_name, pos in (("first", 0), ("last", len(T))):
                    T2 = T[:pos] + [ent] + T[pos:]
                    cs.append(("C_SetAttributeValue", obj, "%s@%s" % (extra_name, pos_name), "C_SetAttributeValue s=%d o=%d tpl=%s" % (s0, H[obj], tpl(T2))))
            cs.append(("C_SetAttributeValue", obj, "ro-session", "C_SetAttributeValue s=%d o=%d tpl=%s" % (s2, H[obj], tpl(T))))
        cs.append(("C_SetAttributeValue", "aes_nomodify", "not-modifiable", "C_SetAttributeValue s=%d o=%d tpl=%s" % (s0, H["aes_nomodify"], tpl([(C.CKA_LABEL, b"changed-label")]))))
        cs.append(("C_SetAttributeValue", "stale", "stale-handle", "C_SetAttributeValue s=%d o=%d tpl=%s" % (s0, H["stale"], tpl([(C.CKA_LABEL, b"changed-label")]))))
        # C_DestroyObject
        for obj in ("aes_tok_pub", "aes_tok_prv", "data_tok_pub", "rsa_priv_tok"):
            cs.append(("C_DestroyObject", obj, "ro-session", "C_DestroyObject s=%d o=%d" % (s2, H[obj])))
        for hname in ("stale", "s1", "aes_nodestroy"):
            cs.append(("C_DestroyObject", hname, "bad-handle-or-not-destroyable", "C_DestroyObject s=%d o=%d" % (s0, H[hname])))
        cs.append(("C_DestroyObject", "aes_tok_pub", "closed-session", "C_DestroyObject s=%d o=%d" % (987654, H["aes_tok_pub"])))
        # C_GenerateKey
        gens = [("aes", C.CKM_AES_KEY_GEN, [(C.CKA_CLASS, C.CKO_SECRET_KEY), (C.CKA_KEY_TYPE, C.CKK_AES), (C.CKA_VALUE_LEN, 16)]),
                ("des3", C.CKM_DES3_KEY_GEN, [(C.CKA_CLASS, C.CKO_SECRET_KEY), (C.CKA_KEY_TYPE, C.CKK_DES3)]),
                ("generic", C.CKM_GENERIC_SECRET_KEY_GEN, [(C.CKA_CLASS, C.CKO_SECRET_KEY), (C.CKA_KEY_TYPE, C.CKK_GENERIC_SECRET), (C.CKA_VALUE_LEN, 20)])]
        for gname, gm, base in (gens if full else gens[:2]):
            for token, private in combos:
                T = base + [(C.CKA_TOKEN, bool(token)), (C.CKA_PRIVATE, bool(private)), (C.CKA_LABEL, b"generated"), (C.CKA_ENCRYPT, True)]
                tgt = "%s|%s|%s" % (gname, "token" if token else "session", "private" if private else "public")
                for bname, T2 in self.breakages(T) + self.breakages(T, lock=True):
                    cs.append(("C_GenerateKey", tgt, bname, "C_GenerateKey s=%d mech=%s tpl=%s" % (s0, mech(gm), tpl(T2))))
                cs.append(("C_GenerateKey", tgt, "bad-value-len", "C_GenerateKey s=%d mech=%s tpl=%s" % (s0, mech(gm), tpl([x if x[0] != C.CKA_VALUE_LEN else (C.CKA_VALUE_LEN, 17 if gname == "aes" else 0) for x in T] + [(C.CKA_VALUE_LEN, 4000)] * (gname == "des3")))))
                cs.append(("C_GenerateKey", tgt, "mech-param-unexpected", "C_GenerateKey s=%d mech=%s tpl=%s" % (s0, mech(gm, b"\x00" * 5), tpl(T))))
                cs.append(("C_GenerateKey", tgt, "wrong-keytype-for-mech", "C_GenerateKey s=%d mech=%s tpl=%s" % (s0, mech(C.CKM_DES_KEY_GEN if gname == "aes" else C.CKM_AES_KEY_GEN), tpl(T))))
                cs.append(("C_GenerateKey", tgt, "ro-session" if token else "ro-session-ok", "C_GenerateKey s=%d mech=%s tpl=%s" % (s2, mech(gm), tpl(T))))
        # C_GenerateKeyPair (EC: cheap)
        ecp = F.H(F.KEYS["ec256"]["params"])
        for token, private in combos:
            PUB = [(C.CKA_EC_PARAMS, ecp), (C.CKA_TOKEN, bool(token)), (C.CKA_VERIFY, True), (C.CKA_LABEL, b"gen-pub")]
            PRV = [(C.CKA_TOKEN, bool(token)), (C.CKA_PRIVATE, bool(private)), (C.CKA_SIGN, True), (C.CKA_LABEL, b"gen-prv")]
            tgt = "ec|%s|%s" % ("token" if token else "session", "private" if private else "public")
            for bname, T2 in self.breakages(PUB):
                cs.append(("C_GenerateKeyPair", tgt, "pub:" + bname, "C_GenerateKeyPair s=%d mech=%s pub=%s priv=%s" % (s0, mech(C.CKM_EC_KEY_PAIR_GEN), tpl(T2), tpl(PRV))))
            for bname, T2 in self.breakages(PRV):
                cs.append(("C_GenerateKeyPair", tgt, "priv:" + bname, "C_GenerateKeyPair s=%d mech=%s pub=%s priv=%s" % (s0, mech(C.CKM_EC_KEY_PAIR_GEN), tpl(PUB), tpl(T2))))
            # both keys locked down: the half that was already built must still go away when the other template is rejected
            for bname, T2 in self.breakages(PUB, lock=True):
                cs.append(("C_GenerateKeyPair", tgt, "pub:" + bname, "C_GenerateKeyPair s=%d mech=%s pub=%s priv=%s" % (s0, mech(C.CKM_EC_KEY_PAIR_GEN), tpl(T2), tpl(PRV + self.LOCK))))
            for bname, T2 in self.breakages(PRV, lock=True):
                cs.append(("C_GenerateKeyPair", tgt, "priv:" + bname, "C_GenerateKeyPair s=%d mech=%s pub=%s priv=%s" % (s0, mech(C.CKM_EC_KEY_PAIR_GEN), tpl(PUB + self.LOCK), tpl(T2))))
            for nm, badparams in (("ec-params-garbage", b"\x06\x03\x01\x02\x03"), ("ec-params-empty", b""), ("ec-params-truncated", ecp[:-1])):
                cs.append(("C_GenerateKeyPair", tgt, nm, "C_GenerateKeyPair s=%d mech=%s pub=%s priv=%s" % (s0, mech(C.CKM_EC_KEY_PAIR_GEN), tpl([(C.CKA_EC_PARAMS, badparams)] + PUB[1:]), tpl(PRV))))
            cs.append(("C_GenerateKeyPair", tgt, "rsa-modulus-bits-too-small", "C_GenerateKeyPair s=%d mech=%s pub=%s priv=%s" % (
                s0, mech(C.CKM_RSA_PKCS_KEY_PAIR_GEN), tpl([(C.CKA_MODULUS_BITS, 64), (C.CKA_PUBLIC_EXPONENT, b"\x01\x00\x01"), (C.CKA_TOKEN, bool(token))]), tpl(PRV))))
            cs.append(("C_GenerateKeyPair", tgt, "rsa-even-exponent", "C_GenerateKeyPair s=%d mech=%s pub=%s priv=%s" % (
                s0, mech(C.CKM_RSA_PKCS_KEY_PAIR_GEN), tpl([(C.CKA_MODULUS_BITS, 1024), (C.CKA_PUBLIC_EXPONENT, b"\x02"), (C.CKA_TOKEN, bool(token))]), tpl(PRV))))
            cs.append(("C_GenerateKeyPair", tgt, "ro-session" if token else "ro-session-ok", "C_GenerateKeyPair s=%d mech=%s pub=%s priv=%s" % (s2, mech(C.CKM_EC_KEY_PAIR_GEN), tpl(PUB), tpl(PRV))))
        # C_UnwrapKey
        UA = [(C.CKA_CLASS, C.CKO_SECRET_KEY), (C.CKA_KEY_TYPE, C.CKK_AES), (C.CKA_LABEL, b"unwrapped"), (C.CKA_ENCRYPT, True)]
        UE = [(C.CKA_CLASS, C.CKO_PRIVATE_KEY), (C.CKA_KEY_TYPE, C.CKK_EC), (C.CKA_LABEL, b"unwrapped"), (C.CKA_SIGN, True)]
        unwraps = [("aes-key-wrap", mech(C.CKM_AES_KEY_WRAP), "kek", H["blob_aes"], UA), ("aes-cbc-pad-ec", mech(C.CKM_AES_CBC_PAD, IV16), "kek", H["blob_ec"], UE),
                   ("rsa-pkcs", mech(C.CKM_RSA_PKCS), "rsa_priv_tok", H["blob_rsa"], UA)]
        for uname, um, uk, ublob, UT in unwraps:
            for token, private in combos:
                T = UT + [(C.CKA_TOKEN, bool(token)), (C.CKA_PRIVATE, bool(private))]
                tgt = "%s|%s|%s" % (uname, "token" if token else "session", "private" if private else "public")
                for bname, T2 in self.breakages(T) + self.breakages(T, lock=True):
                    cs.append(("C_UnwrapKey", tgt, bname, "C_UnwrapKey s=%d mech=%s k=%d in=%s tpl=%s" % (s0, um, H[uk], blob(ublob), tpl(T2))))
                if uname == "aes-cbc-pad-ec":
                    for kt, ktn in ((C.CKK_RSA, "rsa"), (C.CKK_DSA, "dsa"), (C.CKK_DH, "dh"), (C.CKK_EC_EDWARDS, "ed")):
                        T2 = [x if x[0] != C.CKA_KEY_TYPE else (C.CKA_KEY_TYPE, kt) for x in T]
                        cs.append(("C_UnwrapKey", tgt, "declared-type-%s-for-ec-blob" % ktn, "C_UnwrapKey s=%d mech=%s k=%d in=%s tpl=%s" % (s0, um, H[uk], blob(ublob), tpl(T2))))
                if uname == "aes-key-wrap":
                    T2 = [x if x[0] not in (C.CKA_CLASS, C.CKA_KEY_TYPE) else ((C.CKA_CLASS, C.CKO_PRIVATE_KEY) if x[0] == C.CKA_CLASS else (C.CKA_KEY_TYPE, C.CKK_EC)) for x in T]
                    cs.append(("C_UnwrapKey", tgt, "raw-secret-declared-ec-private", "C_UnwrapKey s=%d mech=%s k=%d in=%s tpl=%s" % (s0, um, H[uk], blob(ublob), tpl(T2))))
                cs.append(("C_UnwrapKey", tgt, "ro-session" if token else "ro-session-ok", "C_UnwrapKey s=%d mech=%s k=%d in=%s tpl=%s" % (s2, um, H[uk], blob(ublob), tpl(T))))
                if (token, private) in ((1, 1), (0, 0)):
                    step = 1 if (full or len(ublob) <= 40) else 7
                    for n in range(0, len(ublob), step):
                        cs.append(("C_UnwrapKey", tgt, "blob-truncated", "C_UnwrapKey s=%d mech=%s k=%d in=%s tpl=%s" % (s0, um, H[uk], blob(ublob[:n]), tpl(T))))
                    for i in range(0, len(ublob), step):
                        mb = bytearray(ublob)
                        mb[i] ^= 0x41
                        cs.append(("C_UnwrapKey", tgt, "blob-byte-corrupted", "C_UnwrapKey s=%d mech=%s k=%d in=%s tpl=%s" % (s0, um, H[uk], blob(bytes(mb)), tpl(T))))
            T = UT + [(C.CKA_TOKEN, True), (C.CKA_PRIVATE, True)]
            cs.append(("C_UnwrapKey", uname, "short-iv", "C_UnwrapKey s=%d mech=%s k=%d in=%s tpl=%s" % (s0, mech(C.CKM_AES_CBC_PAD, IV16[:8]), H["kek"], blob(ublob), tpl(T))))
            cs.append(("C_UnwrapKey", uname, "oaep-wrong-hash", "C_UnwrapKey s=%d mech=%s k=%d in=%s tpl=%s" % (s0, mech(C.CKM_RSA_PKCS_OAEP, oaep_params(C.CKM_SHA256, C.CKG_MGF1_SHA256)), H["rsa_priv_tok"], blob(H["blob_rsa"]), tpl(T))))
            cs.append(("C_UnwrapKey", uname, "unwrapping-key-stale", "C_UnwrapKey s=%d mech=%s k=%d in=%s tpl=%s" % (s0, um, H["stale"], blob(ublob), tpl(T))))
            cs.append(("C_UnwrapKey", uname, "unwrapping-key-wrong-type", "C_UnwrapKey s=%d mech=%s k=%d in=%s tpl=%s" % (s0, um, H["data_tok_pub"], blob(ublob), tpl(T))))
        # C_DeriveKey
        DT = [(C.CKA_CLASS, C.CKO_SECRET_KEY), (C.CKA_KEY_TYPE, C.CKK_GENERIC_SECRET), (C.CKA_VALUE_LEN, 16), (C.CKA_LABEL, b"derived"), (C.CKA_SENSITIVE, False), (C.CKA_EXTRACTABLE, True)]
        derives = [("aes-ecb-encrypt-data", mech(C.CKM_AES_ECB_ENCRYPT_DATA, keyderiv_string(bytes(16))), "aes_ses_pub"),
                   ("aes-cbc-encrypt-data", mech(C.CKM_AES_CBC_ENCRYPT_DATA, cbc_encrypt_data_params(IV16, bytes(16))), "aes_tok_pub"),
                   ("ecdh", mech(C.CKM_ECDH1_DERIVE, ecdh_params(F.H(F.KEYS["ec256peer"]["rawpoint"]))), "ec_priv_ses"),
                   ("concat-base-data", mech(C.CKM_CONCATENATE_BASE_AND_DATA, keyderiv_string(b"12345678")), "gen_ses_prv"),
                   ("concat-base-key", mech(C.CKM_CONCATENATE_BASE_AND_KEY, ul(H["aes_ses_pub"])), "gen_ses_prv")]
        for dname, dm, dk in derives:
            for token, private in combos:
                T = DT + [(C.CKA_TOKEN, bool(token)), (C.CKA_PRIVATE, bool(private))]
                tgt = "%s|%s|%s" % (dname, "token" if token else "session", "private" if private else "public")
                for bname, T2 in self.breakages(T) + self.breakages(T, lock=True):
                    cs.append(("C_DeriveKey", tgt, bname, "C_DeriveKey s=%d mech=%s k=%d tpl=%s" % (s0, dm, H[dk], tpl(T2))))
                T2 = [x if x[0] != C.CKA_VALUE_LEN else (C.CKA_VALUE_LEN, 200) for x in T]
                cs.append(("C_DeriveKey", tgt, "value-len-longer-than-material", "C_DeriveKey s=%d mech=%s k=%d tpl=%s" % (s0, dm, H[dk], tpl(T2))))
                T3 = [x if x[0] != C.CKA_KEY_TYPE else (C.CKA_KEY_TYPE, C.CKK_AES) for x in T2]
                T3 = [x if x[0] != C.CKA_VALUE_LEN else (C.CKA_VALUE_LEN, 32) for x in T3]
                cs.append(("C_DeriveKey", tgt, "aes32-from-short-material", "C_DeriveKey s=%d mech=%s k=%d tpl=%s" % (s0, dm, H[dk], tpl(T3))))
                T4 = [x if x[0] != C.CKA_VALUE_LEN else (C.CKA_VALUE_LEN, 17) for x in T3]
                cs.append(("C_DeriveKey", tgt, "aes-bad-length-17", "C_DeriveKey s=%d mech=%s k=%d tpl=%s" % (s0, dm, H[dk], tpl(T4))))
                cs.append(("C_DeriveKey", tgt, "ro-session" if token else "ro-session-ok", "C_DeriveKey s=%d mech=%s k=%d tpl=%s" % (s2, dm, H[dk], tpl(T))))
            T = DT + [(C.CKA_TOKEN, True), (C.CKA_PRIVATE, True)]
            cs.append(("C_DeriveKey", dname, "base-key-stale", "C_DeriveKey s=%d mech=%s k=%d tpl=%s" % (s0, dm, H["stale"], tpl(T))))
            cs.append(("C_DeriveKey", dname, "base-key-wrong-type", "C_DeriveKey s=%d mech=%s k=%d tpl=%s" % (s0, dm, H["rsa_pub_tok"], tpl(T))))
        T = DT + [(C.CKA_TOKEN, True), (C.CKA_PRIVATE, False)]
        for nm, dm in (("encrypt-data-not-block-multiple", mech(C.CKM_AES_ECB_ENCRYPT_DATA, keyderiv_string(bytes(15)))),
                       ("encrypt-data-null-with-length", mech(C.CKM_AES_ECB_ENCRYPT_DATA, ("p", b"\0" * 8 + ul(16), []))),
                       ("ecdh-empty-public-data", mech(C.CKM_ECDH1_DERIVE, ecdh_params(b""))),
                       ("ecdh-garbage-public-data", mech(C.CKM_ECDH1_DERIVE, ecdh_params(b"\x04" + bytes(64)))),
                       ("ecdh-kdf-unsupported", mech(C.CKM_ECDH1_DERIVE, ecdh_params(F.H(F.KEYS["ec256peer"]["rawpoint"]), kdf=C.CKD_SHA1_KDF))),
                       ("concat-other-key-stale", mech(C.CKM_CONCATENATE_BASE_AND_KEY, ul(H["stale"]))),
                       ("mech-param-short", mech(C.CKM_AES_CBC_ENCRYPT_DATA, bytes(10)))):
            for dk in ("aes_ses_pub", "ec_priv_ses", "gen_ses_prv"):
                cs.append(("C_DeriveKey", dk, nm, "C_DeriveKey s=%d mech=%s k=%d tpl=%s" % (s0, dm, H[dk], tpl(T))))
        # the application's output variable holds the handle of a live object before every call that returns a handle (applications reuse such
        # variables): a failing call must neither read nor act on it
        creators = ("C_CreateObject", "C_CopyObject", "C_GenerateKey", "C_GenerateKeyPair", "C_UnwrapKey", "C_DeriveKey")
        cs = [(c, t, b, l + (" hinit=%d" % H["aes_tok_pub"] if c in creators else "")) for (c, t, b, l) in cs]
        return cs


TEMPLATE_FAMILY = ("unknown-attr", "readonly-", "badsize-", "null-value", "foreign-attr", "bad-check-value", "class-mismatch", "trusted-by-user", "drop-", "oversize")


def family(bname):
    """breakage family used in signatures: all template-content rejections are one family, everything else keeps its name"""
    b = bname.split(":")[-1]
    if b.startswith(TEMPLATE_FAMILY):
        return ("pub-" if bname.startswith("pub:") else "priv-" if bname.startswith("priv:") else "") + "template-rejected"
    return b.split("@")[0]


def location(tgt):
    parts = tgt.split("|")
    loc = [x for x in parts if x in ("token", "session")]
    if loc:
        return loc[0] + "-object"
    if "->token" in tgt or "->session" in tgt:
        return tgt.split("->")[1] + "-object"
    return ("token-object" if "tok" in tgt else "session-object" if "ses" in tgt else tgt)


def _task(task):
    which, ci, n = task
    ctx, check = core._W["ctx"], core._W["check"]
    ctx.counters = {}
    out = {"viol": [], "harness": None, "counters": None, "samples": []}
    sh, p = ctx.sh, ctx.p
    try:
        sh.snap()
        try:
            H = check.build_start(ctx, which)
            sessions = sorted({H["s0"], H["s1"], H["s2"], H["sb"]})
            known = sorted(v for k, v in H.items() if isinstance(v, int) and not k.startswith("s") or k == "stale")
            cases = check.cases(H, which)
            before_api = S.api_snapshot(p, sessions, known)
            root0 = os.path.join(sh.pwd(), "tokens")
            before_disk = S.disk_snapshot(root0)
            for idx, (call, tgt, bname, line) in enumerate(cases):
                if idx % n != ci:
                    continue
                d0 = sh.depth
                sh.snap()
                try:
                    r = p.call(line)
                    ctx.count("cases")
                    if r["rv"] == 0:
                        ctx.count("case_succeeded")
                        continue
                    ctx.count("case_failed")
                    ctx.count("rv_%s" % C.CKR_NAMES.get(r["rv"], hex(r["rv"])))
                    after_api = S.api_snapshot(p, sessions, known)
                    d = S.diff_api(before_api, after_api)
                    where = "api"
                    if d is None:
                        d = S.diff_disk(before_disk, S.disk_snapshot(os.path.join(sh.pwd(), "tokens")))
                        where = "disk"
                    import re as _re
                    preset = _re.search(r" hinit=(\d+)", line)
                    preset = int(preset.group(1)) if preset else 0
                    for k in ("h", "hpub", "hpriv"):
                        # the output variable may be left alone (still the preset value) or cleared; a NEW handle from a failed call is a residue
                        if d is None and r.get(k, 0) and r[k] != preset:
                            d = ("handle-returned-by-failed-call", {"handle": r[k]})
                    if d is not None:
                        sig = "C09|%s|%s|%s|residue=%s:%s" % (call, family(bname), location(tgt), where, d[0])
                        out["viol"].append({"signature": sig, "detail": {"line": line, "rv": r["rv"], "diff": d[1]}, "start": which, "case_index": idx,
                                            "history": [line], "action": None})
                    elif len(out["samples"]) < 2:
                        out["samples"].append({"start": which, "call": call, "target": tgt, "breakage": bname, "rv": C.CKR_NAMES.get(r["rv"], hex(r["rv"]))})
                except Died as d:
                    if d.info.get("eof"):
                        raise
                    out["viol"].append({"signature": "C09|%s|%s|%s|start=%s|died=%r" % (call, tgt, bname, which, d.info), "detail": {"line": line}, "start": which,
                                        "case_index": idx, "history": [line], "action": None})
                finally:
                    sh.unwind(d0)
        finally:
            sh.unwind(0)
    except Died as d:
        out["viol"].append({"signature": "C09|died-top|%r" % (d.info,), "detail": {"during": d.during}, "start": which, "case_index": -1, "history": [], "action": None})
        core._fresh_shell()
    except Exception:
        out["harness"] = traceback.format_exc()
        try:
            core._fresh_shell()
        except Exception:
            pass
    out["counters"] = ctx.counters
    return out


def _one_case(task):
    """replay of a single case index (fresh shell)"""
    which, idx = task
    core._fresh_shell()
    ctx, check = core._W["ctx"], core._W["check"]
    ctx.sh.snap()
    try:
        H = check.build_start(ctx, which)
        n = len(check.cases(H, which))
    finally:
        ctx.sh.unwind(0)
    return _task((which, idx, n))


def run(tier, store="file"):
    quick = tier == "quick"
    variant = "ossl-asan" if quick else "ossl-plain"
    check = C09(full=not quick, store=store)
    ex = Explorer(check, variant=variant, store=store)
    res = {"viol": {}, "harness": [], "counters": {}, "samples": [], "tasks": 0}
    try:
        starts = ["user", "public"] if quick else ["user", "public", "so"]
        nch = 48
        tasks = [(w, ci, nch) for w in starts for ci in range(nch)]
        for r in ex.pool.imap_unordered(_task, tasks):
            res["tasks"] += 1
            if r["harness"]:
                res["harness"].append(r["harness"])
            for k, v in (r["counters"] or {}).items():
                res["counters"][k] = res["counters"].get(k, 0) + v
            for v in r["viol"]:
                res["viol"].setdefault(v["signature"], v)
            res["samples"] += r["samples"][:1]
        confirmed = []
        todo = []
        for sig, v in sorted(res["viol"].items()):
            if v["case_index"] < 0:
                res["harness"].append("top-level death: %s" % sig)
                continue
            todo.append((sig, v))
        replays = ex.pool.map(_one_case, [(v["start"], v["case_index"]) for sig, v in todo], chunksize=1)
        for (sig, v), rr in zip(todo, replays):
            if any(x["signature"] == sig for x in rr["viol"]):
                v = dict(v)
                v.update(variant=variant, store=store, replay_module="c09_failnoeffect", check_kwargs=check.kw)
                confirmed.append(v)
            else:
                res["harness"].append("violation %s did not reproduce (saw %r)" % (sig, [x["signature"] for x in rr["viol"]]))
        res["confirmed"] = confirmed
        res["variant"] = variant
    finally:
        ex.close()
    return res


def main(tier):
    rep = Report("C09", tier, "model_checking")
    res = run(tier, "file")
    for v in res["confirmed"]:
        rep.add_violation(v)
    rep.harness_errors += res["harness"][:5]
    c = res["counters"]
    if not c.get("case_failed") or c.get("case_failed", 0) < 100:
        rep.harness_errors.append("vacuous: %r" % c)
    rvs = {k: v for k, v in c.items() if k.startswith("rv_")}
    rep.coverage = {"states": c.get("case_failed", 0) + res["tasks"], "transitions": c.get("cases", 0), "traces_validated_against_impl": c.get("case_failed", 0),
                    "samples": res["samples"][:6], "exhaustive": True, "variant": res["variant"],
                    "cases_total": c.get("cases", 0), "cases_failed_and_compared": c.get("case_failed", 0), "cases_succeeded_not_judged": c.get("case_succeeded", 0),
                    "distinct_error_codes": len(rvs), "error_codes": rvs,
                    "rule": "every single-point breakage of every valid call in the case list (see checks/c09_failnoeffect.py: cases()) from the start states "
                            "user/public(/so); each case in its own process snapshot; a case counts as a trace when the call failed and the full before/after "
                            "observation (all sessions' objects and attributes, handle validity, raw token directory) was compared; states = compared "
                            "observations + start states built"}
    if tier != "quick":
        # the same case list on the SQLite store (in-place restoring snapshots; the database is compared by logical content)
        rdb = run(tier, "db")
        for v in rdb["confirmed"]:
            v = dict(v)
            v["signature"] = v["signature"].replace("C09|", "C09|db|", 1)
            rep.add_violation(v)
        rep.harness_errors += rdb["harness"][:5]
        cd = rdb["counters"]
        rep.coverage["sqlite_store"] = {"cases_total": cd.get("cases", 0), "cases_failed_and_compared": cd.get("case_failed", 0)}
        rep.coverage["states"] += cd.get("case_failed", 0)
        rep.coverage["transitions"] += cd.get("cases", 0)
    rep.assumptions = ["file store (thorough: also the SQLite store); breakage menu and valid-call list as in the check source", "a case whose call succeeds is not a failing call and is only counted",
                       "fs-fault clause: one injected failure per call (every file-system syscall of the call x its realistic errnos), file store"]
    # calls that fail because a file-system operation of the store failed (checks/fsfault.py)
    import fsfault
    rep.coverage["fs_fault_clause"] = fsfault.run("C09", tier, rep)
    return rep.finish()


def replay(rec):
    import shutil, sys
    from p11mc import p11 as P
    sys.path.insert(0, P.VERIF + "/tools")
    import build_sut
    build_sut.build(rec["variant"])
    check = C09(**rec.get("check_kwargs", {}))
    root = P.scratch_root()
    try:
        template = core.build_template(check, rec["variant"], rec["store"], root)
        core._worker_init(check, rec["variant"], rec["store"], template, root)
        rr = _one_case((rec["start"], rec["case_index"]))
        core._W["ctx"].stop_shell()
        sigs = [v["signature"].replace("C09|", "C09|db|", 1) if rec["store"] == "db" else v["signature"] for v in rr["viol"]]
        print("request:", rec["history"][0][:300])
        print("recorded:", rec["signature"], "\nobserved:", sigs)
        if rec["signature"] in sigs:
            print("VIOLATION property=C09 replay=%s" % sys.argv[1])
            return 1
        return 0
    finally:
        shutil.rmtree(root, ignore_errors=True)
