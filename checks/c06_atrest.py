"""C06 - private objects are encrypted at rest under a key only a PIN unlocks (DESIGN.md 3/C06).

Every storing path for byte-string attributes of private objects (C_CreateObject per class with every byte attribute set,
C_GenerateKey, C_GenerateKeyPair, C_UnwrapKey, C_DeriveKey, C_CopyObject with public->private upgrade and a template,
C_SetAttributeValue per modifiable byte attribute) x follow-up history (none, user SetPIN, SO SetPIN, InitPIN, restart,
re-initialise + recreate) x objectstore.umask.  After each scenario the raw token directory is examined by code that
shares nothing with the library: (a) no 8-byte window of any value of a private object occurs in any file, (b) the
independent decoder, given a PIN, unwraps the same master key from the SO and the user blob and decrypts every byte
attribute of every private object to exactly the value the API returned, all IVs distinct, public objects in clear,
(c) with a wrong PIN nothing unwraps, (d) no file or directory carries a permission bit outside objectstore.umask.
"""
import os, stat, time, traceback
from p11mc import consts as C
from p11mc.core import CheckBase, Explorer, Violation, Died
from p11mc import core
from p11mc.runner import Report
from p11mc import world as W, fixtures as F, storefmt as SF
from p11mc.ref import Ref
from p11mc.p11 import Out, tpl, mech, blob, ul, keyderiv_string, ecdh_params

BYTE_ATTRS = [C.CKA_LABEL, C.CKA_APPLICATION, C.CKA_OBJECT_ID, C.CKA_VALUE, C.CKA_SUBJECT, C.CKA_ID, C.CKA_ISSUER, C.CKA_SERIAL_NUMBER, C.CKA_CHECK_VALUE,
              C.CKA_START_DATE, C.CKA_END_DATE, C.CKA_MODULUS, C.CKA_PUBLIC_EXPONENT, C.CKA_PRIVATE_EXPONENT, C.CKA_PRIME_1, C.CKA_PRIME_2, C.CKA_EXPONENT_1,
              C.CKA_EXPONENT_2, C.CKA_COEFFICIENT, C.CKA_PRIME, C.CKA_SUBPRIME, C.CKA_BASE, C.CKA_EC_PARAMS, C.CKA_EC_POINT, C.CKA_URL,
              C.CKA_HASH_OF_SUBJECT_PUBLIC_KEY, C.CKA_HASH_OF_ISSUER_PUBLIC_KEY, C.CKA_CHECK_VALUE]
NEW_USER, NEW_SO = b"new-user-pin-06", b"new-so-pin-0006"
_mk = [0]


def marker(tag):
    _mk[0] += 1
    return (b"VFC06-%s-%03d-" % (tag, _mk[0])).ljust(24, b"#")


def extras_for(kind):
    """every settable byte-string attribute of the class with its own marker"""
    cls = F.klass(kind)
    e = []
    if cls == C.CKO_DATA:
        e += [(C.CKA_OBJECT_ID, marker(b"oid"))]
    elif cls == C.CKO_CERTIFICATE:
        e += [(C.CKA_ID, marker(b"id")), (C.CKA_ISSUER, marker(b"iss")), (C.CKA_SERIAL_NUMBER, marker(b"ser")), (C.CKA_START_DATE, b"20260926"), (C.CKA_END_DATE, b"20270927")]
    elif cls in (C.CKO_SECRET_KEY, C.CKO_PUBLIC_KEY, C.CKO_PRIVATE_KEY):
        e += [(C.CKA_ID, marker(b"id")), (C.CKA_START_DATE, b"20260926"), (C.CKA_END_DATE, b"20270927")]
        if cls != C.CKO_SECRET_KEY:
            e += [(C.CKA_SUBJECT, marker(b"subj"))]
    return e


SCENARIOS = []
for _k in F.NINE + ["dsa_priv", "dh_priv", "ed25519_priv", "des3"]:
    SCENARIOS.append(("create", _k))
for _k in F.NINE + ["dh_params", "dsa_priv", "cert"]:
    SCENARIOS.append(("create-default-privacy", _k))     # no CKA_PRIVATE in the template: whatever the object reports decides
SCENARIOS += [("generate", "aes"), ("generate", "generic"), ("generate-pair", "ec"), ("generate-pair", "rsa"), ("unwrap", "aes"), ("unwrap", "ec-private"),
              ("unwrap", "rsa-private"), ("derive", "ecdh"), ("derive", "aes-ecb-encrypt-data"), ("derive", "concat"), ("copy-upgrade", "aes128"),
              ("copy-upgrade", "data"), ("copy-upgrade", "cert"), ("set", "aes128"), ("set", "data"), ("set", "rsa1024_priv"), ("set", "cert")]
# paths of more than one hop, and byte-string attributes a caller rarely supplies (a correct CKA_CHECK_VALUE is verified and then stored)
SCENARIOS += [("copy-upgrade-two-hop", "aes128"), ("copy-upgrade-two-hop", "data"), ("create-with-check-value", "aes128"), ("set-check-value", "aes128")]
HISTORIES = ["none", "restart", "setpin-user", "setpin-so", "initpin", "reinit-recreate"]


class C06(CheckBase):
    ID = "C06"

    def __init__(self, umask="0077"):
        self.kw = dict(umask=umask)
        self.umask = umask

    def world(self, ctx):
        return W.two_tokens(ctx)

    def setup(self, ctx, world):
        W.ok(ctx.p.Initialize(), "init")
        return None


def run_store(ctx, p, s, path, what, expected_public):
    """executes one storing path through user session s; returns the handles of the private objects it stored"""
    hs = []
    ctx.stored = {}      # handle -> {attr: value} the harness itself supplied (known independently of what the API returns)

    def remember(h, T):
        ctx.stored.setdefault(h, {}).update({t: bytes(v) for t, v in T if isinstance(v, (bytes, bytearray)) and len(v) > 0 and t in BYTE_ATTRS})
    if path == "create":
        T = F.template(what, token=True, private=True, label=marker(b"lab"), extra=extras_for(what), plain=True)
        hs.append(W.ok(p.CreateObject(s, T), "create %s" % what)["h"])
        remember(hs[-1], T)
    elif path == "create-default-privacy":
        T = [x for x in F.template(what, token=True, private=True, label=marker(b"lab"), extra=extras_for(what), plain=True) if x[0] != C.CKA_PRIVATE]
        h = W.ok(p.CreateObject(s, T), "create %s" % what)["h"]
        rv, prv = p.get_attr(s, h, C.CKA_PRIVATE)
        if rv == 0 and prv:
            hs.append(h)
            remember(h, T)
            ctx.count("default_private_objects")
        else:
            ctx.count("default_public_objects")
    elif path == "generate":
        base = {"aes": (C.CKM_AES_KEY_GEN, [(C.CKA_VALUE_LEN, 32)]), "generic": (C.CKM_GENERIC_SECRET_KEY_GEN, [(C.CKA_VALUE_LEN, 48)])}[what]
        T = base[1] + [(C.CKA_TOKEN, True), (C.CKA_PRIVATE, True), (C.CKA_SENSITIVE, False), (C.CKA_EXTRACTABLE, True), (C.CKA_LABEL, marker(b"lab")), (C.CKA_ID, marker(b"id"))]
        hs.append(W.ok(p.GenerateKey(s, mech(base[0]), T), "generate")["h"])
        remember(hs[-1], T)
    elif path == "generate-pair":
        if what == "ec":
            m, pub = C.CKM_EC_KEY_PAIR_GEN, [(C.CKA_EC_PARAMS, F.H(F.KEYS["ec256"]["params"]))]
        else:
            m, pub = C.CKM_RSA_PKCS_KEY_PAIR_GEN, [(C.CKA_MODULUS_BITS, 1024), (C.CKA_PUBLIC_EXPONENT, b"\x01\x00\x01")]
        r = W.ok(p.GenerateKeyPair(s, mech(m), pub + [(C.CKA_TOKEN, True), (C.CKA_PRIVATE, True), (C.CKA_LABEL, marker(b"pub")), (C.CKA_ID, marker(b"id"))],
                                   [(C.CKA_TOKEN, True), (C.CKA_PRIVATE, True), (C.CKA_SENSITIVE, False), (C.CKA_EXTRACTABLE, True), (C.CKA_LABEL, marker(b"prv")), (C.CKA_ID, marker(b"id")), (C.CKA_SUBJECT, marker(b"subj"))]), "pair")
        hs += [r["hpub"], r["hpriv"]]
    elif path == "unwrap":
        kek = W.ok(p.CreateObject(s, F.template("aes256", token=False, private=False, label=b"kek", extra=[(C.CKA_WRAP, True), (C.CKA_UNWRAP, True)])), "kek")["h"]
        src_kind = {"aes": "aes192", "ec-private": "ec256_priv", "rsa-private": "rsa1024_priv"}[what]
        src = W.ok(p.CreateObject(s, F.template(src_kind, token=False, private=True, label=b"src")), "src")["h"]
        wm = mech(C.CKM_AES_KEY_WRAP_PAD)
        r = W.ok(p.WrapKey(s, wm, kek, src, Out(2000)), "wrap")
        wrapped = bytes.fromhex(r["out"])[:r["len"]]
        cls, kt = dict(F.base(src_kind))[C.CKA_CLASS], dict(F.base(src_kind))[C.CKA_KEY_TYPE]
        T = [(C.CKA_CLASS, cls), (C.CKA_KEY_TYPE, kt), (C.CKA_TOKEN, True), (C.CKA_PRIVATE, True), (C.CKA_SENSITIVE, False), (C.CKA_EXTRACTABLE, True),
             (C.CKA_LABEL, marker(b"lab")), (C.CKA_ID, marker(b"id"))]
        hs.append(W.ok(p.UnwrapKey(s, wm, kek, wrapped, T), "unwrap")["h"])
        remember(hs[-1], T)
        p.DestroyObject(s, src)
    elif path == "derive":
        T = [(C.CKA_CLASS, C.CKO_SECRET_KEY), (C.CKA_KEY_TYPE, C.CKK_GENERIC_SECRET), (C.CKA_TOKEN, True), (C.CKA_PRIVATE, True), (C.CKA_SENSITIVE, False),
             (C.CKA_EXTRACTABLE, True), (C.CKA_LABEL, marker(b"lab")), (C.CKA_ID, marker(b"id"))]
        if what == "ecdh":
            base = W.ok(p.CreateObject(s, F.template("ec256_priv", token=False, private=True, label=b"base", extra=[(C.CKA_DERIVE, True)])), "base")["h"]
            dm = mech(C.CKM_ECDH1_DERIVE, ecdh_params(F.H(F.KEYS["ec256peer"]["rawpoint"])))
            T.append((C.CKA_VALUE_LEN, 32))
        elif what == "aes-ecb-encrypt-data":
            base = W.ok(p.CreateObject(s, F.template("aes128", token=False, private=True, label=b"base", extra=[(C.CKA_DERIVE, True)])), "base")["h"]
            dm = mech(C.CKM_AES_ECB_ENCRYPT_DATA, keyderiv_string(bytes(range(32))))
            T.append((C.CKA_VALUE_LEN, 32))
        else:
            base = W.ok(p.CreateObject(s, F.template("generic32", token=False, private=True, label=b"base", extra=[(C.CKA_DERIVE, True)])), "base")["h"]
            dm = mech(C.CKM_CONCATENATE_BASE_AND_DATA, keyderiv_string(marker(b"data")))
        hs.append(W.ok(p.DeriveKey(s, dm, base, T), "derive")["h"])
        remember(hs[-1], T)
        p.DestroyObject(s, base)
    elif path == "copy-upgrade":
        ST = F.template(what, token=True, private=False, label=marker(b"src"), extra=extras_for(what))
        src = W.ok(p.CreateObject(s, ST), "src")["h"]
        T = [(C.CKA_PRIVATE, True), (C.CKA_LABEL, marker(b"cpy"))]
        if F.klass(what) != C.CKO_DATA:
            T.append((C.CKA_ID, marker(b"cid")))
        h = W.ok(p.CopyObject(s, src, T), "copy")["h"]
        hs.append(h)
        remember(h, ST)
        remember(h, T)
        W.ok(p.DestroyObject(s, src), "destroy src")   # the public source held the same values in clear
    elif path == "copy-upgrade-two-hop":
        # public object -> private SESSION copy -> TOKEN copy of that: what reaches the disk went through two copies
        ST = F.template(what, token=False, private=False, label=marker(b"src"), extra=extras_for(what))
        src = W.ok(p.CreateObject(s, ST), "src")["h"]
        T = [(C.CKA_PRIVATE, True), (C.CKA_LABEL, marker(b"cpy"))]
        mid = W.ok(p.CopyObject(s, src, T), "copy 1")["h"]
        T2 = [(C.CKA_TOKEN, True)] + ([(C.CKA_ID, marker(b"cid"))] if F.klass(what) != C.CKO_DATA else [])
        h = W.ok(p.CopyObject(s, mid, T2), "copy 2")["h"]
        hs.append(h)
        remember(h, ST)
        remember(h, T)
        remember(h, T2)
        p.DestroyObject(s, mid)
        p.DestroyObject(s, src)
    elif path in ("create-with-check-value", "set-check-value"):
        key = bytes(range(0x40, 0x50))
        kcv = ctx.ref_kcv(key)
        CT = [x for x in F.template(what, token=True, private=True, label=marker(b"lab"), plain=True) if x[0] != C.CKA_VALUE] + [(C.CKA_VALUE, key)]
        if path == "create-with-check-value":
            CT.append((C.CKA_CHECK_VALUE, kcv))
        h = W.ok(p.CreateObject(s, CT), "create")["h"]
        if path == "set-check-value":
            W.ok(p.SetAttributeValue(s, h, [(C.CKA_CHECK_VALUE, kcv)]), "set check value")
        hs.append(h)
        remember(h, CT)
    elif path == "set":
        CT = F.template(what, token=True, private=True, label=marker(b"lab"))
        h = W.ok(p.CreateObject(s, CT), "create")["h"]
        remember(h, CT)
        sets = [(C.CKA_LABEL, marker(b"newlab"))]
        cls = F.klass(what)
        if cls == C.CKO_DATA:
            sets += [(C.CKA_APPLICATION, marker(b"app")), (C.CKA_OBJECT_ID, marker(b"oid")), (C.CKA_VALUE, marker(b"val") * 3)]
        elif cls == C.CKO_CERTIFICATE:
            sets += [(C.CKA_ID, marker(b"id")), (C.CKA_ISSUER, marker(b"iss")), (C.CKA_SERIAL_NUMBER, marker(b"ser"))]
        else:
            sets += [(C.CKA_ID, marker(b"id")), (C.CKA_START_DATE, b"20280101"), (C.CKA_END_DATE, b"20290202")]
            if cls != C.CKO_SECRET_KEY:
                sets += [(C.CKA_SUBJECT, marker(b"subj"))]
        for ent in sets:
            r = p.SetAttributeValue(s, h, [ent])
            if r["rv"] != 0:
                ctx.count("set_refused")
            else:
                remember(h, [ent])
        hs.append(h)
    return hs


def api_values(p, s, h, stored=None):
    """byte-string attribute values of object h: what the API returns, cross-checked against what the harness itself stored;
    an attribute the harness stored that the API cannot return (or returns differently) is reported, not silently dropped"""
    out = {}
    for t in sorted(set(BYTE_ATTRS)):
        rv, v = p.get_attr(s, h, t)
        if rv == 0 and isinstance(v, (bytes, bytearray)) and len(v) > 0:
            out[t] = bytes(v)
        elif stored and t in stored:
            out[t] = ("unreadable", rv)
    for t, v in (stored or {}).items():
        if isinstance(out.get(t), bytes) and out[t] != v:
            out[t] = ("differs", out[t])
        elif t not in out:
            out[t] = ("unreadable", -1)
    return out


def examine(ctx, ref, root, umask, so_pin, user_pin, expected, sig_base, stored=()):
    """the directory examination; expected = list of {attr: value} of the private objects that must be stored"""
    viol = []
    tokdirs = SF.token_dirs(root)
    # (d) permissions
    um = int(umask, 8)
    for dp, dn, fn in os.walk(root):
        for name in dn + fn:
            q = os.path.join(dp, name)
            mode = stat.S_IMODE(os.lstat(q).st_mode)
            if mode & um:
                viol.append(("%s|permission-bits-outside-umask|%s" % (sig_base, "dir" if name in dn else ("lock" if name.endswith(".lock") else "file")), {"path": os.path.relpath(q, root), "mode": oct(mode), "umask": umask}))
                break
    raw = {}
    for dp, dn, fn in os.walk(root):
        for f in fn:
            raw[os.path.join(dp, f)] = open(os.path.join(dp, f), "rb").read()
    # which token directory is A's? the one whose SO blob opens with A's SO PIN
    found = False
    for td in tokdirs:
        d = SF.read_token_dir(td)
        tok = d["token"]
        if tok is None or SF.OS_SOPIN not in tok:
            continue
        mk_so = SF.unwrap_master(ref, tok[SF.OS_SOPIN][1], so_pin)
        if mk_so is None:
            continue
        found = True
        if d["errors"]:
            viol.append(("%s|object-file-undecodable" % sig_base, d["errors"]))
        # (c) a wrong PIN opens nothing
        if SF.unwrap_master(ref, tok[SF.OS_SOPIN][1], b"not-the-pin-0000") is not None:
            viol.append(("%s|so-blob-opens-with-wrong-pin" % sig_base, {}))
        mk_user = None
        if user_pin is not None:
            if SF.OS_USERPIN not in tok or len(tok[SF.OS_USERPIN][1]) == 0:
                viol.append(("%s|user-blob-missing" % sig_base, {}))
            else:
                mk_user = SF.unwrap_master(ref, tok[SF.OS_USERPIN][1], user_pin)
                if mk_user is None:
                    viol.append(("%s|user-blob-does-not-open-with-user-pin" % sig_base, {}))
                elif mk_user != mk_so:
                    viol.append(("%s|so-and-user-blob-hold-different-keys" % sig_base, {}))
        # raw scan for the master key itself
        for path, data in raw.items():
            if mk_so in data:
                viol.append(("%s|master-key-in-clear" % sig_base, {"path": os.path.relpath(path, root)}))
        ivs = [tok[SF.OS_SOPIN][1][8:24]]
        if SF.OS_USERPIN in tok and len(tok[SF.OS_USERPIN][1]) >= 24:
            ivs.append(tok[SF.OS_USERPIN][1][8:24])
        decoded = []      # per private object file: {attr: plaintext}
        public_plain = {}   # values that legitimately sit in clear in a public object's file
        for f, attrs in d["objects"].items():
            prv = attrs.get(C.CKA_PRIVATE, (1, True))[1]
            if not prv:
                for t, (k, v) in attrs.items():
                    if k == 3:
                        public_plain.setdefault(os.path.join(td, f), []).append(v)
                continue
            dec = {}
            for t, (k, v) in attrs.items():
                if k != 3 or len(v) == 0:
                    continue
                pt = SF.decrypt_attr(ref, mk_so, v)
                ivs.append(v[:16])
                dec[t] = pt if pt is not None else ("undecryptable", v)
            decoded.append((f, dec))
        if len(set(ivs)) != len(ivs):
            viol.append(("%s|iv-reused" % sig_base, {"ivs": len(ivs), "distinct": len(set(ivs))}))
        # every non-empty byte-string attribute of a private object is a ciphertext under the master key - also those nobody asked about
        # (mechanism lists are not secret and are kept in clear; the SQLite store keeps them among the binary attributes)
        for f, dec in decoded:
            for t, pt in dec.items():
                if isinstance(pt, tuple) and pt[0] == "undecryptable" and t != C.CKA_ALLOWED_MECHANISMS:
                    viol.append(("%s|private-object-holds-byte-string-that-is-not-a-ciphertext|%s" % (sig_base, C.CKA_NAMES.get(t, hex(t))), {"file": f, "stored_bytes": len(pt[1])}))
        # (b) every expected private object is found with exactly the API's values
        for exp in expected:
            match = None
            for f, dec in decoded:
                if all(dec.get(t) == v for t, v in exp.items() if isinstance(v, bytes)):
                    match = f
                    break
            if match is None:
                # explain: closest file
                best, bad = None, None
                for f, dec in decoded:
                    diff = [t for t, v in exp.items() if isinstance(v, bytes) and dec.get(t) != v]
                    if bad is None or len(diff) < len(bad):
                        best, bad = f, diff
                names = "+".join(sorted(C.CKA_NAMES.get(t, hex(t)) for t in (bad or [])[:3]))
                kind = "stored-in-clear-or-undecryptable" if best and any(isinstance(dict(decoded)[best].get(t), tuple) for t in bad) else "decodes-to-different-value"
                viol.append(("%s|decoder-disagrees-with-api|%s|%s" % (sig_base, kind, names), {"file": best, "attrs": bad}))
        # (a) raw scan: no 8-byte window of any private value anywhere (API values and the values the harness stored)
        for exp in list(expected) + list(stored):
            for t, v in exp.items():
                if not isinstance(v, bytes) or len(v) < 8:
                    continue
                windows = {v[i:i + 8] for i in range(0, len(v) - 7)}
                for path, data in raw.items():
                    hit = next((w for w in windows if w in data), None)
                    if hit is None:
                        continue
                    if any(hit in pv for pv in public_plain.get(path, [])):
                        continue     # the same bytes are a legitimate clear attribute of a public object stored in that file
                    viol.append(("%s|plaintext-on-disk|%s" % (sig_base, C.CKA_NAMES.get(t, hex(t))), {"path": os.path.relpath(path, root), "window": hit}))
                    break
        for exp in expected:
            for t, v in exp.items():
                if isinstance(v, tuple) and v[0] in ("unreadable", "differs"):
                    viol.append(("%s|stored-attribute-%s-through-api|%s" % (sig_base, v[0], C.CKA_NAMES.get(t, hex(t))), {"info": v[1]}))
    if not found:
        viol.append(("%s|token-directory-of-A-not-found-with-so-pin" % sig_base, {}))
    return viol


def _task(task):
    idx, path, what, hist = task
    ctx, check = core._W["ctx"], core._W["check"]
    ctx.counters = {}
    out = {"viol": [], "harness": None, "counters": None, "sample": None}
    sh, p = ctx.sh, ctx.p
    ref = Ref()
    try:
        sh.snap()
        try:
            slot = ctx.world["slots"]["A"]
            so_pin, user_pin = W.SO_A, W.USER_A
            s = W.ok(p.OpenSession(slot), "open")["h"]
            W.ok(p.Login(s, C.CKU_USER, user_pin), "login")
            ctx.ref_kcv = lambda key: ref.out("BLOCK", alg="AES-%d" % (len(key) * 8), key=key, **{"in": bytes(16)})[:3]
            hs = run_store(ctx, p, s, path, what, None)
            expected = [api_values(p, s, h, ctx.stored.get(h)) for h in hs]
            stored_now = [dict(ctx.stored.get(h, {})) for h in hs]
            ctx.count("private_objects_stored", len(hs))
            ctx.count("attribute_values_compared", sum(len(e) for e in expected))
            W.ok(p.Logout(s), "logout")
            if hist == "setpin-user":
                W.ok(p.Login(s, C.CKU_USER, user_pin), "login")
                W.ok(p.SetPIN(s, user_pin, NEW_USER), "setpin")
                p.Logout(s)
                user_pin = NEW_USER
            elif hist == "setpin-so":
                W.ok(p.Login(s, C.CKU_SO, so_pin), "login so")
                W.ok(p.SetPIN(s, so_pin, NEW_SO), "setpin so")
                p.Logout(s)
                so_pin = NEW_SO
            elif hist == "initpin":
                W.ok(p.Login(s, C.CKU_SO, so_pin), "login so")
                W.ok(p.InitPIN(s, NEW_USER), "initpin")
                p.Logout(s)
                user_pin = NEW_USER
            elif hist == "restart":
                p.CloseSession(s)
                W.ok(p.Finalize(), "final")
                W.ok(p.Initialize(), "init")
                s = W.ok(p.OpenSession(slot), "open")["h"]
            elif hist == "reinit-recreate":
                p.CloseSession(s)
                W.ok(p.InitToken(slot, so_pin, "A"), "reinit")
                s = W.ok(p.OpenSession(slot), "open")["h"]
                W.ok(p.Login(s, C.CKU_SO, so_pin), "login so")
                W.ok(p.InitPIN(s, NEW_USER), "initpin")
                p.Logout(s)
                user_pin = NEW_USER
                W.ok(p.Login(s, C.CKU_USER, user_pin), "login")
                ctx.ref_kcv = lambda key: ref.out("BLOCK", alg="AES-%d" % (len(key) * 8), key=key, **{"in": bytes(16)})[:3]
                hs = run_store(ctx, p, s, path, what, None)
                expected = [api_values(p, s, h, ctx.stored.get(h)) for h in hs]
                stored_now = [dict(ctx.stored.get(h, {})) for h in hs]
                p.Logout(s)
            # after the history the API must still return the same values (lossless re-wrapping)
            if hist not in ("none", "reinit-recreate"):
                W.ok(p.Login(s, C.CKU_USER, user_pin), "login after history")
                now = []
                for e in expected:
                    lab = e.get(C.CKA_LABEL)
                    hh = p.FindAll(s, [(C.CKA_LABEL, lab)]).get("hs", []) if isinstance(lab, bytes) else []
                    now.append(api_values(p, s, hh[0], stored_now[len(now)]) if len(hh) == 1 else None)
                if now != expected:
                    out["viol"].append({"signature": "C06|%s|%s|history=%s|api-values-changed-after-history" % (path, what, hist), "detail": {}, "task": list(task), "history": [], "action": None})
                p.Logout(s)
            p.CloseSession(s)
            W.ok(p.Finalize(), "final")
            root = os.path.join(sh.pwd(), "tokens")
            sig_base = "C06|%s|%s|history=%s" % (path, what, hist if hist in ("reinit-recreate",) else ("none" if hist == "none" else "after-" + hist))
            for sig, det in examine(ctx, ref, root, check.umask, so_pin, user_pin, expected, sig_base, stored_now):
                out["viol"].append({"signature": sig, "detail": det, "task": list(task), "history": [], "action": None})
            ctx.count("scenarios")
            out["sample"] = {"path": path, "what": what, "history": hist, "private_objects": len(hs), "values": sum(len(e) for e in expected)}
        finally:
            sh.unwind(0)
    except Died as d:
        out["viol"].append({"signature": "C06|%s|%s|history=%s|died=%r" % (path, what, hist, d.info), "detail": {"during": d.during}, "task": list(task), "history": [], "action": None})
        core._fresh_shell()
    except Exception:
        out["harness"] = "scenario %r: %s" % (task, traceback.format_exc())
        try:
            core._fresh_shell()
        except Exception:
            pass
    finally:
        ref.close()
    out["counters"] = ctx.counters
    return out


def _task_fresh(task):
    core._fresh_shell()
    return _task(task)


def reconf_pass(rep, variant, cnt):
    """objectstore.umask across a re-initialisation IN THE SAME PROCESS: the library is initialised with configuration 1, used, finalised, the configuration file
    is rewritten (configuration 2: another umask, or no umask line at all = the owner-only default) and the library is initialised again.  Everything the second
    instance creates (a new token with its directory and files, new object and lock files in the old token) must respect configuration 2's umask."""
    import shutil, stat
    from p11mc import p11 as P
    pairs = [("0007", None), ("0027", None), ("0007", "0077"), ("0027", "0077"), ("0007", "0027"), (None, "0077"), ("0077", None)]
    for um1, um2 in pairs:
        root = P.scratch_root()
        try:
            sd = os.path.join(root, "d0")

            def conf(um):
                P.write_conf(sd, umask=um or "0077")
                if um is None:
                    path = os.path.join(sd, "softhsm2.conf")
                    txt = "".join(l for l in open(path) if not l.startswith("objectstore.umask"))
                    open(path, "w").write(txt)
            conf(um1)
            sh = P.Shell(variant, sd)
            try:
                p = P.P11(sh)
                tag = "%s-then-%s" % (um1 or "absent", um2 or "absent")

                def use(label, first):
                    W.ok(p.Initialize(), "init")
                    sm = W.slot_map(p)
                    W.init_token(p, sm["free"], W.SO_A, label, W.USER_A)
                    sm = W.slot_map(p)
                    for lab in ([label] if first else ["R1", label]):
                        s = W.ok(p.OpenSession(sm[lab]), "open")["h"]
                        W.ok(p.Login(s, C.CKU_USER, W.USER_A), "login")
                        W.ok(p.CreateObject(s, F.template("aes128", token=True, private=True, label=b"reconf-" + label.encode())), "create")
                        W.ok(p.GenerateKey(s, mech(C.CKM_AES_KEY_GEN), [(C.CKA_TOKEN, True), (C.CKA_PRIVATE, True), (C.CKA_VALUE_LEN, 16), (C.CKA_LABEL, b"gen-" + label.encode())]), "generate")
                        p.Logout(s); p.CloseSession(s)
                    W.ok(p.Finalize(), "final")

                def listing():
                    out = {}
                    for dp, dn, fn in os.walk(os.path.join(sd, "tokens")):
                        for name in dn + fn:
                            q = os.path.join(dp, name)
                            out[os.path.relpath(q, sd)] = (stat.S_IMODE(os.lstat(q).st_mode), name in dn)
                    return out
                use("R1", True)
                before = listing()
                conf(um2)
                use("R2", False)
                after = listing()
                eff = int(um2 or "0077", 8)
                new = {k: v for k, v in after.items() if k not in before}
                if len(new) < 5:
                    rep.harness_errors.append("reconfiguration pass %s: only %d new paths" % (tag, len(new)))
                for k, (mode, isdir) in sorted(new.items()):
                    cnt["reconf_paths_checked"] = cnt.get("reconf_paths_checked", 0) + 1
                    if mode & eff:
                        rep.add_violation({"signature": "C06|reconfigured-umask|%s|permission-bits-outside-umask|%s" % (tag, "dir" if isdir else ("lock" if k.endswith(".lock") else "file")),
                                           "detail": {"path": k, "mode": oct(mode), "umask_now": um2 or "default 0077", "umask_of_first_instance": um1 or "default 0077"},
                                           "history": [], "action": None, "variant": variant, "store": "file", "replay_module": "c06_atrest", "reconf": [um1, um2]})
                        break
                cnt["reconf_pairs"] = cnt.get("reconf_pairs", 0) + 1
            finally:
                sh.close()
        finally:
            shutil.rmtree(root, ignore_errors=True)


def umask_notation_pass(rep, variant, cnt):
    """objectstore.umask is an OCTAL number however it is written (with or without leading zeros): every notation of 077, 027, 07 and 0 must give files and
    directories whose permission bits stay inside that mask (fresh process and fresh token directory per notation)"""
    import shutil, stat
    from p11mc import p11 as P
    for text in ("0077", "077", "77", "0027", "027", "27", "0007", "07", "7", "37", "0", "00"):
        root = P.scratch_root()
        try:
            sd = os.path.join(root, "d0")
            P.write_conf(sd, umask=text)
            sh = P.Shell(variant, sd)
            try:
                p = P.P11(sh)
                W.ok(p.Initialize(), "init")
                sm = W.slot_map(p)
                W.init_token(p, sm["free"], W.SO_A, "N1", W.USER_A)
                sm = W.slot_map(p)
                s = W.ok(p.OpenSession(sm["N1"]), "open")["h"]
                W.ok(p.Login(s, C.CKU_USER, W.USER_A), "login")
                W.ok(p.CreateObject(s, F.template("aes128", token=True, private=True, label=b"notation")), "create")
                p.Logout(s); p.CloseSession(s)
                W.ok(p.Finalize(), "final")
            finally:
                sh.close()
            eff = int(text, 8)
            n = 0
            for dp, dn, fn in os.walk(os.path.join(sd, "tokens")):
                for name in dn + fn:
                    q = os.path.join(dp, name)
                    mode = stat.S_IMODE(os.lstat(q).st_mode)
                    n += 1
                    cnt["umask_notation_paths_checked"] = cnt.get("umask_notation_paths_checked", 0) + 1
                    if mode & eff:
                        rep.add_violation({"signature": "C06|umask-notation|%s|permission-bits-outside-umask|%s" % (text, "dir" if name in dn else ("lock" if name.endswith(".lock") else "file")),
                                           "detail": {"path": os.path.relpath(q, sd), "mode": oct(mode), "objectstore.umask": text, "means": oct(eff)},
                                           "history": [], "action": None, "variant": variant, "store": "file", "replay_module": "c06_atrest", "notation": text})
                        break
                else:
                    continue
                break
            if n < 4:
                rep.harness_errors.append("umask notation pass %s: only %d paths" % (text, n))
        finally:
            shutil.rmtree(root, ignore_errors=True)


def main(tier):
    rep = Report("C06", tier, "model_checking")
    quick = tier == "quick"
    variant = "ossl-asan" if quick else "ossl-plain"
    umasks = ["0077"] if quick else ["0077", "0027", "0007"]
    cnt, samples, ntasks = {}, [], 0
    stores_done = []
    for um, store in [(u, "file") for u in umasks] + [("0077", "db")]:
        ex = Explorer(C06(umask=um), variant=variant, store=store, conf_kw={"umask": um})
        stores_done.append("%s/%s" % (store, um))
        try:
            tasks = []
            for i, (path, what) in enumerate(SCENARIOS):
                hists = HISTORIES if (not quick or path in ("create", "set", "copy-upgrade") and what in ("aes128", "data", "rsa1024_priv")) else ["none", "restart"]
                if um != "0077":
                    hists = ["none", "setpin-user"]
                for h in hists:
                    tasks.append((len(tasks), path, what, h))
            found = {}
            for r in ex.pool.imap_unordered(_task, tasks):
                ntasks += 1
                if r["harness"]:
                    rep.harness_errors.append(r["harness"])
                for k, v in (r["counters"] or {}).items():
                    cnt[k] = cnt.get(k, 0) + v
                for v in r["viol"]:
                    found.setdefault(v["signature"], v)
                if r["sample"] and len(samples) < 6:
                    samples.append(r["sample"])
            todo = sorted(found.items())
            res = ex.pool.map(_task_fresh, [tuple(v["task"]) for s, v in todo], chunksize=1)
            for (sig, v), r in zip(todo, res):
                if any(x["signature"] == sig for x in r["viol"]):
                    v = dict(v)
                    v.update(variant=variant, store=store, replay_module="c06_atrest", umask=um)
                    if store == "db":
                        v["signature"] = v["signature"].replace("C06|", "C06|db|", 1)
                    rep.add_violation(v)
                else:
                    rep.harness_errors.append("violation %s did not reproduce" % sig)
        finally:
            ex.close()
    reconf_pass(rep, variant, cnt)
    umask_notation_pass(rep, variant, cnt)
    if not cnt.get("attribute_values_compared") or cnt.get("scenarios", 0) < 10:
        rep.harness_errors.append("vacuous: %r" % cnt)
    rep.coverage = {"states": cnt.get("scenarios", 0), "transitions": ntasks, "traces_validated_against_impl": cnt.get("scenarios", 0),
                    "samples": samples, "exhaustive": True, "variant": variant, "umasks": umasks, "stores": stores_done, "outcome_counters": cnt,
                    "rule": "one state = one (storing path x object kind x follow-up history x umask) scenario executed on the real library, after which the raw "
                            "directory is examined by the independent decoder and scanner; the scenario list is enumerated completely"}
    rep.assumptions = ["file store and SQLite store (the latter read with Python's sqlite3 module); the decoder (py/p11mc/storefmt.py + Botan AES via refsh + hashlib) is the trusted base",
                       "plaintext scan uses 8-byte windows, so values shorter than 8 bytes are only covered by the decoder comparison"]
    return rep.finish()


def replay(rec):
    import shutil, sys
    from p11mc import p11 as P
    sys.path.insert(0, P.VERIF + "/tools")
    import build_sut
    build_sut.build(rec["variant"]); build_sut.build_ref()
    if rec.get("notation") is not None:
        class _R2:
            def __init__(self): self.v, self.harness_errors = [], []
            def add_violation(self, x): self.v.append(x["signature"])
        r2 = _R2()
        umask_notation_pass(r2, rec["variant"], {})
        print("recorded:", rec["signature"], "\nobserved:", r2.v)
        if rec["signature"] in r2.v:
            print("VIOLATION property=C06 replay=%s" % sys.argv[1])
            return 1
        return 0
    if rec.get("reconf") is not None:
        class _R:
            def __init__(self): self.v, self.harness_errors = [], []
            def add_violation(self, x): self.v.append(x["signature"])
        r_ = _R()
        reconf_pass(r_, rec["variant"], {})
        print("recorded:", rec["signature"], "\nobserved:", r_.v)
        if rec["signature"] in r_.v:
            print("VIOLATION property=C06 replay=%s" % sys.argv[1])
            return 1
        return 0
    check = C06(umask=rec.get("umask", "0077"))
    root = P.scratch_root()
    try:
        store = rec.get("store", "file")
        template = core.build_template(check, rec["variant"], store, root, {"umask": rec.get("umask", "0077")})
        core._worker_init(check, rec["variant"], store, template, root)
        r = _task(tuple(rec["task"]))
        core._W["ctx"].stop_shell()
        sigs = [v["signature"].replace("C06|", "C06|db|", 1) if store == "db" else v["signature"] for v in r["viol"]]
        print("scenario:", rec["task"], "\nrecorded:", rec["signature"], "\nobserved:", sigs)
        if rec["signature"] in sigs:
            print("VIOLATION property=C06 replay=%s" % sys.argv[1])
            return 1
        return 0
    finally:
        shutil.rmtree(root, ignore_errors=True)
