"""C15 - processes sharing a token directory see each other's committed changes (DESIGN.md 3/C15).

Two exhaustive explorations of REAL processes (p11sh linked against the current tree) that have the same token directory open:

(a) call granularity: every sequence of calls (up to depth d) issued by 2 or 3 logged-in processes, alphabet per process
    {create token object, change label of o1, change end date of o1, change label of the private key k1, destroy o1, search+read everything,
    read o1 through the handle obtained at start}.  Unmerged depth-first search over process snapshots (all processes are snapshotted with
    fork, the directory content is saved and restored around every edge).  After EVERY call, every process and a witness process that
    never issues a call are probed inside a discarded snapshot: the complete object list with attribute values must equal the shared-map
    reference model, and the old handle of o1 must read the committed values or be invalid.
(b) file-operation granularity: two writer processes execute one call each inside an `fsx schedule` window; the entry of every
    file-system syscall on the shared directory is a scheduling point, fcntl lock waits are blocking; EVERY schedule with at most k
    preemptions is executed on a fresh directory copy with fresh processes.  Oracle: no deadlock / death; return codes, both processes'
    later observations and a fresh process's view equal those of one of the two serial orders (obtained by running them).
"""
import json, os, shutil, subprocess, time, traceback, hashlib
from p11mc import consts as C
from p11mc import core, p11 as P
from p11mc.core import CheckBase, Explorer, Died
from p11mc.runner import Report
from p11mc import world as W, fixtures as F
from p11mc.p11 import Out, tpl

VARIANTS = (["ossl-plain"], ["ossl-plain"])
OBS_T = [(C.CKA_ID, Out(16)), (C.CKA_LABEL, Out(32)), (C.CKA_END_DATE, Out(8))]
D0 = b"20300101"


class C15(CheckBase):
    ID = "C15"

    def world(self, ctx):
        w = W.two_tokens(ctx)
        p = ctx.p
        W.ok(p.Initialize(), "init")
        s = W.ok(p.OpenSession(w["slots"]["A"]), "open")["h"]
        W.ok(p.Login(s, C.CKU_USER, W.USER_A), "login")
        for ident, priv in ((b"o1", False), (b"o2", False), (b"k1", True)):
            W.ok(p.CreateObject(s, F.template("aes128", token=True, private=priv, ident=ident, label=b"L-" + ident, extra=[(C.CKA_END_DATE, D0)])), "create " + ident.decode())
        W.ok(p.Finalize(), "final")
        return w

    def setup(self, ctx, world):
        return None


MODEL0 = {"o1": ("L-o1", D0.decode()), "o2": ("L-o2", D0.decode()), "k1": ("L-k1", D0.decode())}


def new_template(ident, label):
    return F.template("aes128", token=True, private=False, ident=ident, label=label, extra=[(C.CKA_END_DATE, D0)])


# ------------------------------------------------------------------------------------------------ directory snapshots (in memory)
def dir_save(tok):
    out = {}
    for dp, dn, fn in os.walk(tok):
        for f in fn:
            pth = os.path.join(dp, f)
            with open(pth, "rb") as fh:
                out[pth] = fh.read()
    return out


def dir_restore(tok, saved):
    for dp, dn, fn in os.walk(tok):
        for f in fn:
            pth = os.path.join(dp, f)
            if pth not in saved:
                os.unlink(pth)
    for pth, data in saved.items():
        try:
            with open(pth, "rb") as fh:
                if fh.read() == data:
                    continue
        except FileNotFoundError:
            pass
        fd = os.open(pth, os.O_WRONLY | os.O_CREAT | os.O_TRUNC, 0o600)
        os.write(fd, data)
        os.close(fd)


# ------------------------------------------------------------------------------------------------ one process
PRIVATE_IDS = ("k1",)


class Proc:
    def __init__(self, p, slot, pin=W.USER_A, login=True):
        self.p = p
        self.sh = p.sh
        self.public = not login          # a process that never logs in sees the public objects only
        W.ok(p.Initialize(), "C_Initialize")
        self.s = W.ok(p.OpenSession(slot), "C_OpenSession")["h"]
        if login:
            W.ok(p.Login(self.s, C.CKU_USER, pin), "C_Login")
        self.h = {}
        o = self.obs(remember=True)
        if o != model_obs(MODEL0, self.public):
            raise RuntimeError("set-up observation differs from the initial model: %r" % (o,))

    def obs(self, remember=False):
        """complete view: ('rv', code) or sorted tuple of (id, label, end date)"""
        r = self.p.FindAll(self.s, [])
        if r["rv"] != 0:
            return ("rv", P.rvname(r["rv"]))
        hs = r["hs"]
        if not hs:
            return ()
        rs = self.p.batch(["C_GetAttributeValue s=%d o=%d tpl=%s" % (self.s, h, tpl(OBS_T)) for h in hs])
        out = []
        for h, a in zip(hs, rs):
            if a["rv"] != 0:
                out.append(("unreadable", P.rvname(a["rv"]), ""))
                continue
            v = [bytes.fromhex(x[2])[:max(x[1], 0)].decode("latin1") for x in a["attrs"]]
            out.append(tuple(v))
            if remember:
                self.h.setdefault(v[0], h)
        return tuple(sorted(out))

    def get(self, ident):
        r = self.p.GetAttributeValue(self.s, self.h[ident], OBS_T)
        if r["rv"] != 0:
            return ("rv", P.rvname(r["rv"]))
        return tuple(bytes.fromhex(x[2])[:max(x[1], 0)].decode("latin1") for x in r["attrs"])


def model_obs(model, public=False):
    return tuple(sorted((k, v[0], v[1]) for k, v in model.items() if not (public and k in PRIVATE_IDS)))


def model_get(model, ident):
    return (ident,) + model[ident] if ident in model else ("rv", "CKR_OBJECT_HANDLE_INVALID")


def classify(seen, expect):
    """coarse discrepancy class of an observation against the model"""
    if isinstance(seen, tuple) and seen and seen[0] == "rv":
        return "search-failed-" + seen[1]
    sid = [x[0] for x in seen]
    eid = [x[0] for x in expect]
    if any(x == "unreadable" for x in sid):
        return "object-unreadable"
    if len(set(sid)) != len(sid):
        return "object-duplicated"
    if set(eid) - set(sid):
        return "committed-object-not-found"
    if set(sid) - set(eid):
        return "destroyed-object-still-found"
    return "stale-or-wrong-attribute-value"


# ------------------------------------------------------------------------------------------------ part (a)
def actions_for(nprocs, created, public=()):
    out = []
    for p in range(nprocs):
        if not created[p]:
            out.append(("create", p))
        out += [("label", p, "o1"), ("date", p, "o1")] + ([] if p in public else [("label", p, "k1")]) + [("destroy", p, "o1"), ("obs", p), ("get", p, "o1")]
    return out


def call_sequences(nprocs, length, public=()):
    """all action sequences of exactly `length` (model-level enabledness only)"""
    out = []

    def rec(seq, created):
        if len(seq) == length:
            out.append(list(seq))
            return
        for a in actions_for(nprocs, created, public):
            c2 = list(created)
            if a[0] == "create":
                c2[a[1]] = True
            seq.append(a)
            rec(seq, c2)
            seq.pop()
    rec([], [False] * nprocs)
    return out


class CallWorld:
    def __init__(self, ctx, nprocs, public=()):
        self.ctx = ctx
        self.n = nprocs
        self.public = tuple(public)
        self.sd = os.path.join(ctx.root, "c15-%d" % os.getpid())
        shutil.rmtree(self.sd, ignore_errors=True)
        shutil.copytree(core._W["template"]["dir"], self.sd)
        self.tok = os.path.join(self.sd, "tokens")
        slot = ctx.world["slots"]["A"]
        self.shells = [core.ShellD(ctx.variant, self.sd) for _ in range(nprocs + 1)]
        self.procs = [Proc(P.P11(sh), slot, login=(i not in self.public)) for i, sh in enumerate(self.shells)]        # the last one is the witness
        self.viol = {}
        self.nodes = 0
        self.probes = 0

    def close(self):
        for sh in self.shells:
            try:
                sh.close()
            except Exception:
                pass
        shutil.rmtree(self.sd, ignore_errors=True)

    def V(self, sig, hist, detail):
        self.viol.setdefault(sig, {"signature": sig, "detail": detail, "history": [list(a) for a in hist], "action": None, "task": ["call", [self.n, list(self.public)], [list(a) for a in hist]]})

    def apply(self, a, model, depth, hist):
        """execute action a on the real processes; returns the new model"""
        pr = self.procs[a[1]]
        kind = a[0]
        m2 = dict(model)
        who = "P%d" % a[1]
        if kind == "create":
            ident = "n%d" % a[1]
            r = pr.p.CreateObject(pr.s, new_template(ident.encode(), b"L-" + ident.encode()))
            if r["rv"] != 0:
                self.V("C15|call|create|refused-%s" % P.rvname(r["rv"]), hist, {"who": who})
            else:
                m2[ident] = ("L-" + ident, D0.decode())
                pr.h[ident] = r["h"]
        elif kind in ("label", "date"):
            ident = a[2]
            if kind == "label":
                val = "p%d-d%d" % (a[1], depth)
                r = pr.p.SetAttributeValue(pr.s, pr.h[ident], [(C.CKA_LABEL, val.encode())])
            else:
                val = "2031%02d%02d" % (a[1] + 1, depth + 1)
                r = pr.p.SetAttributeValue(pr.s, pr.h[ident], [(C.CKA_END_DATE, val.encode())])
            exp = 0 if ident in model else C.CKR_OBJECT_HANDLE_INVALID
            if r["rv"] != exp:
                self.V("C15|call|set-%s|returned-%s-expected-%s" % (kind, P.rvname(r["rv"]), P.rvname(exp)), hist, {"who": who, "object": ident})
            if r["rv"] == 0 and ident in model:
                m2[ident] = (val, model[ident][1]) if kind == "label" else (model[ident][0], val)
        elif kind == "destroy":
            ident = a[2]
            r = pr.p.DestroyObject(pr.s, pr.h[ident])
            exp = 0 if ident in model else C.CKR_OBJECT_HANDLE_INVALID
            if r["rv"] != exp:
                self.V("C15|call|destroy|returned-%s-expected-%s" % (P.rvname(r["rv"]), P.rvname(exp)), hist, {"who": who, "object": ident})
            if r["rv"] == 0:
                m2.pop(ident, None)
        elif kind == "obs":
            o = pr.obs(remember=True)
            if o != model_obs(model, pr.public):
                self.V("C15|call|obs|%s" % classify(o, model_obs(model, pr.public)), hist, {"who": who, "seen": repr(o), "model": repr(model_obs(model, pr.public))})
        elif kind == "get":
            g = pr.get(a[2])
            if g != model_get(model, a[2]):
                self.V("C15|call|get|%s" % ("old-handle-reads-%s" % ("stale-value" if g[0] != "rv" else g[1])), hist, {"who": who, "seen": repr(g), "model": repr(model_get(model, a[2]))})
        return m2

    def probe_all(self, a, model, hist):
        for i, pr in enumerate(self.procs):
            exp = model_obs(model, pr.public)
            role = "witness" if i == self.n else ("caller" if i == a[1] else ("other-process" if not pr.public else "other-process-not-logged-in"))
            pr.sh.snap(copy=False)
            try:
                o = pr.obs()
                self.probes += 1
                if o != exp:
                    self.V("C15|call|after-%s|%s-sees|%s" % (a[0], role, classify(o, exp)), hist, {"seen": repr(o), "model": repr(exp)})
                g = pr.get("o1")
                if g != model_get(model, "o1"):
                    self.V("C15|call|after-%s|%s-old-handle|%s" % (a[0], role, "reads-stale-value" if g[0] != "rv" else g[1]), hist, {"seen": repr(g), "model": repr(model_get(model, "o1"))})
            finally:
                pr.sh.back()

    def dfs(self, model, created, hist, depth_left):
        if depth_left == 0:
            return
        for a in actions_for(self.n, created, self.public):
            saved = dir_save(self.tok)
            handles = [dict(pr.h) for pr in self.procs]
            for pr in self.procs[:self.n]:
                pr.sh.snap(copy=False)
            try:
                hist.append(a)
                self.nodes += 1
                m2 = self.apply(a, model, len(hist), hist)
                self.probe_all(a, m2, hist)
                c2 = list(created)
                if a[0] == "create":
                    c2[a[1]] = True
                self.dfs(m2, c2, hist, depth_left - 1)
            finally:
                hist.pop()
                for pr in self.procs[:self.n]:
                    pr.sh.back()
                for pr, h in zip(self.procs, handles):
                    pr.h = h
                dir_restore(self.tok, saved)


def _call_task(task):
    """replay `prefix` (checking every step), then explore everything below it down to `depth`"""
    nprocs, prefix, depth = task
    public = ()
    if isinstance(nprocs, (list, tuple)):
        nprocs, public = nprocs[0], tuple(nprocs[1])
    ctx = core._W["ctx"]
    out = {"viol": [], "harness": None, "nodes": 0, "probes": 0}
    cw = None
    try:
        cw = CallWorld(ctx, nprocs, public)
        model, created, hist = dict(MODEL0), [False] * nprocs, []
        for a in prefix:
            a = tuple(a)
            hist.append(a)
            model = cw.apply(a, model, len(hist), hist)
            if a[0] == "create":
                created[a[1]] = True
        if prefix:
            cw.nodes += 1
            cw.probe_all(tuple(prefix[-1]), model, hist)
        cw.dfs(model, created, hist, depth - len(prefix))
        out["viol"] = list(cw.viol.values())
        out["nodes"], out["probes"] = cw.nodes, cw.probes
    except Died as d:
        out["viol"] = list(cw.viol.values()) if cw else []
        sig = "C15|call|process-died|%s" % (json.dumps(d.info, sort_keys=True))
        out["viol"].append({"signature": sig, "detail": {"during": (d.during or "")[:200]}, "history": [list(a) for a in prefix], "action": None, "task": ["call", [nprocs, list(public)], [list(a) for a in prefix]]})
    except Exception:
        out["harness"] = "task %r: %s" % (task, traceback.format_exc())
    finally:
        if cw:
            cw.close()
    return out


# ------------------------------------------------------------------------------------------------ part (b): fsx schedule windows
class PipeShell(P.Shell):
    def __init__(self, ifd, ofd, statedir, proc):
        self.variant = None
        self.statedir = statedir
        self.ifd, self.ofd = ifd, ofd
        self.buf = b""
        self.ncalls = 0
        self.last = None
        self.p = proc

    def close(self):
        for fd in (self.ifd, self.ofd):
            try:
                os.close(fd)
            except OSError:
                pass


def fsx_group(variant, statedir, n, choices, outfile):
    fds, child = [], []
    for _ in range(n):
        r1, w1 = os.pipe()
        r2, w2 = os.pipe()
        fds.append((w1, r2))
        child += [r1, w2]
    e = dict(os.environ)
    e["SOFTHSM2_CONF"] = "softhsm2.conf"
    build = os.environ.get("VERIF_BUILD", os.path.join(P.VERIF, "build"))
    args = [os.path.join(build, "fsx", "fsx"), "schedule", outfile, ",".join(map(str, choices)) or "-", str(n)] + [str(x) for x in child] + ["--", os.path.join(build, variant, "p11sh")]
    proc = subprocess.Popen(args, cwd=statedir, env=e, pass_fds=child, stdin=subprocess.DEVNULL)
    for c in child:
        os.close(c)
    return proc, [PipeShell(w, r, statedir, proc) for (w, r) in fds]


def call_line(pr, spec, idx):
    kind = spec[0]
    if kind == "create":
        ident = ("w%d" % idx).encode()
        return "C_CreateObject s=%d tpl=%s" % (pr.s, tpl(new_template(ident, b"L-" + ident)))
    if kind == "label":
        return "C_SetAttributeValue s=%d o=%d tpl=%s" % (pr.s, pr.h[spec[1]], tpl([(C.CKA_LABEL, b"new-by-%d" % idx)]))
    if kind == "date":
        return "C_SetAttributeValue s=%d o=%d tpl=%s" % (pr.s, pr.h[spec[1]], tpl([(C.CKA_END_DATE, b"2032010%d" % (idx + 1))]))
    if kind == "destroy":
        return "C_DestroyObject s=%d o=%d" % (pr.s, pr.h[spec[1]])
    if kind == "find":
        return "FINDALL s=%d tpl=%s" % (pr.s, tpl([(C.CKA_CLASS, C.CKO_SECRET_KEY)]))
    if kind == "get":
        return "C_GetAttributeValue s=%d o=%d tpl=%s" % (pr.s, pr.h[spec[1]], tpl(OBS_T))
    raise ValueError(kind)


def abstract_answer(spec, a):
    if "died" in a:
        return ("died",)
    out = [P.rvname(a["rv"])]
    if spec[0] == "find" and a["rv"] == 0:
        out.append(len(a["hs"]))
    if spec[0] == "get" and a["rv"] == 0:
        out.append(tuple(bytes.fromhex(x[2])[:max(x[1], 0)].decode("latin1") for x in a["attrs"]))
    return tuple(out)


PAIRS = {
    "set-label-vs-set-date-same-object": (("label", "o1"), ("date", "o1")),
    "set-label-vs-set-label-same-object": (("label", "o1"), ("label", "o1")),
    "set-label-vs-destroy": (("label", "o1"), ("destroy", "o1")),
    "create-vs-find": (("create",), ("find",)),
    "create-vs-create": (("create",), ("create",)),
    "destroy-vs-get": (("destroy", "o1"), ("get", "o1")),
    "set-private-label-vs-find": (("label", "k1"), ("find",)),
    "destroy-vs-destroy": (("destroy", "o1"), ("destroy", "o1")),
    "set-label-vs-get": (("label", "o1"), ("get", "o1")),
    "set-label-vs-set-label-different-objects": (("label", "o1"), ("label", "o2")),
    "destroy-vs-find": (("destroy", "o1"), ("find",)),
    "set-private-label-vs-destroy-other-object": (("label", "k1"), ("destroy", "o2")),
    # the second process never logs in (public session): it must see committed PUBLIC objects all the same
    "create-vs-find-by-process-not-logged-in": (("create",), ("find",), {"public": (1,)}),
    "create-vs-set-label-other-object-by-process-not-logged-in": (("create",), ("label", "o2"), {"public": (1,)}),
    "set-label-vs-find-by-process-not-logged-in": (("label", "o1"), ("find",), {"public": (1,)}),
}


def fresh_view(ctx, sd):
    sh = P.Shell(ctx.variant, sd)
    try:
        return Proc_view(P.P11(sh), ctx.world["slots"]["A"])
    finally:
        sh.close()


def Proc_view(p, slot):
    r = p.Initialize()
    if r["rv"] != 0:
        return ("C_Initialize", P.rvname(r["rv"]))
    s = p.OpenSession(slot)
    if s["rv"] != 0:
        return ("C_OpenSession", P.rvname(s["rv"]))
    r = p.Login(s["h"], C.CKU_USER, W.USER_A)
    if r["rv"] != 0:
        return ("C_Login", P.rvname(r["rv"]))
    pr = Proc.__new__(Proc)
    pr.p, pr.sh, pr.s, pr.h = p, p.sh, s["h"], {}
    return pr.obs()


def run_pair(ctx, name, mode, choices, timeout=20):
    """mode 'fsx': both calls inside one scheduled window; mode ('serial', order): plain processes, the calls listed in `order` one after the other.
    returns (outcome, points, error)"""
    specs = PAIRS[name][:2]
    public = (PAIRS[name][2] if len(PAIRS[name]) > 2 else {}).get("public", ())
    sd = os.path.join(ctx.root, "c15b-%d" % os.getpid())
    shutil.rmtree(sd, ignore_errors=True)
    shutil.copytree(core._W["template"]["dir"], sd)
    slot = ctx.world["slots"]["A"]
    proc = None
    shells = []
    outfile = os.path.join(ctx.root, "c15b-%d.json" % os.getpid())
    try:
        if mode == "fsx":
            if os.path.exists(outfile):
                os.unlink(outfile)
            proc, shells = fsx_group(ctx.variant, sd, 2, choices, outfile)
        else:
            shells = [P.Shell(ctx.variant, sd) for _ in range(2)]
        procs = [Proc(P.P11(sh), slot, login=(i not in public)) for i, sh in enumerate(shells)]
        lines = [call_line(pr, specs[i], i) for i, pr in enumerate(procs)]
        answers = [None, None]
        if mode == "fsx":
            for pr, l in zip(procs, lines):
                data = ("MARK n=1\n%s\nMARK n=2\n" % l).encode()
                os.write(pr.sh.ifd, data)
            import select
            deadline = time.time() + timeout
            for i, pr in enumerate(procs):
                got = []
                while len(got) < 3:
                    while b"\n" not in pr.sh.buf:
                        left = deadline - time.time()
                        if left <= 0 or not select.select([pr.sh.ofd], [], [], left)[0]:
                            return None, None, "timeout: the window did not finish within %d s" % timeout
                        chunk = os.read(pr.sh.ofd, 1 << 16)
                        if not chunk:
                            return None, None, "process %d ended inside the window" % i
                        pr.sh.buf += chunk
                    got.append(json.loads(pr.sh._readline()))
                answers[i] = got[1]
        else:
            for i in mode[1]:
                answers[i] = procs[i].sh.cmd(lines[i])
            for i in (0, 1):
                if answers[i] is None:
                    answers[i] = {"rv": -1}        # not executed in this reference run
        outcome = [abstract_answer(specs[i], answers[i]) for i in (0, 1)]
        for pr in procs:
            outcome.append(pr.obs())
        for pr in procs:
            outcome.append(pr.get("o1"))
        for sh in shells:
            try:
                sh.cmd("C_Finalize")
            except Exception:
                pass
            sh.close()
        shells = []
        if proc is not None:
            try:
                proc.wait(timeout=10)
            except subprocess.TimeoutExpired:
                proc.kill()
                proc.wait()
            proc = None
        outcome.append(fresh_view(ctx, sd))
        points, err = None, ""
        if mode == "fsx":
            o = json.load(open(outfile))
            points, err = o["points"], o["error"]
        return tuple(outcome), points, err
    finally:
        for sh in shells:
            try:
                sh.close()
            except Exception:
                pass
        if proc is not None:
            proc.kill()
            proc.wait()
        shutil.rmtree(sd, ignore_errors=True)


VIEW_NAMES = ["P0-view", "P1-view", "P0-old-handle", "P1-old-handle", "fresh-process-view"]
READ_ONLY = ("find", "get")


def judged(specs, outcome):
    """the part of an outcome the property speaks about: which calls committed (returned CKR_OK), the outputs of successful read-only calls,
    and what every process and a fresh process observe afterwards.  Return codes of failing calls are not judged."""
    ans, views = outcome[:2], outcome[2:]
    ok = tuple(a[0] == "CKR_OK" for a in ans)
    reads = tuple(a[1:] if (ok[i] and specs[i][0] in READ_ONLY) else None for i, a in enumerate(ans))
    return ok, reads, tuple(views)


def explained(specs, outcome, refs):
    """refs: {order tuple: serial outcome}.  The racing outcome is explained when the calls that returned CKR_OK, executed serially in some order,
    leave the same views (and give a successful read-only call the same output)."""
    ok, reads, views = judged(specs, outcome)
    S = tuple(i for i in (0, 1) if ok[i])
    cands = [refs[o] for o in refs if tuple(sorted(o)) == S]
    for c in cands:
        _ok2, reads2, views2 = judged(specs, c)
        if views2 != views:
            continue
        if all(reads[i] is None or reads2[i] is None or reads[i] == reads2[i] for i in (0, 1)):
            return True, cands
    return False, cands


def describe(specs, outcome, cands):
    """which observation differs from the closest serial candidate"""
    ok, reads, views = judged(specs, outcome)
    best = None
    for c in sorted(cands, key=repr):
        _o, reads2, views2 = judged(specs, c)
        d = []
        for i in (0, 1):
            if reads[i] is not None and reads2[i] is not None and reads[i] != reads2[i]:
                d.append("P%d-output-differs" % i)
        for nme, a, b in zip(VIEW_NAMES, views, views2):
            if a == b:
                continue
            if nme.endswith("view"):
                d.append("%s:%s" % (nme, classify(a, b) if not (a and a[0] in ("C_Initialize", "C_OpenSession", "C_Login")) else "%s-%s" % a))
            else:
                d.append("%s:%s" % (nme, "stale-or-mixed-value" if a[0] != "rv" else a[1]))
        if best is None or len(d) < len(best):
            best = d
    return "both-committed" if all(ok) else ("only-P%d-committed" % ok.index(True) if any(ok) else "none-committed"), ",".join(best or ["?"])


def _pair_task(task):
    """explore the schedules below the given prefixes of one pair body (same structure as C18)"""
    name, prefixes, bound, split = task
    ctx = core._W["ctx"]
    out = {"viol": {}, "harness": None, "name": name, "children": [], "schedules": 0, "root_points": None, "outcomes": set(), "serial": 0, "blocked": 0}

    def V(sig, det):
        out["viol"].setdefault(sig, {"signature": sig, "detail": det, "history": [], "action": None, "task": ["pair", name, det.get("schedule", [])]})
    try:
        specs = PAIRS[name][:2]
        refs = {}
        for order in ((0, 1), (1, 0), (0,), (1,), ()):
            refs[order], _p, _e = run_pair(ctx, name, ("serial", order), [])
        out["serial"] = len(set(refs.values()))

        def cost_upto(pts, i):
            return sum(1 for pt in pts[:i] if pt[0] >= 0 and pt[0] in pt[3] and pt[1] != pt[0])

        def explore(pref):
            oc, pts, err = run_pair(ctx, name, "fsx", pref)
            out["schedules"] += 1
            if oc is None:
                V("C15|file-ops|%s|%s" % (name, err.split(":")[0].replace(" ", "-")), {"schedule": list(pref), "error": err})
                return
            if err:
                V("C15|file-ops|%s|%s" % (name, err.split(":")[0].replace(" ", "-")), {"schedule": list(pref), "error": err})
            out["outcomes"].add(hashlib.sha1(repr(oc).encode()).hexdigest()[:12])
            good, cands = explained(specs, oc, refs)
            if not good:
                V("C15|file-ops|%s|committed-changes-not-serialisable|%s|%s" % ((name,) + describe(specs, oc, cands)),
                  {"schedule": list(pref), "outcome": repr(oc)[:1200], "serial_candidates": [repr(x)[:1200] for x in sorted(cands, key=repr)]})
            ch = [pt[3].index(pt[1]) for pt in pts]
            if ch[:len(pref)] != list(pref):
                V("C15|file-ops|%s|harness|replayed-prefix-diverged" % name, {"schedule": list(pref), "seen": ch[:len(pref)]})
                return
            if not pref:
                out["root_points"] = [[pt[0], pt[3], pt[2]] for pt in pts]
            for i in range(len(pref), len(pts)):
                pt = pts[i]
                cost = cost_upto(pts, i)
                for alt in range(1, len(pt[3])):
                    extra = 1 if (pt[0] >= 0 and pt[0] in pt[3]) else 0
                    if cost + extra > bound:
                        continue
                    if split and cost + extra < bound:
                        out["children"].append(ch[:i] + [alt])
                    else:
                        explore(ch[:i] + [alt])
        for pref in prefixes:
            explore(list(pref))
    except Exception:
        out["harness"] = "task %r: %s" % (task, traceback.format_exc())
    out["viol"] = list(out["viol"].values())
    out["outcomes"] = sorted(out["outcomes"])
    return out


def _confirm(task):
    if task[0] == "call":
        _k, nprocs, hist = task
        return _call_task((nprocs, hist, len(hist)))
    _k, name, sched = task
    return _pair_task((name, [sched], 0, True))


# ------------------------------------------------------------------------------------------------
def main(tier):
    rep = Report("C15", tier, "model_checking")
    quick = tier == "quick"
    deadline = time.time() + (900 if quick else 5400)      # (a deadline only matters on a slow or loaded machine: the idle run needs about 150 s)
    ex = Explorer(C15(), variant="ossl-plain")
    found = {}
    complete = True
    cov_a, cov_b, samples_a = [], [], []
    total_nodes = total_sched = total_probes = 0
    try:
        # ---- (a) call granularity
        for nprocs, public, depth, plen in ((2, (), 4, 2), (2, (1,), 4, 2), (3, (), 3, 2)) if quick else ((2, (), 5, 3), (2, (1,), 5, 3), (3, (), 4, 2), (3, (2,), 4, 2)):
            tasks = [([nprocs, list(public)], pre, depth) for pre in call_sequences(nprocs, plen, public)]
            samples_a.append({"processes": nprocs, "not_logged_in": list(public), "depth": depth, "one_explored_prefix": [list(a) for a in tasks[len(tasks) // 2][1]],
                              "continued_with": "every action sequence up to the depth bound, e.g. + " + repr([list(a) for a in actions_for(nprocs, [False] * nprocs, public)[:3]])})
            nodes = probes = 0
            # the nodes on the shared prefixes are re-executed by every task; count distinct sequences instead
            for r in ex.pool.imap_unordered(_call_task, tasks, chunksize=1):
                if r["harness"]:
                    rep.harness_errors.append(r["harness"])
                for v in r["viol"]:
                    found.setdefault(v["signature"], v)
                nodes += r["nodes"]
                probes += r["probes"]
                if time.time() > deadline:
                    complete = False
                    break
            if not complete:
                break
            cov_a.append({"processes": nprocs, "not_logged_in": list(public), "witness": 1, "depth": depth, "call_sequences_executed": nodes, "probe_observations": probes, "tasks": len(tasks)})
            total_nodes += nodes
            total_probes += probes
        # ---- (b) file-operation granularity
        names = sorted(PAIRS)
        per = {n: {"scheduling_points": 0, "preemption_bound": 0, "schedules": 0, "distinct_outcomes": set(), "serial_outcomes": 0} for n in names}

        def absorb(r):
            if r["harness"]:
                rep.harness_errors.append(r["harness"])
            for v in r["viol"]:
                found.setdefault(v["signature"], v)
            pb = per[r["name"]]
            pb["schedules"] += r["schedules"]
            pb["distinct_outcomes"].update(r["outcomes"])
            pb["serial_outcomes"] = max(pb["serial_outcomes"], r["serial"])
        wave = []
        if complete:
            roots = ex.pool.map(_pair_task, [(n, [[]], 9, True) for n in names], chunksize=1)
            for n, r in zip(names, roots):
                pts = r.get("root_points") or []
                npts, budget = max(len(pts), 1), (700 if quick else 120000)
                bound = 1
                for b, est in ((2, 0.5 * npts ** 2), (3, 0.17 * npts ** 3)):
                    if est <= budget:
                        bound = b
                per[n].update(scheduling_points=len(pts), preemption_bound=bound, first_points=[p[2] for p in pts[:6]])
                absorb(r)
                for c in r["children"]:
                    wave.append((n, c))
        while wave and complete:
            by = {}
            for n, c in wave:
                by.setdefault(n, []).append(c)
            jobs = []
            for n, cs in by.items():
                k = max(1, min(4, len(cs) // (ex.workers * 4)))
                for i in range(0, len(cs), k):
                    jobs.append((n, cs[i:i + k], per[n]["preemption_bound"], True))
            wave = []
            for r in ex.pool.imap_unordered(_pair_task, jobs, chunksize=1):
                absorb(r)
                for c in r["children"]:
                    wave.append((r["name"], c))
                if time.time() > deadline:
                    complete = False
                    break
        if not complete:
            import multiprocessing as mp
            ex.pool.terminate(); ex.pool.join()
            ex.pool = mp.get_context("fork").Pool(ex.workers, core._worker_init, (ex.check, ex.variant, ex.store, ex.template, ex.base_root))
        for n in names:
            cov_b.append(dict(pair=n, scheduling_points=per[n]["scheduling_points"], preemption_bound=per[n]["preemption_bound"], schedules=per[n]["schedules"],
                              distinct_outcomes=len(per[n]["distinct_outcomes"]), serial_outcomes=per[n]["serial_outcomes"], first_points=per[n].get("first_points")))
            total_sched += per[n]["schedules"]
        # ---- replay before report
        todo = sorted(found.items())
        res = ex.pool.map(_confirm, [v["task"] for s, v in todo], chunksize=1)
        for (sig, v), r in zip(todo, res):
            if any(x["signature"] == sig for x in r["viol"]):
                v = dict(v); v.update(variant="ossl-plain", store="file", replay_module="c15_procs")
                rep.add_violation(v)
            else:
                rep.harness_errors.append("violation %s did not reproduce on replay (got %r)" % (sig, [x["signature"] for x in r["viol"]][:4]))
    finally:
        ex.close()
    if total_nodes < 100 or (complete and total_sched < 20):
        rep.harness_errors.append("vacuous: %d call sequences, %d schedules" % (total_nodes, total_sched))
    rep.coverage = {"states": total_nodes + total_sched, "transitions": total_nodes + total_probes + total_sched, "traces_validated_against_impl": total_nodes + total_sched,
                    "samples": samples_a[:3] + [{"pair": c["pair"], "first_scheduling_points_of_the_default_schedule": c.get("first_points"), "example_schedule": [0] * 5 + [1]} for c in cov_b[:3]],
                    "exhaustive": complete, "call_granularity": cov_a, "file_operation_granularity": cov_b, "variant": "ossl-plain",
                    "rule": "states = call sequences executed on real processes (part a: every sequence up to the stated depth, each followed by a probe of every process and of a silent witness) "
                            "+ syscall-level schedules executed (part b: every schedule with at most the stated number of preemptions); nothing is merged"}
    rep.assumptions = ["file store; processes are p11sh instances of the same build; part (b) controls file-system syscalls on the shared directory only (fcntl lock waits are modelled as blocking)",
                       "part (b): two writers, one call each; > bound preemptions not explored"]
    return rep.finish()


def replay(rec):
    import sys
    sys.path.insert(0, P.VERIF + "/tools")
    import build_sut
    build_sut.build("ossl-plain")
    build_sut.build_fsx()
    check = C15()
    root = P.scratch_root()
    try:
        template = core.build_template(check, "ossl-plain", "file", root)
        core._worker_init(check, "ossl-plain", "file", template, root)
        r = _confirm(rec["task"])
        core._W["ctx"].stop_shell()
        sigs = [v["signature"] for v in r["viol"]]
        print("task:", json.dumps(rec["task"])[:300], "\nrecorded:", rec["signature"], "\nobserved:", sigs[:10])
        if rec["signature"] in sigs:
            print("VIOLATION property=C15 replay=%s" % sys.argv[1])
            return 1
        return 0
    finally:
        shutil.rmtree(root, ignore_errors=True)
