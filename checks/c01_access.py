"""C01 - private objects are unreachable unless the normal user is logged in (DESIGN.md 3/C01).

Set-up creates the object grid (9 classes x token/session x private/public) on token A through a user RW session and
remembers every handle.  BFS over login/session histories; in EVERY distinct state the probe matrix runs:
every open session x every handle ever issued (and every handle C_FindObjects returns now) x every entry point that
takes an object handle, the three searches, and the creators with CKA_PRIVATE=true.  Oracle (only-if, from the
statement): a forbidden cell must not return CKR_OK, must not yield a handle, and must not put attribute bytes of the
object into an output buffer; token objects are not created/changed/destroyed through RO sessions.
"""
import time
from p11mc import consts as C
from p11mc.core import CheckBase, Explorer, Violation, confirm_violations
from p11mc.runner import Report
from p11mc import world as W, fixtures as F
from p11mc.p11 import Out, tpl, mech, blob, ul, keyderiv_string, ecdh_params

PUBLIC, USER, SO = 0, 1, 2
STATE_NAMES = {0: "RO_PUBLIC", 1: "RO_USER", 2: "RW_PUBLIC", 3: "RW_USER", 4: "RW_SO"}

USAGE = {C.CKO_SECRET_KEY: [C.CKA_ENCRYPT, C.CKA_DECRYPT, C.CKA_SIGN, C.CKA_VERIFY, C.CKA_WRAP, C.CKA_UNWRAP, C.CKA_DERIVE],
         C.CKO_PUBLIC_KEY: [C.CKA_ENCRYPT, C.CKA_VERIFY, C.CKA_WRAP],
         C.CKO_PRIVATE_KEY: [C.CKA_DECRYPT, C.CKA_SIGN, C.CKA_UNWRAP, C.CKA_DERIVE]}
READ_ATTR = {"data": C.CKA_VALUE, "cert": C.CKA_VALUE, "aes128": C.CKA_VALUE, "generic32": C.CKA_VALUE, "rsa1024_pub": C.CKA_MODULUS,
             "ec256_pub": C.CKA_EC_POINT, "rsa1024_priv": C.CKA_PRIVATE_EXPONENT, "ec256_priv": C.CKA_VALUE, "dsa_params": C.CKA_PRIME}
OP_MECH = {"aes128": mech(C.CKM_AES_ECB), "generic32": mech(C.CKM_SHA256_HMAC), "rsa1024_pub": mech(C.CKM_RSA_PKCS), "rsa1024_priv": mech(C.CKM_RSA_PKCS),
           "ec256_pub": mech(C.CKM_ECDSA), "ec256_priv": mech(C.CKM_ECDSA)}
HELPER_VALUE = bytes(range(0x70, 0x80))


def grid_label(kind, token, private):
    return ("g-%s-%s-%s" % (kind, "tok" if token else "ses", "prv" if private else "pub")).encode()


def grid_template(kind, token, private):
    extra = [(a, True) for a in USAGE.get(F.klass(kind), [])]
    return F.template(kind, token=token, private=private, ident=grid_label(kind, token, private)[:12], label=grid_label(kind, token, private), extra=extra)


class Obj:
    __slots__ = ("kind", "token", "private", "label", "owner", "alive", "secret")

    def __init__(self, kind, token, private, owner):
        self.kind, self.token, self.private, self.owner = kind, token, private, owner
        self.label = grid_label(kind, token, private)
        self.alive = True
        self.secret = dict(F.base(kind)).get(READ_ATTR[kind])


class Model:
    def __init__(self):
        self.login = {"A": USER, "B": PUBLIC}
        self.sess = []           # [h, tok, rw]
        self.objs = {}           # label -> Obj
        self.handles = {}        # every object handle ever seen -> label
        self.meaningful = frozenset()
        self.wrapped_aes = b""
        self.wrapped_rsa = b""
        self.foot = set()        # retiring events the token has been through (close-all / last close); informational


class C01(CheckBase):
    ID = "C01"

    def __init__(self, max_a=3, max_b=1, kinds=None):
        self.kw = dict(max_a=max_a, max_b=max_b, kinds=kinds)
        self.max_per = {"A": max_a, "B": max_b}
        self.kinds = list(kinds or F.NINE)

    def world(self, ctx):
        return W.two_tokens(ctx)

    # ---- the probe lines for one (session, handle, object kind); helper = a public AES session key of that session
    def probe_lines(self, s, h, kind, helper, m):
        L = []
        ra = READ_ATTR[kind]
        L.append(("get-label", "C_GetAttributeValue s=%d o=%d tpl=%s" % (s, h, tpl([(C.CKA_LABEL, Out(48))]))))
        L.append(("get-value", "C_GetAttributeValue s=%d o=%d tpl=%s" % (s, h, tpl([(ra, Out(300))]))))
        L.append(("get-mixed", "C_GetAttributeValue s=%d o=%d tpl=%s" % (s, h, tpl([(C.CKA_CLASS, Out(8)), (ra, Out(300)), (C.CKA_LABEL, Out(48))]))))
        L.append(("get-size", "C_GetObjectSize s=%d o=%d" % (s, h)))
        L.append(("set-label", "C_SetAttributeValue s=%d o=%d tpl=%s" % (s, h, tpl([(C.CKA_LABEL, b"changed-by-probe")]))))
        L.append(("copy", "C_CopyObject s=%d o=%d tpl=%s" % (s, h, tpl([(C.CKA_LABEL, b"copy-by-probe")]))))
        L.append(("copy-session", "C_CopyObject s=%d o=%d tpl=%s" % (s, h, tpl([(C.CKA_TOKEN, False)]))))
        L.append(("copy-token", "C_CopyObject s=%d o=%d tpl=%s" % (s, h, tpl([(C.CKA_TOKEN, True)]))))
        L.append(("copy-public", "C_CopyObject s=%d o=%d tpl=%s" % (s, h, tpl([(C.CKA_PRIVATE, False)]))))
        om = OP_MECH.get(kind, mech(C.CKM_AES_ECB))
        for op in ("Encrypt", "Decrypt", "Sign", "Verify"):
            L.append((op.lower() + "-init", "C_%sInit s=%d mech=%s k=%d" % (op, s, om, h)))
        L.append(("digest-init", "C_DigestInit s=%d mech=%s" % (s, mech(C.CKM_SHA256))))
        L.append(("digest-key", "C_DigestKey s=%d k=%d" % (s, h)))
        wm = mech(C.CKM_RSA_PKCS) if kind.startswith("rsa") else mech(C.CKM_AES_KEY_WRAP)
        if helper:
            L.append(("wrap-with", "C_WrapKey s=%d mech=%s wk=%d k=%d out=b300" % (s, wm, h, helper)))
            L.append(("wrap-it", "C_WrapKey s=%d mech=%s wk=%d k=%d out=b2000" % (s, mech(C.CKM_AES_KEY_WRAP_PAD), helper, h)))
        ut = [(C.CKA_CLASS, C.CKO_SECRET_KEY), (C.CKA_KEY_TYPE, C.CKK_AES), (C.CKA_TOKEN, False), (C.CKA_PRIVATE, False), (C.CKA_SENSITIVE, False), (C.CKA_EXTRACTABLE, True)]
        wblob = m.wrapped_rsa if kind.startswith("rsa") else m.wrapped_aes
        L.append(("unwrap-with", "C_UnwrapKey s=%d mech=%s k=%d in=%s tpl=%s" % (s, wm, h, blob(wblob), tpl(ut))))
        dt = [(C.CKA_CLASS, C.CKO_SECRET_KEY), (C.CKA_KEY_TYPE, C.CKK_GENERIC_SECRET), (C.CKA_TOKEN, False), (C.CKA_PRIVATE, False),
              (C.CKA_SENSITIVE, False), (C.CKA_EXTRACTABLE, True), (C.CKA_VALUE_LEN, 16)]
        if kind == "ec256_priv":
            dm = mech(C.CKM_ECDH1_DERIVE, ecdh_params(F.H(F.KEYS["ec256peer"]["rawpoint"])))
        elif kind == "aes128":
            dm = mech(C.CKM_AES_ECB_ENCRYPT_DATA, keyderiv_string(bytes(16)))
        else:
            dm = mech(C.CKM_CONCATENATE_BASE_AND_DATA, keyderiv_string(b"12345678"))
        L.append(("derive-from", "C_DeriveKey s=%d mech=%s k=%d tpl=%s" % (s, dm, h, tpl(dt))))
        if helper:
            dt2 = [x for x in dt if x[0] != C.CKA_VALUE_LEN]
            L.append(("derive-concat-other", "C_DeriveKey s=%d mech=%s k=%d tpl=%s" % (s, mech(C.CKM_CONCATENATE_BASE_AND_KEY, ul(h)), helper, tpl(dt2))))
        L.append(("destroy", "C_DestroyObject s=%d o=%d" % (s, h)))
        return L

    MUTATING_TOKEN = {"set-label", "destroy"}

    def helper_tpl(self):
        return F.template("aes128", token=False, private=False, label=b"helper",
                          extra=[(a, True) for a in USAGE[C.CKO_SECRET_KEY]])

    def setup(self, ctx, world):
        p = ctx.p
        W.ok(p.Initialize(), "C_Initialize")
        m = Model()
        s0 = W.ok(p.OpenSession(world["slots"]["A"]), "open")["h"]
        W.ok(p.Login(s0, C.CKU_USER, W.USER_A), "login")
        m.sess.append([s0, "A", 1])
        for kind in self.kinds:
            for token in (1, 0):
                for private in (1, 0):
                    r = W.ok(p.CreateObject(s0, grid_template(kind, token, private)), "create %s" % kind)
                    o = Obj(kind, bool(token), bool(private), s0)
                    m.objs[o.label] = o
                    m.handles[r["h"]] = o.label
        # blobs for the unwrap probes (well-formedness only): wrap a helper key under the grid's own keys
        hk = W.ok(p.CreateObject(s0, self.helper_tpl()), "helper")["h"]
        inv = {v: k for k, v in m.handles.items()}
        if "aes128" in self.kinds:
            r = W.ok(p.WrapKey(s0, mech(C.CKM_AES_KEY_WRAP), inv[grid_label("aes128", 1, 1)], hk, Out(64)), "wrap aes")
            m.wrapped_aes = bytes.fromhex(r["out"])[:r["len"]]
        if "rsa1024_pub" in self.kinds:
            r = W.ok(p.WrapKey(s0, mech(C.CKM_RSA_PKCS), inv[grid_label("rsa1024_pub", 1, 1)], hk, Out(128)), "wrap rsa")
            m.wrapped_rsa = bytes.fromhex(r["out"])[:r["len"]]
        # calibration: which (kind, probe) cells succeed when access is permitted (user RW session, private token object)
        mean = set()
        for kind in self.kinds:
            h = inv[grid_label(kind, 1, 1)]
            for name, line in self.probe_lines(s0, h, kind, hk, m):
                if name == "digest-init":
                    continue
                ctx.sh.snap(copy=True)
                try:
                    if name == "digest-key":
                        p.call("C_DigestInit s=%d mech=%s" % (s0, mech(C.CKM_SHA256)))
                    r = p.call(line)
                    if r["rv"] == 0:
                        mean.add((kind, name))
                finally:
                    ctx.sh.unwind(0)
        m.meaningful = frozenset(mean)
        W.ok(p.DestroyObject(s0, hk), "destroy helper")
        return m

    # ---- alphabet
    def actions(self, m):
        acts = []
        for t in ("A", "B"):
            if sum(1 for s in m.sess if s[1] == t) < self.max_per[t]:
                acts.append(("open", t, 1))
                if m.login[t] != SO:
                    acts.append(("open", t, 0))
        for i in range(len(m.sess)):
            acts.append(("close", i))
        if any(s[1] == "A" for s in m.sess):
            acts.append(("closeall", "A"))
        for i, (h, t, rw) in enumerate(m.sess):
            if m.login[t] == PUBLIC:
                acts.append(("login", i, C.CKU_USER))
                # (also while a read-only session exists: the library must refuse that; if it does not, the model follows the library and the probe
                # matrix judges what the read-only session can then do to token objects)
                acts.append(("login", i, C.CKU_SO))
            else:
                acts.append(("logout", i))
        # calls that handle PINs but must NOT change who is logged in (the model state stays the same; the probe matrix runs after them like after every call)
        for i in sorted({0, len(m.sess) - 1} if m.sess else ()):
            for what in ("setpin-same", "setpin-wrong-old", "login-wrong-pin", "login-context-specific"):
                acts.append(("pincall", i, what))
        return acts

    def step(self, ctx, m, a):
        p = ctx.p
        slots = ctx.world["slots"]
        k = a[0]
        if k == "open":
            r = p.OpenSession(slots[a[1]], W.RW if a[2] else W.RO)
            if r["rv"] == 0:
                m.sess.append([r["h"], a[1], a[2]])
        elif k == "close":
            h, t, rw = m.sess[a[1]]
            if p.CloseSession(h)["rv"] == 0:
                del m.sess[a[1]]
                for o in m.objs.values():
                    if not o.token and o.owner == h:
                        o.alive = False
                if not any(s[1] == t for s in m.sess):
                    m.login[t] = PUBLIC
                    m.foot.add(("last-close", t))
        elif k == "closeall":
            t = a[1]
            if p.CloseAllSessions(slots[t])["rv"] == 0:
                m.sess = [s for s in m.sess if s[1] != t]
                m.login[t] = PUBLIC
                m.foot.add(("close-all", t))
                if t == "A":
                    for o in m.objs.values():
                        if not o.token:
                            o.alive = False
        elif k == "login":
            h, t, rw = m.sess[a[1]]
            pin = {("A", C.CKU_USER): W.USER_A, ("A", C.CKU_SO): W.SO_A, ("B", C.CKU_USER): W.USER_B, ("B", C.CKU_SO): W.SO_B}[(t, a[2])]
            if p.Login(h, a[2], pin)["rv"] == 0:
                m.login[t] = USER if a[2] == C.CKU_USER else SO
        elif k == "pincall":
            h, t, rw = m.sess[a[1]]
            cur = {("A", PUBLIC): W.USER_A, ("A", USER): W.USER_A, ("A", SO): W.SO_A, ("B", PUBLIC): W.USER_B, ("B", USER): W.USER_B, ("B", SO): W.SO_B}[(t, m.login[t])]
            if a[2] == "setpin-same":
                p.SetPIN(h, cur, cur)                   # "verify a PIN without logging in": allowed in RW sessions, changes nothing
            elif a[2] == "setpin-wrong-old":
                p.SetPIN(h, W.WRONG, cur)
            elif a[2] == "login-wrong-pin":
                p.Login(h, C.CKU_USER, W.WRONG)
            else:
                p.Login(h, C.CKU_CONTEXT_SPECIFIC, cur)
        elif k == "logout":
            h, t, rw = m.sess[a[1]]
            if p.Logout(h)["rv"] == 0:
                m.login[t] = PUBLIC
                if t == "A":
                    for o in m.objs.values():
                        if not o.token and o.private:
                            o.alive = False
        return m

    # ---- the probe matrix
    def scan_leak(self, r, o):
        """does any output of answer r contain an 8-byte window of the object's value/label?"""
        outs = []
        if "out" in r:
            outs.append(r["out"])
        for a in r.get("attrs", []) or []:
            if isinstance(a[2], str):
                outs.append(a[2])
        if not outs:
            return False
        needles = [o.label[:8].hex()]
        if isinstance(o.secret, (bytes, bytearray)) and len(o.secret) >= 8:
            sec = bytes(o.secret)
            needles += [sec[i:i + 8].hex() for i in range(0, len(sec) - 7, 4)]
        for x in outs:
            for n in needles:
                if n in x:
                    return True
        return False

    def probe(self, ctx, m):
        p = ctx.p
        sessions = [tuple(x) for x in m.sess]
        # sessions opened NOW (hidden login state of a token, e.g. after its last session was closed, is only visible this way);
        # the whole probe runs inside the state's snapshot, so they disappear with it
        for t in ("A", "B"):
            for rw in (1, 0):
                if rw == 0 and m.login[t] == SO:
                    continue
                r = p.OpenSession(ctx.world["slots"][t], W.RW if rw else W.RO)
                if r["rv"] == 0:
                    sessions.append((r["h"], t, rw))
                    ctx.count("fresh_sessions_probed")
        default_done = set()
        for (s, t, rw) in sessions:
            user_here = m.login[t] == USER
            user_on_a = m.login["A"] == USER
            state = p.GetSessionInfo(s).get("state", -1)
            sname = STATE_NAMES.get(state, str(state))
            # 1. searches: what does this session see right now?
            seen = {}
            if t == "A":
                finds = [("find-all", [])] + [("find-class", [(C.CKA_CLASS, c)]) for c in sorted({F.klass(k) for k in self.kinds})]
                finds += [("find-label", [(C.CKA_LABEL, o.label)]) for o in m.objs.values() if o.private and o.alive]
            else:
                finds = [("find-all", [])]
            for fname, ft in finds:
                r = p.FindAll(s, ft)
                for h in r.get("hs", []):
                    lab = m.handles.get(h)
                    if lab is None:
                        rv, got = p.get_attr(s, h, C.CKA_LABEL)
                        if rv != 0 or got not in m.objs:
                            if t == "A" and not user_here:
                                raise Violation("C01|%s|%s|returned-unidentifiable-object" % (fname, sname), {"handle": h, "rv": rv, "label": got})
                            continue
                        lab = got
                    o = m.objs[lab]
                    seen[h] = lab
                    if t != "A":
                        raise Violation("C01|%s|object-of-other-token-returned" % fname, {"label": lab})
                    if o.private and not user_here:
                        ctx.report("C01|%s|%s|private-object-found|%s" % (fname, sname, "token" if o.token else "session"), {"label": lab, "handle": h})
                    ctx.count("found_private_permitted" if o.private else "found_public")
            # 2. handle-taking entry points: every handle ever issued plus those just found
            allh = dict(m.handles)
            allh.update(seen)
            r = p.CreateObject(s, self.helper_tpl())
            helper = r["h"] if r["rv"] == 0 else 0
            lines, plan = [], []
            for h, lab in sorted(allh.items()):
                o = m.objs[lab]
                forbidden_read = o.private and not (user_here and user_on_a)
                ro_token = o.token and not rw
                if not forbidden_read and not ro_token:
                    continue
                for name, line in self.probe_lines(s, h, o.kind, helper, m):
                    must_fail = forbidden_read
                    if not must_fail and ro_token and (name in self.MUTATING_TOKEN or name in ("copy", "copy-token")):
                        must_fail = True      # token objects are created/changed/destroyed only through RW sessions
                    if ro_token and not forbidden_read and name in ("copy-session", "copy-public"):
                        must_fail = False
                    if not must_fail and name not in ("digest-init",):
                        continue
                    lines.append(line)
                    plan.append((name, h, o, must_fail and name != "digest-init", forbidden_read))
            if lines:
                rs = p.batch(lines)
                for r, (name, h, o, must_fail, fr) in zip(rs, plan):
                    if not must_fail:
                        continue
                    ctx.count("forbidden_probes")
                    if (o.kind, name) in m.meaningful:
                        ctx.count("forbidden_probes_meaningful")
                    cross = t != "A"
                    why = "private" if fr else "ro-token-write"
                    if name == "get-size":
                        if r["rv"] == 0 and r.get("size", -1) != -1:
                            raise Violation("C01|get-size|%s|size-revealed|%s" % (sname, o.kind), {"label": o.label, "size": r.get("size")})
                        continue
                    if r["rv"] == 0 or r.get("h", 0) != 0:
                        ctx.report("C01|%s|%s|%s|%s|%s%s" % (name, sname, why, o.kind, "token" if o.token else "session", "|cross-token" if cross else ""),
                                        {"label": o.label, "handle": h, "rv": r["rv"], "session": s})
                    if fr and self.scan_leak(r, o):
                        raise Violation("C01|%s|%s|attribute-bytes-leaked|%s" % (name, sname, o.kind), {"label": o.label, "answer": r})
            # 3. creators with CKA_PRIVATE=true where the user is not logged in; token objects through RO sessions
            clines, cplan = [], []
            for private, token in ((1, 0), (1, 1), (0, 1)):
                if private and user_here:
                    continue
                if not private and (rw or not token):
                    continue
                tag = ("private" if private else "public") + ("-token" if token else "-session")
                flags = [(C.CKA_TOKEN, bool(token)), (C.CKA_PRIVATE, bool(private))]
                clines.append("C_CreateObject s=%d tpl=%s" % (s, tpl(F.template("data", token=token, private=private, label=b"probe-created"))))
                cplan.append(("create-data", tag))
                clines.append("C_CreateObject s=%d tpl=%s" % (s, tpl(F.template("aes128", token=token, private=private, label=b"probe-created"))))
                cplan.append(("create-aes", tag))
                gt = [(C.CKA_CLASS, C.CKO_SECRET_KEY), (C.CKA_KEY_TYPE, C.CKK_AES), (C.CKA_VALUE_LEN, 16), (C.CKA_LABEL, b"probe-created")] + flags
                clines.append("C_GenerateKey s=%d mech=%s tpl=%s" % (s, mech(C.CKM_AES_KEY_GEN), tpl(gt)))
                cplan.append(("generate-key", tag))
                ec = F.H(F.KEYS["ec256"]["params"])
                clines.append("C_GenerateKeyPair s=%d mech=%s pub=%s priv=%s" % (s, mech(C.CKM_EC_KEY_PAIR_GEN),
                              tpl([(C.CKA_EC_PARAMS, ec), (C.CKA_TOKEN, bool(token)), (C.CKA_PRIVATE, False)]), tpl(flags + [(C.CKA_LABEL, b"probe-created")])))
                cplan.append(("generate-pair-priv", tag))
                clines.append("C_GenerateKeyPair s=%d mech=%s pub=%s priv=%s" % (s, mech(C.CKM_EC_KEY_PAIR_GEN),
                              tpl([(C.CKA_EC_PARAMS, ec)] + flags), tpl([(C.CKA_TOKEN, bool(token)), (C.CKA_PRIVATE, False)])))
                cplan.append(("generate-pair-pub", tag))
                if helper:
                    ut = [(C.CKA_CLASS, C.CKO_SECRET_KEY), (C.CKA_KEY_TYPE, C.CKK_AES), (C.CKA_LABEL, b"probe-created")] + flags
                    clines.append("C_UnwrapKey s=%d mech=%s k=%d in=%s tpl=%s" % (s, mech(C.CKM_AES_KEY_WRAP), helper, blob(self.helper_blob(ctx, p, s, helper)), tpl(ut)))
                    cplan.append(("unwrap", tag))
                    dt = [(C.CKA_CLASS, C.CKO_SECRET_KEY), (C.CKA_KEY_TYPE, C.CKK_GENERIC_SECRET), (C.CKA_VALUE_LEN, 16), (C.CKA_LABEL, b"probe-created")] + flags
                    clines.append("C_DeriveKey s=%d mech=%s k=%d tpl=%s" % (s, mech(C.CKM_AES_ECB_ENCRYPT_DATA, keyderiv_string(bytes(16))), helper, tpl(dt)))
                    cplan.append(("derive", tag))
                    clines.append("C_CopyObject s=%d o=%d tpl=%s" % (s, helper, tpl(flags)))
                    cplan.append(("copy-upgrade", tag))
            if clines:
                rs = p.batch(clines)
                for r, (name, tag) in zip(rs, cplan):
                    ctx.count("creator_probes")
                    if r["rv"] == 0 or r.get("h", 0) or r.get("hpub", 0) or r.get("hpriv", 0):
                        ctx.report("C01|%s|%s|%s-object-created" % (name, sname, tag), {"answer": r, "session": s})
                # nothing may have appeared
                r = p.FindAll(s, [(C.CKA_LABEL, b"probe-created")])
                if r.get("hs"):
                    raise Violation("C01|creators|%s|object-left-behind-by-refused-creation" % sname, {"handles": r["hs"]})
            # 4. creators that do NOT name CKA_PRIVATE: whatever the class's default is, a session without user login must not end up having created a private
            #    object (the object the call made is read back through the creating session: CKA_PRIVATE must be readable there and false)
            if not user_here and (sname, t) not in default_done:
                default_done.add((sname, t))      # once per kind of session and token in this state
                dlines, dplan = [], []
                for kind in F.NINE + ["dh_params"]:
                    for token in ((0, 1) if rw else (0,)):
                        T = [x for x in F.template(kind, token=bool(token), private=False, label=b"probe-default") if x[0] != C.CKA_PRIVATE]
                        dlines.append("C_CreateObject s=%d tpl=%s" % (s, tpl(T)))
                        dplan.append(("create-default-privacy", kind, token))
                for token in ((0, 1) if rw else (0,)):
                    dlines.append("C_GenerateKey s=%d mech=%s tpl=%s" % (s, mech(C.CKM_AES_KEY_GEN), tpl([(C.CKA_VALUE_LEN, 16), (C.CKA_TOKEN, bool(token)), (C.CKA_LABEL, b"probe-default")])))
                    dplan.append(("generate-default-privacy", "aes", token))
                    ec = F.H(F.KEYS["ec256"]["params"])
                    dlines.append("C_GenerateKeyPair s=%d mech=%s pub=%s priv=%s" % (s, mech(C.CKM_EC_KEY_PAIR_GEN), tpl([(C.CKA_EC_PARAMS, ec), (C.CKA_TOKEN, bool(token))]),
                                                                                       tpl([(C.CKA_TOKEN, bool(token)), (C.CKA_LABEL, b"probe-default")])))
                    dplan.append(("generate-pair-default-privacy", "ec", token))
                d1 = ctx.sh.depth
                ctx.sh.snap(copy=bool(rw))       # token objects are created only through read-write sessions: only then a private copy of the directory is needed
                try:
                    for r, (name, kind, token) in zip(p.batch(dlines), dplan):
                        ctx.count("default_privacy_creator_probes")
                        for hk in ("h", "hpub", "hpriv"):
                            hh = r.get(hk, 0)
                            if r["rv"] != 0 or not hh:
                                continue
                            ctx.count("default_privacy_objects_created")
                            rv, v = p.get_attr(s, hh, C.CKA_PRIVATE)
                            if rv != 0 or v not in (False, b"\x00"):
                                ctx.report("C01|%s|%s|%s|%s|object-created-without-login-is-private" % (name, sname, kind + ("-" + hk if hk != "h" else ""), "token" if token else "session"),
                                           {"rv_reading_CKA_PRIVATE": rv, "CKA_PRIVATE": v, "session": s})
                finally:
                    ctx.sh.unwind(d1)
            if helper:
                p.DestroyObject(s, helper)
        ctx.count("states_probed")

    def helper_blob(self, ctx, p, s, helper):
        r = p.WrapKey(s, mech(C.CKM_AES_KEY_WRAP), helper, helper, Out(64))
        return bytes.fromhex(r.get("out", ""))[:r.get("len", 0)] if r["rv"] == 0 else bytes(24)

    def key(self, ctx, m):
        return (tuple(sorted(m.login.items())), tuple((t, rw) for h, t, rw in m.sess), frozenset(l for l, o in m.objs.items() if o.alive))

    def died_sig(self, action, d):
        return "C01|%s|%r" % (action[0] if action else None, d.info)


class C01Core(CheckBase):
    """UNMERGED enumeration of every sequence over a core alphabet of session/login calls on token A (and one session on B), with a light oracle: after every call a
    freshly opened session on A finds the private token object iff the model says the user is logged in.  No state merging, so login state the library keeps in
    tables, counters or caches that the canonical key of the big search cannot see (left behind by close-all / last close / logout in any order) cannot hide."""
    ID = "C01"

    def __init__(self):
        self.kw = {}

    def world(self, ctx):
        return W.two_tokens(ctx)

    def setup(self, ctx, world):
        p = ctx.p
        W.ok(p.Initialize(), "init")
        s = W.ok(p.OpenSession(world["slots"]["A"]), "open")["h"]
        W.ok(p.Login(s, C.CKU_USER, W.USER_A), "login")
        W.ok(p.CreateObject(s, F.template("aes128", token=True, private=True, label=b"core-private")), "create")
        W.ok(p.CreateObject(s, F.template("data", token=True, private=False, label=b"core-public")), "create")
        W.ok(p.CloseSession(s), "close")
        m = Model()
        m.login = {"A": PUBLIC, "B": PUBLIC}
        return m

    def actions(self, m):
        acts = []
        na = sum(1 for s in m.sess if s[1] == "A")
        if na < 2:
            acts.append(("open", "A", 1))
            if m.login["A"] != SO:
                acts.append(("open", "A", 0))
        if not any(s[1] == "B" for s in m.sess):
            acts.append(("open", "B", 1))
        n = len(m.sess)
        for i in sorted({0, n - 1} if n else ()):
            acts.append(("close", i))
        acts.append(("closeall", "A"))
        acts.append(("closeall", "B"))
        ia = [i for i, s in enumerate(m.sess) if s[1] == "A"]
        if ia:
            acts.append(("login", ia[-1], C.CKU_USER))
            acts.append(("logout", ia[-1]))
        return acts

    def step(self, ctx, m, a):
        p, slots = ctx.p, ctx.world["slots"]
        k = a[0]
        if k == "open":
            r = p.OpenSession(slots[a[1]], W.RW if a[2] else W.RO)
            if r["rv"] == 0:
                m.sess.append([r["h"], a[1], a[2]])
        elif k == "close":
            h, t, rw = m.sess[a[1]]
            if p.CloseSession(h)["rv"] == 0:
                del m.sess[a[1]]
                if not any(s[1] == t for s in m.sess):
                    m.login[t] = PUBLIC
        elif k == "closeall":
            if p.CloseAllSessions(slots[a[1]])["rv"] == 0:
                m.sess = [s for s in m.sess if s[1] != a[1]]
                m.login[a[1]] = PUBLIC
        elif k == "login":
            h, t, rw = m.sess[a[1]]
            if p.Login(h, a[2], W.USER_A)["rv"] == 0:
                m.login[t] = USER
        elif k == "logout":
            h, t, rw = m.sess[a[1]]
            if p.Logout(h)["rv"] == 0:
                m.login[t] = PUBLIC
        # oracle: what does a session opened NOW on A reach?
        d0 = ctx.sh.depth
        ctx.sh.snap(copy=False)
        try:
            r = p.OpenSession(slots["A"], W.RW)
            if r["rv"] == 0:
                hs = p.FindAll(r["h"], [(C.CKA_LABEL, b"core-private")]).get("hs", [])
                ctx.count("core_fresh_session_searches")
                if hs and m.login["A"] != USER:
                    raise Violation("C01|core-sequences|%s|fresh-session-finds-private-object-although-nobody-is-logged-in" % k, {"action": a, "model_login": m.login["A"]})
                if hs:
                    ctx.count("core_private_found_while_logged_in")
                if len(p.FindAll(r["h"], [(C.CKA_LABEL, b"core-public")]).get("hs", [])) != 1:
                    raise Violation("C01|core-sequences|%s|public-object-not-found" % k, {"action": a})
        finally:
            ctx.sh.unwind(d0)
        return m

    def key(self, ctx, m):
        return (tuple(sorted(m.login.items())), tuple((t, rw) for h, t, rw in m.sess))

    def died_sig(self, action, d):
        return "C01|core|%s|%r" % (action[0] if action else None, d.info)


def main(tier):
    rep = Report("C01", tier, "model_checking")
    quick = tier == "quick"
    variant = "ossl-asan" if quick else "ossl-plain"
    deadline = time.time() + (1200 if quick else 2400)
    cfgs = [("<=2 sessions on A, 1 on B; 9 object classes", dict(max_a=2, max_b=1), 30, 0)] if quick else \
           [("<=3 sessions on A, 1 on B; 9 object classes", dict(max_a=3, max_b=1), 40, 4)]
    runs, samples, counters = [], [], {}
    tot = dict(states=0, transitions=0, traces=0)
    exhaustive = True
    for title, kw, maxd, dfsd in cfgs:
        ex = Explorer(C01(**kw), variant=variant, deadline=deadline)
        try:
            fix = ex.bfs(maxd)
            dfs_ok = ex.dfs(dfsd) if dfsd and not ex._timeup() else (dfsd == 0)
            confirm_violations(ex, rep)
            st = ex.stats
            runs.append({"config": title, "variant": variant, "states": st["states"], "transitions": st["transitions"], "fixpoint": fix,
                         "depth_completed": st["depth_completed"], "levels": st["levels"],
                         "unmerged_depth": st["dfs_depth"], "unmerged_paths": st["dfs_paths"], "unmerged_transitions": st["dfs_transitions"]})
            tot["states"] += st["states"]
            tot["transitions"] += st["transitions"] + st["dfs_transitions"]
            tot["traces"] += st["states"] + st["dfs_paths"]
            for k, v in st["counters"].items():
                counters[k] = counters.get(k, 0) + v
            samples += ex.samples[:3]
            exhaustive = exhaustive and fix and dfs_ok
        finally:
            ex.close()
    # unmerged enumeration over the core alphabet (light oracle: what a freshly opened session finds)
    core_depth = 5 if quick else 6
    exc = Explorer(C01Core(), variant=variant, deadline=deadline + 300)
    try:
        core_ok = exc.dfs(core_depth)
        confirm_violations(exc, rep)
        st = exc.stats
        runs.append({"config": "core alphabet (open rw/ro on A, open on B, close oldest/newest, close-all A/B, user login, logout), no merging", "variant": variant,
                     "unmerged_depth": core_depth, "unmerged_paths": st["dfs_paths"], "unmerged_transitions": st["dfs_transitions"], "complete": bool(core_ok), "counters": st["counters"]})
        tot["transitions"] += st["dfs_transitions"]
        tot["traces"] += st["dfs_paths"]
        exhaustive = exhaustive and bool(core_ok)
        if core_ok and not st["counters"].get("core_private_found_while_logged_in"):
            rep.harness_errors.append("vacuous core enumeration: %r" % st["counters"])
    finally:
        exc.close()
    if not counters.get("forbidden_probes_meaningful") or not counters.get("found_private_permitted") or not counters.get("creator_probes"):
        rep.harness_errors.append("vacuous: %r" % counters)
    rep.coverage = {"states": tot["states"], "transitions": tot["transitions"], "traces_validated_against_impl": tot["traces"],
                    "samples": samples, "exhaustive": exhaustive, "runs": runs, "outcome_counters": counters,
                    "rule": "BFS to fixpoint over login/session histories (key: login per token, ordered session list, live grid objects); in every "
                            "state the probe matrix (sessions x handles x ~24 entry points + searches + creators) is executed; a probe is "
                            "'meaningful' when the same call succeeded in the calibration state where access is permitted"}
    rep.assumptions = ["session bound as listed; object classes: data, X.509 certificate, AES, generic secret, RSA/EC public and private, DSA domain parameters",
                       "leak scan looks for 8-byte windows of the object's label and of its main value attribute"]
    return rep.finish()
