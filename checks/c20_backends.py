"""C20 - behaviour does not depend on the storage backend or the crypto backend (DESIGN.md 3/C20).

Differential (translation-validation style) explorer: every program of the enumerated family is executed step by step in four
configurations - {file, SQLite} x {OpenSSL, Botan} - built from the same working tree, in lock-step, and the traces must be
identical: return code of every step, complete attribute snapshot of all objects after every step (and after a restart),
byte-identical outputs of deterministic mechanisms.  Outputs of randomised mechanisms produced under one configuration are
carried to the other crypto backend and must verify / decrypt there.  Programs: (i) all action sequences up to depth 2 (quick) /
3 (thorough) over an alphabet of object-management, failing-call, search, attribute and restart actions, (ii) the keyed-operation
decision matrix (operation x key kind x flag variant x every mechanism both backends advertise), (iii) the deterministic crypto grid.
Mechanisms, key sizes and curves are first intersected over C_GetMechanismList / C_GetMechanismInfo of both crypto backends.
"""
import hashlib, itertools, multiprocessing as mp, os, shutil, time, traceback
from p11mc import consts as C
from p11mc.core import Ctx, Died
from p11mc.runner import Report
from p11mc import world as W, fixtures as F, snapshot as S, p11 as P
from p11mc.p11 import Out, Null, tpl, mech, blob, ul, mechlist, gcm_params, ctr_params, oaep_params, pss_params, ecdh_params, keyderiv_string

LANES = [("file", "ossl-plain"), ("db", "ossl-plain"), ("file", "botan-plain"), ("db", "botan-plain")]
IV16, IV8 = bytes(range(16)), bytes(range(8))
RANDOM_ATTRS = set()        # nothing random: all key material is imported


def lane_name(l):
    return "%s+%s" % (l[0], l[1].split("-")[0])


# ------------------------------------------------------------------------------------------------
# the action language (interpreted identically in every lane)
KIND_T = {
    "data": lambda tok, prv, lab: F.template("data", token=tok, private=prv, label=lab),
    "aes": lambda tok, prv, lab: F.template("aes128", token=tok, private=prv, label=lab, ident=b"id-" + lab, extra=[(a, True) for a in (C.CKA_ENCRYPT, C.CKA_DECRYPT, C.CKA_WRAP, C.CKA_UNWRAP, C.CKA_DERIVE, C.CKA_SIGN, C.CKA_VERIFY)]),
    "aes-rich": lambda tok, prv, lab: F.template("aes256", token=tok, private=prv, label=lab, ident=b"rich", extra=[(C.CKA_START_DATE, b"20260926"), (C.CKA_ALLOWED_MECHANISMS, mechlist([C.CKM_AES_CBC, C.CKM_AES_ECB, C.CKM_AES_CBC_PAD])),
                                             (C.CKA_WRAP_TEMPLATE, [(C.CKA_ENCRYPT, True), (C.CKA_LABEL, b"inner")]), (C.CKA_UNWRAP_TEMPLATE, [(C.CKA_SENSITIVE, False), (C.CKA_ID, b"inner-id")])]),
    # templates whose highest-typed entry is a byte string / a mechanism set / a ulong (every nested value kind in the last position)
    "aes-tpl2": lambda tok, prv, lab: F.template("aes128", token=tok, private=prv, label=lab, ident=b"tpl2", extra=[(C.CKA_WRAP_TEMPLATE, [(C.CKA_LABEL, b"inner-label"), (C.CKA_ID, b"inner-id")]),
                                             (C.CKA_UNWRAP_TEMPLATE, [(C.CKA_CLASS, C.CKO_SECRET_KEY), (C.CKA_LABEL, b"only-bytes")])]),
    "aes-tpl3": lambda tok, prv, lab: F.template("aes128", token=tok, private=prv, label=lab, ident=b"tpl3", extra=[(C.CKA_WRAP_TEMPLATE, [(C.CKA_LABEL, b"x"), (C.CKA_ALLOWED_MECHANISMS, mechlist([C.CKM_AES_CBC, C.CKM_AES_ECB]))]),
                                             (C.CKA_UNWRAP_TEMPLATE, [(C.CKA_ENCRYPT, True), (C.CKA_VALUE_LEN, 16)])]),
    # every "lock" boolean away from its default (an object that may be neither destroyed nor copied) and a caller-supplied CKA_PUBLIC_KEY_INFO
    "aes-locked": lambda tok, prv, lab: F.template("aes128", token=tok, private=prv, label=lab, ident=b"locked", extra=[(C.CKA_DESTROYABLE, False), (C.CKA_COPYABLE, False)]),
    "data-nomod": lambda tok, prv, lab: F.template("data", token=tok, private=prv, label=lab) + [(C.CKA_MODIFIABLE, False)],
    "rsapub-info": lambda tok, prv, lab: F.template("rsa1024_pub", token=tok, private=prv, label=lab, ident=b"id-" + lab, extra=[(C.CKA_VERIFY, True), (C.CKA_PUBLIC_KEY_INFO, bytes.fromhex("3003020101"))]),
    "rsa": lambda tok, prv, lab: F.template("rsa1024_priv", token=tok, private=prv, label=lab, ident=b"id-" + lab, extra=[(C.CKA_SIGN, True), (C.CKA_DECRYPT, True)]),
    "ecpub": lambda tok, prv, lab: F.template("ec256_pub", token=tok, private=prv, label=lab, ident=b"id-" + lab, extra=[(C.CKA_VERIFY, True)]),
    "cert": lambda tok, prv, lab: F.template("cert", token=tok, private=prv, label=lab, ident=b"id-" + lab),
    "generic": lambda tok, prv, lab: F.template("generic32", token=tok, private=prv, label=lab, extra=[(C.CKA_SIGN, True), (C.CKA_VERIFY, True), (C.CKA_DERIVE, True)]),
}
ALPHABET = []
for _k in KIND_T:
    for _tok, _prv in ((1, 1), (1, 0), (0, 0)):
        if _k in ("ecpub", "cert", "generic", "aes-rich", "aes-tpl2", "aes-tpl3", "aes-locked", "data-nomod", "rsapub-info") and (_tok, _prv) != (1, 1):
            continue
        ALPHABET.append(("create", _k, _tok, _prv))
ALPHABET += [("bad-create", b) for b in ("unknown-attr", "no-value", "readonly-local", "badsize-bool", "class-mismatch", "keytype-mismatch", "empty-template", "wrong-value-len")]
ALPHABET += [("copy", 0, x) for x in ("same", "to-session", "private", "public", "sensitive", "label-id")]
ALPHABET += [("set", 0, x) for x in ("label", "label-empty", "label-long", "id", "dates", "sensitive", "unextractable", "extractable-again", "value", "class", "token-flip", "bad-then-good", "good-then-bad", "allowed-mechs", "wrap-template")]
ALPHABET += [("destroy", 0), ("destroy", 1), ("destroy-twice", 0), ("find", "all"), ("find", "class-secret"), ("find", "label-of-0"), ("find", "token-true"), ("find", "private-true"), ("find", "nothing"),
             ("size", 0), ("logout-login",), ("logout-find",), ("restart",), ("so-session",), ("ro-session-create",)]
TOKEN_LEVEL = [("wrong-login",), ("wrong-login-no-recover",), ("wrong-so-login",), ("reinit",), ("restart",), ("so-session",), ("setpin",), ("logout-login",), ("initpin",)]
ALPHABET += [a for a in TOKEN_LEVEL if a not in ALPHABET]
ALPHABET += [("use", 0, x) for x in ("encrypt-cbc-pad", "encrypt-ecb", "sign-hmac", "sign-rsa", "wrap-self", "digest-key", "derive-concat", "derive-ecb-data")]


class Env:
    def __init__(self, p, slot):
        self.p, self.slot = p, slot
        self.s = 0
        self.objs = []       # handles in creation order (0 for failed creations is not recorded)
        self.n = 0


def open_user(env):
    env.s = W.ok(env.p.OpenSession(env.slot), "open")["h"]
    W.ok(env.p.Login(env.s, C.CKU_USER, W.USER_A), "login")


def snapshot(env):
    """digest of everything the user session sees, keyed by label"""
    p = env.p
    hs = sorted(p.FindAll(env.s).get("hs", []))
    rows = S.read_objects(p, env.s, hs)
    out = []
    for h in hs:
        d = dict(rows[h])
        for t in (C.CKA_WRAP_TEMPLATE, C.CKA_UNWRAP_TEMPLATE):
            rv, v = p.get_attr(env.s, h, t)
            d[t] = v if rv == 0 else ("rv", rv)
        out.append(tuple(sorted((t, v if not isinstance(v, list) else tuple(v)) for t, v in d.items())))
    ti = p.GetTokenInfo(env.slot)
    return (("token-flags", ti.get("flags"), W.label_of(ti) if ti["rv"] == 0 else None),) + tuple(sorted(out, key=repr))


def rvn(r):
    return C.CKR_NAMES.get(r["rv"], hex(r["rv"]))


def do(env, a):
    """execute one action; returns the observation (hashable, comparable across lanes)"""
    p, s = env.p, env.s
    k = a[0]
    obj = lambda i: env.objs[i] if i < len(env.objs) else 0
    if k == "create":
        lab = b"o%d" % env.n
        env.n += 1
        r = p.CreateObject(s, KIND_T[a[1]](a[2], a[3], lab))
        if r["rv"] == 0:
            env.objs.append(r["h"])
        return (rvn(r),)
    if k == "bad-create":
        T = KIND_T["aes"](1, 1, b"bad")
        b = a[1]
        if b == "unknown-attr":
            T = T[:3] + [(0x80001234, b"zz")] + T[3:]
        elif b == "no-value":
            T = [x for x in T if x[0] != C.CKA_VALUE]
        elif b == "readonly-local":
            T = T + [(C.CKA_LOCAL, True)]
        elif b == "badsize-bool":
            T = T + [(C.CKA_COPYABLE, ul(1))]
        elif b == "class-mismatch":
            T = [(C.CKA_CLASS, C.CKO_DATA)] + T[1:]
        elif b == "keytype-mismatch":
            T = [x if x[0] != C.CKA_KEY_TYPE else (C.CKA_KEY_TYPE, C.CKK_RSA) for x in T]
        elif b == "empty-template":
            T = []
        elif b == "wrong-value-len":
            T = [x if x[0] != C.CKA_VALUE else (C.CKA_VALUE, bytes(17)) for x in T]
        r = p.CreateObject(s, T)
        if r["rv"] == 0:
            env.objs.append(r["h"])
        return (rvn(r),)
    if k == "copy":
        T = {"same": [(C.CKA_LABEL, b"copy")], "to-session": [(C.CKA_TOKEN, False), (C.CKA_LABEL, b"copy")], "private": [(C.CKA_PRIVATE, True), (C.CKA_LABEL, b"copy")], "public": [(C.CKA_PRIVATE, False), (C.CKA_LABEL, b"copy")],
             "sensitive": [(C.CKA_SENSITIVE, True), (C.CKA_LABEL, b"copy")], "label-id": [(C.CKA_LABEL, b"copy"), (C.CKA_ID, b"copy-id")]}[a[2]]
        r = p.CopyObject(s, obj(a[1]), T)
        if r["rv"] == 0:
            env.objs.append(r["h"])
        return (rvn(r),)
    if k == "set":
        T = {"label": [(C.CKA_LABEL, b"changed")], "label-empty": [(C.CKA_LABEL, b"")], "label-long": [(C.CKA_LABEL, b"L" * 300)], "id": [(C.CKA_ID, b"new-id")],
             "dates": [(C.CKA_START_DATE, b"20300101"), (C.CKA_END_DATE, b"")], "sensitive": [(C.CKA_SENSITIVE, True)], "unextractable": [(C.CKA_EXTRACTABLE, False)], "extractable-again": [(C.CKA_EXTRACTABLE, True)],
             "value": [(C.CKA_VALUE, bytes(16))], "class": [(C.CKA_CLASS, C.CKO_DATA)], "token-flip": [(C.CKA_TOKEN, False)], "bad-then-good": [(0x80001234, b"z"), (C.CKA_LABEL, b"x")],
             "good-then-bad": [(C.CKA_LABEL, b"x"), (C.CKA_LOCAL, True)], "allowed-mechs": [(C.CKA_ALLOWED_MECHANISMS, mechlist([C.CKM_AES_CBC]))], "wrap-template": [(C.CKA_WRAP_TEMPLATE, [(C.CKA_DECRYPT, False)])]}[a[2]]
        r = p.SetAttributeValue(s, obj(a[1]), T)
        return (rvn(r),)
    if k == "destroy":
        return (rvn(p.DestroyObject(s, obj(a[1]))),)
    if k == "destroy-twice":
        return (rvn(p.DestroyObject(s, obj(a[1]))), rvn(p.DestroyObject(s, obj(a[1]))))
    if k == "find":
        T = {"all": [], "class-secret": [(C.CKA_CLASS, C.CKO_SECRET_KEY)], "label-of-0": [(C.CKA_LABEL, b"o0")], "token-true": [(C.CKA_TOKEN, True)], "private-true": [(C.CKA_PRIVATE, True)], "nothing": [(C.CKA_LABEL, b"nope")]}[a[1]]
        r = p.FindAll(s, T)
        labs = []
        for h in r.get("hs", []):
            rv, lab = p.get_attr(s, h, C.CKA_LABEL)
            labs.append(lab)
        return (rvn(r), tuple(sorted(labs, key=repr)))
    if k == "size":
        r = p.GetObjectSize(s, obj(a[1]))
        return (rvn(r), r.get("size"))
    if k == "logout-login":
        return (rvn(p.Logout(s)), rvn(p.Login(s, C.CKU_USER, W.USER_A)))
    if k == "logout-find":
        r1 = p.Logout(s)
        r = p.FindAll(s)
        labs = sorted((p.get_attr(s, h, C.CKA_LABEL)[1] for h in r.get("hs", [])), key=repr)
        r2 = p.Login(s, C.CKU_USER, W.USER_A)
        return (rvn(r1), tuple(labs), rvn(r2))
    if k == "restart":
        r1, r2 = p.Finalize(), p.Initialize()
        env.objs = []
        sm = W.slot_map(p)
        env.slot = sm["A"]
        open_user(env)
        # handles are gone: re-learn them in label order so that later indices mean the same object in every lane
        hs = p.FindAll(env.s).get("hs", [])
        env.objs = [h for lab, h in sorted(((p.get_attr(env.s, h, C.CKA_LABEL)[1], h) for h in hs), key=lambda x: repr(x[0]))]
        return (rvn(r1), rvn(r2))
    if k in ("wrong-login", "wrong-login-no-recover"):
        o = [rvn(p.Logout(s)), rvn(p.Login(s, C.CKU_USER, W.WRONG))]
        if k == "wrong-login":
            o.append(rvn(p.Login(s, C.CKU_USER, W.USER_A)))
        return tuple(o)
    if k == "wrong-so-login":
        return (rvn(p.Logout(s)), rvn(p.Login(s, C.CKU_SO, W.WRONG)), rvn(p.Login(s, C.CKU_USER, W.USER_A)))
    if k == "setpin":
        return (rvn(p.SetPIN(s, W.USER_A, b"another-pin-20")), rvn(p.SetPIN(s, b"another-pin-20", W.USER_A)), rvn(p.SetPIN(s, W.WRONG, b"x-pin-xxxx")))
    if k == "initpin":
        s2 = W.ok(p.OpenSession(env.slot), "open")["h"]
        o = (rvn(p.Logout(s)), rvn(p.Login(s2, C.CKU_SO, W.SO_A)), rvn(p.InitPIN(s2, W.USER_A)), rvn(p.Logout(s2)), rvn(p.CloseSession(s2)), rvn(p.Login(s, C.CKU_USER, W.USER_A)))
        return o
    if k == "reinit":
        o = [rvn(p.CloseAllSessions(env.slot)), rvn(p.InitToken(env.slot, W.SO_A, "A"))]
        ti = p.GetTokenInfo(env.slot)
        o.append(("flags-after-reinit", ti.get("flags")))
        s2 = W.ok(p.OpenSession(env.slot), "open")["h"]
        o += [rvn(p.Login(s2, C.CKU_USER, W.USER_A)), rvn(p.Login(s2, C.CKU_SO, W.SO_A)), rvn(p.InitPIN(s2, W.USER_A)), rvn(p.Logout(s2)), rvn(p.Login(s2, C.CKU_USER, W.USER_A))]
        env.s = s2
        env.objs = []
        return tuple(o)
    if k == "so-session":
        s2 = W.ok(p.OpenSession(env.slot), "open")["h"]
        o = [rvn(p.Logout(s)), rvn(p.Login(s2, C.CKU_SO, W.SO_A)), rvn(p.CreateObject(s2, KIND_T["data"](1, 0, b"by-so"))), rvn(p.CreateObject(s2, KIND_T["data"](1, 1, b"by-so-prv"))),
             tuple(sorted((p.get_attr(s2, h, C.CKA_LABEL)[1] for h in p.FindAll(s2).get("hs", [])), key=repr)), rvn(p.Logout(s2)), rvn(p.CloseSession(s2)), rvn(p.Login(s, C.CKU_USER, W.USER_A))]
        return tuple(o)
    if k == "ro-session-create":
        s2 = W.ok(p.OpenSession(env.slot, W.RO), "open")["h"]
        o = (rvn(p.CreateObject(s2, KIND_T["data"](1, 0, b"ro-tok"))), rvn(p.CreateObject(s2, KIND_T["data"](0, 0, b"ro-ses"))), rvn(p.CloseSession(s2)))
        return o
    if k == "use":
        h = obj(a[1])
        u = a[2]
        if u in ("encrypt-cbc-pad", "encrypt-ecb"):
            ms = mech(C.CKM_AES_CBC_PAD, IV16) if u == "encrypt-cbc-pad" else mech(C.CKM_AES_ECB)
            rs = p.batch(["C_EncryptInit s=%d mech=%s k=%d" % (s, ms, h), "C_Encrypt s=%d in=x%s out=b64" % (s, bytes(range(16)).hex())])
            return (rvn(rs[0]), rvn(rs[1]), rs[1].get("out") if rs[1]["rv"] == 0 else None)
        if u in ("sign-hmac", "sign-rsa"):
            ms = mech(C.CKM_SHA256_HMAC) if u == "sign-hmac" else mech(C.CKM_SHA256_RSA_PKCS)
            rs = p.batch(["C_SignInit s=%d mech=%s k=%d" % (s, ms, h), "C_Sign s=%d in=x616263 out=b300" % s])
            return (rvn(rs[0]), rvn(rs[1]), rs[1].get("out") if rs[1]["rv"] == 0 else None)
        if u == "wrap-self":
            r = p.call("C_WrapKey s=%d mech=%s wk=%d k=%d out=b200" % (s, mech(C.CKM_AES_KEY_WRAP), h, h))
            return (rvn(r), r.get("out") if r["rv"] == 0 else None)
        if u == "digest-key":
            rs = p.batch(["C_DigestInit s=%d mech=%s" % (s, mech(C.CKM_SHA256)), "C_DigestKey s=%d k=%d" % (s, h), "C_DigestFinal s=%d out=b32" % s])
            return tuple(rvn(r) for r in rs) + (rs[2].get("out") if rs[2]["rv"] == 0 else None,)
        if u in ("derive-concat", "derive-ecb-data"):
            dm = mech(C.CKM_CONCATENATE_BASE_AND_DATA, keyderiv_string(b"12345678")) if u == "derive-concat" else mech(C.CKM_AES_ECB_ENCRYPT_DATA, keyderiv_string(bytes(range(32))))
            T = [(C.CKA_TOKEN, True), (C.CKA_PRIVATE, True), (C.CKA_LABEL, b"derived"), (C.CKA_SENSITIVE, False), (C.CKA_EXTRACTABLE, True)]
            if u == "derive-ecb-data":
                T += [(C.CKA_CLASS, C.CKO_SECRET_KEY), (C.CKA_KEY_TYPE, C.CKK_GENERIC_SECRET), (C.CKA_VALUE_LEN, 32)]
            r = p.DeriveKey(s, dm, h, T)
            if r["rv"] == 0:
                env.objs.append(r["h"])
            return (rvn(r),)
    raise RuntimeError(a)


# ------------------------------------------------------------------------------------------------
_L = {}


def _init(templates, base_root):
    try:
        lanes = []
        root = os.path.join(base_root, "w%d" % os.getpid())
        for (store, variant), t in zip(LANES, templates):
            ctx = Ctx(variant, store, os.path.join(root, lane_name((store, variant))))
            sd = os.path.join(ctx.root, "d0")
            shutil.copytree(t["dir"], sd)
            ctx.start_shell(sd)
            W.ok(ctx.p.Initialize(), "init")
            env = Env(ctx.p, W.slot_map(ctx.p)["A"])
            open_user(env)
            lanes.append((ctx, env))
        _L["lanes"] = lanes
    except Exception:
        traceback.print_exc()
        raise


def run_program(prog):
    """-> list over lanes of traces [(observation, snapshot digest), ...]"""
    import copy
    traces = []
    for ctx, env0 in _L["lanes"]:
        sh = ctx.sh
        env = Env(env0.p, env0.slot)
        env.s = env0.s
        tr = []
        d0 = sh.depth
        sh.snap()
        try:
            for a in prog:
                try:
                    obs = do(env, a)
                except Died as d:
                    obs = ("DIED", repr(d.info))
                    tr.append((obs, None))
                    break
                tr.append((obs, hashlib.sha1(repr(snapshot(env)).encode()).hexdigest()[:12]))
            # and what a restarted instance sees at the end
            try:
                do(env, ("restart",))
                tr.append((("final-restart",), hashlib.sha1(repr(snapshot(env)).encode()).hexdigest()[:12]))
            except Died as d:
                tr.append((("DIED", repr(d.info)), None))
        finally:
            if sh.depth > d0:
                sh.unwind(d0)
        traces.append(tr)
    return traces


def _task_programs(progs):
    out = {"viol": [], "programs": 0, "steps": 0, "harness": None, "samples": []}
    try:
        for prog in progs:
            traces = run_program(prog)
            out["programs"] += 1
            out["steps"] += sum(len(t) for t in traces)
            base = traces[0]
            for li, tr in enumerate(traces[1:], 1):
                if tr != base:
                    # first differing step
                    k = next((i for i in range(min(len(tr), len(base))) if tr[i] != base[i]), min(len(tr), len(base)))
                    step = prog[k] if k < len(prog) else ("final-restart",)
                    what = "return-codes-or-outputs" if (k < len(tr) and k < len(base) and tr[k][0] != base[k][0]) else "object-attributes"
                    sig = "C20|program|%s-vs-%s|%s|at=%s" % (lane_name(LANES[0]), lane_name(LANES[li]), what, "/".join(str(x) for x in step[:3]))
                    out["viol"].append({"signature": sig, "detail": {"program": [list(x) for x in prog], "step": k, lane_name(LANES[0]): repr(base[k] if k < len(base) else None)[:300],
                                                                       lane_name(LANES[li]): repr(tr[k] if k < len(tr) else None)[:300]}, "program": [list(x) for x in prog], "history": [], "action": None})
            if len(out["samples"]) < 1:
                out["samples"].append({"program": [list(x) for x in prog], "trace": [repr(x[0])[:80] for x in base]})
    except Exception:
        out["harness"] = traceback.format_exc()
    return out


# ---- (ii) decision matrix and (iii) crypto grid between the two crypto backends (file store lanes 0 and 2)
def _task_matrix(mechs):
    from c07_usage import KINDS, OPS, CLASS_FLAGS, key_template, _op_line, _blobs
    out = {"viol": [], "programs": 0, "steps": 0, "harness": None, "samples": []}
    try:
        results = []
        for li in (0, 2):
            ctx, env = _L["lanes"][li]
            p, sh = ctx.p, ctx.sh
            sh.snap(copy=False)
            try:
                st = {"s0": env.s, "slot": env.slot}
                _blobs(ctx, st)
                res = {}
                for m in mechs:
                    for kind in KINDS:
                        cls = F.klass(kind)
                        for variant in ["all"] + ["f-" + f for f in CLASS_FLAGS[cls]]:
                            r = p.CreateObject(env.s, key_template(kind, variant, None))
                            if r["rv"] != 0:
                                res[(m, kind, variant, "create")] = rvn(r)
                                continue
                            h = r["h"]
                            for op in OPS:
                                s2 = W.ok(p.OpenSession(env.slot), "open")["h"]
                                rr = p.call(_op_line(op, s2, m, kind, h, st))
                                p.CloseSession(s2)
                                res[(m, kind, variant, op)] = rvn(rr)
                            p.DestroyObject(env.s, h)
                results.append(res)
            finally:
                sh.unwind(0)
        a, b = results
        out["programs"] = len(a)
        out["steps"] = 2 * len(a)
        for key in a:
            if a[key] != b.get(key):
                m, kind, variant, op = key
                # unwrap / wrap cells depend on blobs each backend produced itself: compare success vs failure only
                ok_a, ok_b = a[key] == "CKR_OK", b.get(key) == "CKR_OK"
                if op in ("wrap", "unwrap", "derive") and ok_a == ok_b:
                    continue
                sig = "C20|matrix|openssl-vs-botan|%s|%s|key=%s|%s" % (op, C.CKM_NAMES.get(m, hex(m)), kind, "accepted-by-one-only" if ok_a != ok_b else "different-error-codes")
                out["viol"].append({"signature": sig, "detail": {"openssl": a[key], "botan": b.get(key), "variant": variant}, "mechs": list(mechs), "history": [], "action": None})
    except Exception:
        out["harness"] = traceback.format_exc()
    return out


def _task_crypto(spec):
    """deterministic mechanisms: byte-identical outputs; randomised: produced in one backend, verified/decrypted in the other"""
    out = {"viol": [], "programs": 0, "steps": 0, "harness": None, "samples": []}
    name = spec
    try:
        outs = []
        lanes = [_L["lanes"][0], _L["lanes"][2]]
        for ctx, env in lanes:
            ctx.sh.snap(copy=False)
        try:
            def both(fn):
                return [fn(ctx.p, env) for ctx, env in lanes]
            from c10_crypto import msg, mk
            if name.startswith("cipher:"):
                _, mname, kl = name.split(":")
                kl = int(kl)
                kind = "aes%d" % (kl * 8) if mname.startswith("aes") else "des3"
                hs = both(lambda p, env: mk(p, env.s, kind, [(C.CKA_ENCRYPT, True), (C.CKA_DECRYPT, True)]))
                ms = {"aes-ecb": mech(C.CKM_AES_ECB), "aes-cbc": mech(C.CKM_AES_CBC, IV16), "aes-cbc-pad": mech(C.CKM_AES_CBC_PAD, IV16), "aes-ctr": mech(C.CKM_AES_CTR, ctr_params(128, IV16)),
                      "aes-gcm": mech(C.CKM_AES_GCM, gcm_params(bytes(12), b"aad", 128)), "des3-cbc-pad": mech(C.CKM_DES3_CBC_PAD, IV8), "des3-ecb": mech(C.CKM_DES3_ECB), "des3-cbc": mech(C.CKM_DES3_CBC, IV8)}[mname]
                B = 16 if mname.startswith("aes") else 8
                for n in range(0, 2 * B + 2):
                    if mname.split("-", 1)[1] in ("ecb", "cbc") and n % B:
                        continue
                    res = []
                    for (ctx, env), h in zip(lanes, hs):
                        rs = ctx.p.batch(["C_EncryptInit s=%d mech=%s k=%d" % (env.s, ms, h), "C_Encrypt s=%d in=x%s out=b%d" % (env.s, msg(n).hex(), n + 64)])
                        res.append((rvn(rs[0]), rvn(rs[1]), rs[1].get("out") if rs[1]["rv"] == 0 else None))
                    out["programs"] += 1
                    out["steps"] += 2
                    if res[0] != res[1]:
                        what = "outputs-differ" if res[0][:2] == res[1][:2] else "return-codes-differ"
                        out["viol"].append({"signature": "C20|crypto|openssl-vs-botan|%s|%s|len%%block=%d" % (name, what, n % B), "detail": {"len": n, "openssl": res[0], "botan": res[1]}, "spec": spec, "history": [], "action": None})
                    elif res[0][2] is not None:
                        # the same ciphertext decrypted by both backends: same return codes, same plaintext
                        dres = []
                        for (ctx, env), h in zip(lanes, hs):
                            rs = ctx.p.batch(["C_DecryptInit s=%d mech=%s k=%d" % (env.s, ms, h), "C_Decrypt s=%d in=x%s out=b%d" % (env.s, res[0][2], n + 64)])
                            dres.append((rvn(rs[0]), rvn(rs[1]), bytes.fromhex(rs[1].get("out", ""))[:rs[1].get("len", 0)].hex() if rs[1]["rv"] == 0 else None))
                        if dres[0] != dres[1]:
                            out["viol"].append({"signature": "C20|crypto|openssl-vs-botan|%s|decrypt|%s|len=%s" % (name, "outputs-differ" if dres[0][:2] == dres[1][:2] else "return-codes-differ", "0" if n == 0 else ">0"),
                                                "detail": {"len": n, "openssl": dres[0], "botan": dres[1]}, "spec": spec, "history": [], "action": None})
                        elif dres[0][2] is not None and dres[0][2] != msg(n).hex():
                            out["viol"].append({"signature": "C20|crypto|%s|decrypt|both-backends-return-wrong-plaintext" % name, "detail": {"len": n}, "spec": spec, "history": [], "action": None})
                # the two-call convention (length query first) and the multi-part calls: return codes and the CONCATENATED output must agree; how the output is
                # spread over the Update/Final calls is compared too (signature of its own)
                for n, parts in ((2 * B, (B, B)), (2 * B, (1, 2 * B - 1)), (2 * B, (B + 1, B - 1)), (3 * B, (B, B, B)), (B + 5, (5, B))):
                    if mname.split("-", 1)[1] in ("ecb", "cbc") and n % B:
                        continue
                    data = msg(n)
                    for direction in ("Encrypt", "Decrypt"):
                        if direction == "Decrypt":
                            r0 = lanes[0][0].p.batch(["C_EncryptInit s=%d mech=%s k=%d" % (lanes[0][1].s, ms, hs[0]), "C_Encrypt s=%d in=x%s out=b%d" % (lanes[0][1].s, data.hex(), n + 64)])
                            if r0[1]["rv"] != 0:
                                continue
                            data_in = bytes.fromhex(r0[1]["out"])[:r0[1]["len"]]
                            cut = list(parts[:-1]) + [len(data_in) - sum(parts[:-1])]
                        else:
                            data_in, cut = data, list(parts)
                        res, qres = [], []
                        for (ctx, env), h in zip(lanes, hs):
                            lines = ["C_%sInit s=%d mech=%s k=%d" % (direction, env.s, ms, h)]
                            off = 0
                            for c_ in cut:
                                lines.append("C_%sUpdate s=%d in=x%s out=b%d" % (direction, env.s, data_in[off:off + c_].hex(), n + 64))
                                off += c_
                            lines.append("C_%sFinal s=%d out=b%d" % (direction, env.s, n + 64))
                            rs = ctx.p.batch(lines)
                            outs_ = [bytes.fromhex(r.get("out", ""))[:r.get("len", 0)] if r["rv"] == 0 else b"" for r in rs[1:]]
                            res.append((tuple(rvn(r) for r in rs), b"".join(outs_).hex(), tuple(len(o) for o in outs_)))
                            q = ctx.p.batch(["C_%sInit s=%d mech=%s k=%d" % (direction, env.s, ms, h), "C_%s s=%d in=x%s out=n0" % (direction, env.s, data_in.hex()),
                                             "C_%s s=%d in=x%s out=b%d" % (direction, env.s, data_in.hex(), n + 64)])
                            qres.append((tuple(rvn(r) for r in q), q[1].get("len"), q[2].get("out") if q[2]["rv"] == 0 else None))
                        out["programs"] += 2
                        out["steps"] += 2 * (len(cut) + 2) + 6
                        if res[0][:2] != res[1][:2]:
                            out["viol"].append({"signature": "C20|crypto|openssl-vs-botan|%s|multi-part-%s|%s" % (name, direction.lower(), "outputs-differ" if res[0][0] == res[1][0] else "return-codes-differ"),
                                                "detail": {"len": n, "parts": cut, "openssl": res[0], "botan": res[1]}, "spec": spec, "history": [], "action": None})
                        elif res[0][2] != res[1][2]:
                            out["viol"].append({"signature": "C20|crypto|openssl-vs-botan|multi-part-%s|same-total-output-but-spread-differently-over-the-calls" % direction.lower(),
                                                "detail": {"mechanism": name, "len": n, "parts": cut, "openssl_lengths": res[0][2], "botan_lengths": res[1][2]}, "spec": spec, "history": [], "action": None})
                        if qres[0] != qres[1]:
                            out["viol"].append({"signature": "C20|crypto|openssl-vs-botan|%s|length-query-then-%s|%s" % (name, direction.lower(), "outputs-differ" if qres[0][0] == qres[1][0] else "return-codes-differ"),
                                                "detail": {"len": n, "openssl": qres[0], "botan": qres[1]}, "spec": spec, "history": [], "action": None})
                if mname == "aes-ctr":
                    # a narrow counter (8 bits, starting at 0xf0: 16 blocks = 256 bytes left before it wraps): the budget must be accounted identically, with
                    # and without a preceding length query
                    msn = mech(C.CKM_AES_CTR, ctr_params(8, bytes(15) + b"\xf0"))
                    for n in (16, 128, 144, 240, 256, 257, 272):
                        for query in (False, True):
                            res = []
                            for (ctx, env), h in zip(lanes, hs):
                                lines = ["C_EncryptInit s=%d mech=%s k=%d" % (env.s, msn, h)] + (["C_Encrypt s=%d in=x%s out=n0" % (env.s, msg(n).hex())] if query else []) + \
                                        ["C_Encrypt s=%d in=x%s out=b%d" % (env.s, msg(n).hex(), n + 64)]
                                rs = ctx.p.batch(lines)
                                res.append((tuple(rvn(r) for r in rs), rs[-1].get("out") if rs[-1]["rv"] == 0 else None))
                            out["programs"] += 1
                            out["steps"] += 3
                            if res[0] != res[1]:
                                out["viol"].append({"signature": "C20|crypto|openssl-vs-botan|%s|narrow-counter|%s|%s" % (name, "after-length-query" if query else "direct", "outputs-differ" if res[0][0] == res[1][0] else "return-codes-differ"),
                                                    "detail": {"len": n, "openssl": res[0], "botan": res[1]}, "spec": spec, "history": [], "action": None})
            elif name.startswith("mac:") or name.startswith("digest:"):
                _, mname = name.split(":")
                if name.startswith("mac:"):
                    kind, mm = ("generic64", getattr(C, "CKM_%s_HMAC" % mname.upper().replace("SHA1", "SHA_1"))) if mname != "cmac-aes" else ("aes128", C.CKM_AES_CMAC)
                    hs = both(lambda p, env: mk(p, env.s, kind, [(C.CKA_SIGN, True), (C.CKA_VERIFY, True)]))
                else:
                    mm = getattr(C, "CKM_" + mname.upper().replace("SHA1", "SHA_1"))
                    hs = [0, 0]
                for n in (0, 1, 63, 64, 65, 200):
                    res = []
                    for (ctx, env), h in zip(lanes, hs):
                        if name.startswith("mac:"):
                            rs = ctx.p.batch(["C_SignInit s=%d mech=%s k=%d" % (env.s, mech(mm), h), "C_Sign s=%d in=x%s out=b80" % (env.s, msg(n).hex())])
                        else:
                            rs = ctx.p.batch(["C_DigestInit s=%d mech=%s" % (env.s, mech(mm)), "C_Digest s=%d in=x%s out=b80" % (env.s, msg(n).hex())])
                        res.append((rvn(rs[0]), rvn(rs[1]), rs[1].get("out") if rs[1]["rv"] == 0 else None))
                    out["programs"] += 1
                    out["steps"] += 2
                    if res[0] != res[1]:
                        out["viol"].append({"signature": "C20|crypto|openssl-vs-botan|%s|%s" % (name, "outputs-differ" if res[0][:2] == res[1][:2] else "return-codes-differ"), "detail": {"len": n, "openssl": res[0], "botan": res[1]},
                                            "spec": spec, "history": [], "action": None})
            elif name.startswith("agree:"):
                # key agreement is deterministic: the derived value must be byte-identical in both backends, for an ordinary peer and for a peer whose
                # shared secret starts with a zero byte (padding conventions of the two crypto libraries differ)
                _, which = name.split(":")
                T = [(C.CKA_CLASS, C.CKO_SECRET_KEY), (C.CKA_KEY_TYPE, C.CKK_GENERIC_SECRET), (C.CKA_TOKEN, False), (C.CKA_PRIVATE, False), (C.CKA_SENSITIVE, False), (C.CKA_EXTRACTABLE, True)]
                for pname, suffix in [("ordinary", "peer")] + ([("leading-zero", "peer_lz")] if which != "x25519" else []):
                    if which == "dh":
                        peer = F.KEYS["dh1024" + suffix]
                        kind, dm, vl = "dh_priv", mech(C.CKM_DH_PKCS_DERIVE, F.H(peer["y"])), 128
                    elif which == "x25519":
                        peer = F.KEYS["x25519peer"]
                        kind, dm, vl = "x25519_priv", mech(C.CKM_ECDH1_DERIVE, ecdh_params(F.H(peer["rawpoint"]))), 32
                    else:
                        peer = F.KEYS[which + suffix]
                        kind, dm, vl = which + "_priv", mech(C.CKM_ECDH1_DERIVE, ecdh_params(F.H(peer["rawpoint"]))), {"ec256": 32, "ec384": 48, "ec521": 66}[which]
                    hs = both(lambda p, env: mk(p, env.s, kind, [(C.CKA_DERIVE, True)]))
                    for vlen in (vl, 16):
                        res = []
                        for (ctx, env), h in zip(lanes, hs):
                            r = ctx.p.DeriveKey(env.s, dm, h, T + [(C.CKA_VALUE_LEN, vlen)])
                            val = ctx.p.get_attr(env.s, r["h"], C.CKA_VALUE)[1] if r["rv"] == 0 else None
                            res.append((rvn(r), val.hex() if isinstance(val, (bytes, bytearray)) else None))
                        out["programs"] += 1
                        out["steps"] += 2
                        if res[0] != res[1]:
                            out["viol"].append({"signature": "C20|crypto|openssl-vs-botan|%s|%s-peer|%s" % (name, pname, "outputs-differ" if res[0][0] == res[1][0] else "return-codes-differ"),
                                                "detail": {"value_len": vlen, "openssl": res[0], "botan": res[1]}, "spec": spec, "history": [], "action": None})
            elif name.startswith("sig:"):
                _, sname = name.split(":")
                kp, ku, mm, det, data = {"rsa-pkcs": ("rsa1024_priv", "rsa1024_pub", mech(C.CKM_SHA256_RSA_PKCS), True, msg(33)), "rsa-raw": ("rsa1024_priv", "rsa1024_pub", mech(C.CKM_RSA_PKCS), True, msg(20)),
                                         "rsa-pss": ("rsa1024_priv", "rsa1024_pub", mech(C.CKM_SHA256_RSA_PKCS_PSS, pss_params(C.CKM_SHA256, C.CKG_MGF1_SHA256, 32)), False, msg(33)),
                                         "ecdsa": ("ec256_priv", "ec256_pub", mech(C.CKM_ECDSA), False, msg(32)), "dsa-sha1": ("dsa_priv", "dsa_pub", mech(C.CKM_DSA_SHA1), False, msg(33)),
                                         "eddsa": ("ed25519_priv", "ed25519_pub", mech(C.CKM_EDDSA), True, msg(33))}[sname]
                hp = both(lambda p, env: mk(p, env.s, kp, [(C.CKA_SIGN, True)]))
                hu = both(lambda p, env: mk(p, env.s, ku, [(C.CKA_VERIFY, True)]))
                sigs = []
                for (ctx, env), h in zip(lanes, hp):
                    rs = ctx.p.batch(["C_SignInit s=%d mech=%s k=%d" % (env.s, mm, h), "C_Sign s=%d in=x%s out=b300" % (env.s, data.hex())])
                    sigs.append((rvn(rs[0]), rvn(rs[1]), rs[1].get("out") if rs[1]["rv"] == 0 else None))
                out["programs"] += 1
                out["steps"] += 4
                if sigs[0][:2] != sigs[1][:2]:
                    out["viol"].append({"signature": "C20|crypto|openssl-vs-botan|%s|return-codes-differ" % name, "detail": {"openssl": sigs[0][:2], "botan": sigs[1][:2]}, "spec": spec, "history": [], "action": None})
                elif det and sigs[0][2] != sigs[1][2]:
                    out["viol"].append({"signature": "C20|crypto|openssl-vs-botan|%s|outputs-differ" % name, "detail": {}, "spec": spec, "history": [], "action": None})
                # cross verification: signature of lane i verified in lane 1-i
                for i in (0, 1):
                    if sigs[i][2] is None:
                        continue
                    ctx, env = lanes[1 - i]
                    rs = ctx.p.batch(["C_VerifyInit s=%d mech=%s k=%d" % (env.s, mm, hu[1 - i]), "C_Verify s=%d in=x%s sig=x%s" % (env.s, data.hex(), sigs[i][2])])
                    if rs[0]["rv"] != 0 or rs[1]["rv"] != 0:
                        out["viol"].append({"signature": "C20|crypto|%s|signature-of-%s-rejected-by-the-other-backend" % (name, "openssl" if i == 0 else "botan"), "detail": {"rv": [rvn(rs[0]), rvn(rs[1])]}, "spec": spec, "history": [], "action": None})
        finally:
            for ctx, env in lanes:
                ctx.sh.unwind(0)
    except Exception:
        out["harness"] = traceback.format_exc()
    return out


def _probe_des():
    """is single DES executable in each crypto backend? (OpenSSL 3 needs the legacy provider, which this image does not load)"""
    bad = []
    for li in (0, 2):
        ctx, env = _L["lanes"][li]
        p = ctx.p
        ctx.sh.snap(copy=False)
        try:
            r = p.CreateObject(env.s, F.template("des", token=False, private=False, label=b"d", extra=[(C.CKA_ENCRYPT, True)]))
            okk = False
            if r["rv"] == 0:
                rs = p.batch(["C_EncryptInit s=%d mech=%s k=%d" % (env.s, mech(C.CKM_DES_ECB), r["h"]), "C_Encrypt s=%d in=x%s out=b16" % (env.s, bytes(8).hex())])
                okk = rs[0]["rv"] == 0 and rs[1]["rv"] == 0
            if not okk:
                bad.append(lane_name(LANES[li]))
        finally:
            ctx.sh.unwind(0)
    return bad


def _get_mechs():
    res = []
    for li in (0, 2):
        ctx, env = _L["lanes"][li]
        n = ctx.p.GetMechanismList(env.slot, "q")["n"]
        ms = ctx.p.GetMechanismList(env.slot, n)["mechs"]
        res.append({m: tuple(ctx.p.GetMechanismInfo(env.slot, m).get(k) for k in ("min", "max", "flags")) for m in ms})
    return res


def build_templates(base_root):
    from p11mc.core import build_template, CheckBase

    class Wd(CheckBase):
        def world(self, ctx):
            return W.two_tokens(ctx)
    ts = []
    for store, variant in LANES:
        ts.append(build_template(Wd(), variant, store, os.path.join(base_root, "tpl-" + lane_name((store, variant)))))
    return ts


VARIANTS = (["ossl-plain", "botan-plain"], ["ossl-plain", "botan-plain"])


def main(tier):
    rep = Report("C20", tier, "translation_validation")
    quick = tier == "quick"
    deadline = time.time() + (600 if quick else 1700)
    base_root = P.scratch_root()
    progs_run = steps = 0
    found, samples = {}, []
    excluded = {}
    complete = True
    try:
        templates = build_templates(base_root)
        pool = mp.get_context("fork").Pool(min(16, os.cpu_count() or 4), _init, (templates, base_root))
        try:
            ma, mb = pool.apply(_get_mechs)
            common = sorted(set(ma) & set(mb))
            unusable = pool.apply(_probe_des)
            if unusable:
                des = {C.CKM_DES_ECB, C.CKM_DES_CBC, C.CKM_DES_CBC_PAD, C.CKM_DES_ECB_ENCRYPT_DATA, C.CKM_DES_CBC_ENCRYPT_DATA, C.CKM_DES_KEY_GEN}
                common = [m for m in common if m not in des]
            excluded = {"single-DES (advertised by both, but not executable in: %s - environment, see DESIGN)" % ", ".join(unusable): ["CKM_DES_ECB", "CKM_DES_CBC", "CKM_DES_CBC_PAD", "CKM_DES_*_ENCRYPT_DATA"] if unusable else [],
                        "openssl-only": [C.CKM_NAMES.get(m, hex(m)) for m in sorted(set(ma) - set(mb))], "botan-only": [C.CKM_NAMES.get(m, hex(m)) for m in sorted(set(mb) - set(ma))]}
            depth = 2 if quick else 3
            progs = [(a,) for a in ALPHABET]
            creates = [a for a in ALPHABET if a[0] == "create"]
            for c in creates:
                for a in ALPHABET:
                    progs.append((c, a))
            for a in TOKEN_LEVEL:
                for b in TOKEN_LEVEL:
                    progs.append((a, b))
                    progs.append((("create", "aes", 1, 1), a, b))
            if depth >= 3:
                for c in creates[:6]:
                    for a in ALPHABET:
                        for b in ALPHABET:
                            if a[0] in ("find", "size") and b[0] in ("find", "size"):
                                continue
                            progs.append((c, a, b))
            chunks = [progs[i:i + 12] for i in range(0, len(progs), 12)]
            jobs = [(_task_programs, ch) for ch in chunks]
            jobs += [(_task_matrix, common[i:i + 3]) for i in range(0, len(common), 3)]
            cspecs = ["cipher:%s:%d" % (m, k) for m in ("aes-ecb", "aes-cbc", "aes-cbc-pad", "aes-ctr", "aes-gcm") for k in (16, 32)] + ["cipher:des3-cbc-pad:24", "cipher:des3-ecb:24"]
            cspecs += ["mac:%s" % h for h in ("md5", "sha1", "sha224", "sha256", "sha384", "sha512", "cmac-aes")] + ["digest:%s" % h for h in ("md5", "sha1", "sha256", "sha512")]
            cspecs += ["sig:%s" % x for x in ("rsa-pkcs", "rsa-raw", "rsa-pss", "ecdsa", "dsa-sha1", "eddsa")]
            cspecs += ["agree:%s" % x for x in ("dh", "ec256", "ec384", "ec521", "x25519")]
            jobs += [(_task_crypto, c) for c in cspecs]
            for r in pool.imap_unordered(_run_job, jobs):
                if r["harness"]:
                    rep.harness_errors.append(r["harness"])
                progs_run += r["programs"]
                steps += r["steps"]
                for v in r["viol"]:
                    found.setdefault(v["signature"], v)
                samples += r["samples"][:1]
                if time.time() > deadline:
                    complete = False
                    break
            # confirm by re-running the owning job
            if not complete:
                pool.terminate(); pool.join()
                pool = mp.get_context("fork").Pool(min(16, os.cpu_count() or 4), _init, (templates, base_root))
            for sig, v in sorted(found.items()):
                if "program" in v:
                    r = pool.apply(_task_programs, ([tuple(tuple(x) for x in v["program"])],))
                elif "mechs" in v:
                    r = pool.apply(_task_matrix, (v["mechs"],))
                else:
                    r = pool.apply(_task_crypto, (v["spec"],))
                if any(x["signature"] == sig for x in r["viol"]):
                    v = dict(v); v.update(replay_module="c20_backends", variant="ossl-plain+botan-plain", store="file+db")
                    rep.add_violation(v)
                else:
                    rep.harness_errors.append("divergence %s did not reproduce" % sig)
        finally:
            pool.terminate(); pool.join()
    finally:
        shutil.rmtree(base_root, ignore_errors=True)
    if progs_run < 100:
        rep.harness_errors.append("vacuous: only %d programs" % progs_run)
    rep.coverage = {"programs": progs_run, "disagreements_checked": len(found), "samples": samples[:5], "exhaustive": complete, "steps_executed": steps, "configurations": [lane_name(l) for l in LANES],
                    "mechanisms_excluded_from_the_intersection": excluded,
                    "rule": "programs = action sequences (all of depth 1, every create followed by every action%s), decision-matrix cells and crypto-grid cells, each executed in all "
                            "configurations and compared step by step; a disagreement is re-executed once before it is reported" % ("" if quick else ", six creates followed by every pair of actions")}
    rep.assumptions = ["all key material is imported, so no output depends on a random generator except randomised signature schemes (cross-verified instead of compared)",
                       "the decision matrix and the crypto grid compare the two crypto backends on the file store; the action programs compare all four configurations"]
    return rep.finish()


def _run_job(job):
    return job[0](job[1])


def replay(rec):
    import sys
    sys.path.insert(0, P.VERIF + "/tools")
    import build_sut
    for v in ("ossl-plain", "botan-plain"):
        build_sut.build(v)
    root = P.scratch_root()
    try:
        templates = build_templates(root)
        _init(templates, root)
        if "program" in rec:
            r = _task_programs([tuple(tuple(x) for x in rec["program"])])
        elif "mechs" in rec:
            r = _task_matrix(rec["mechs"])
        else:
            r = _task_crypto(rec["spec"])
        for ctx, env in _L["lanes"]:
            ctx.stop_shell()
        sigs = [v["signature"] for v in r["viol"]]
        print("recorded:", rec["signature"], "\nobserved:", sigs[:10])
        if rec["signature"] in sigs:
            print("VIOLATION property=C20 replay=%s" % sys.argv[1])
            return 1
        return 0
    finally:
        shutil.rmtree(root, ignore_errors=True)
