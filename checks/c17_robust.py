"""C17 - no input makes the library crash, corrupt memory or kill the host process (DESIGN.md 3/C17).

Exhaustive enumeration under AddressSanitizer, every case in its own process snapshot:
 (a1) every keyed operation (Encrypt/Decrypt/Sign/Verify Init + first data call, DigestKey, Wrap, Unwrap, Derive) x every kind
      of valid object x every mechanism the token advertises x parameter variants (valid, none, one byte short, one byte long,
      NULL pointer with a length, structured parameters with NULL inner pointers);
 (a2) for every one of the 68 entry points a valid request from each base state (not initialised, no session, RO/RW public,
      RO/RW user, SO, every kind of active operation) and EVERY single-argument deviation from it over per-type nasty domains
      (handles 0 / closed / foreign / 2^64-1, lengths 0..4096 and NULL-with-length, output buffers NULL / 0 / 1 / large and NULL
      length pointers, templates NULL / empty / duplicated / NULL-valued / oversize / nested with bad inner length, mechanisms
      NULL / unknown / mis-sized parameters, numeric arguments 0..2^64-1); thorough adds all pairs of deviations;
 (a3) depth-2 sequences: every Init kind followed by every continuation call with every data/output shape;
 (b)  every truncation, byte mutation and length-field mutation of an object file, of token.object and of softhsm2.conf,
      followed by C_Initialize, login, search, reading every attribute, signing and C_Finalize.
Oracle: the call returns a CK_RV; the process neither dies (signal, exit(), abort) nor produces an ASan report; a fixed health
sequence still works afterwards.
"""
import copy, itertools, os, shutil, struct, time, traceback
from p11mc import consts as C
from p11mc.core import CheckBase, Explorer, Violation, Died
from p11mc import core
from p11mc.runner import Report
from p11mc import world as W, fixtures as F, p11 as P
from p11mc.p11 import Out, Null, tpl, mech, blob, ul, gcm_params, ctr_params, oaep_params, pss_params, ecdh_params, keyderiv_string, cbc_encrypt_data_params, mechlist

IV16, IV8 = bytes(range(16)), bytes(range(8))
OBJ_KINDS = ["aes128", "generic32", "des3", "rsa1024_pub", "rsa1024_priv", "ec256_pub", "ec256_priv", "dsa_priv", "dsa_pub", "dh_priv", "ed25519_priv", "ed25519_pub", "x25519_priv", "data", "cert", "dsa_params"]
ALLFLAGS = {C.CKO_SECRET_KEY: [C.CKA_ENCRYPT, C.CKA_DECRYPT, C.CKA_SIGN, C.CKA_VERIFY, C.CKA_WRAP, C.CKA_UNWRAP, C.CKA_DERIVE],
            C.CKO_PUBLIC_KEY: [C.CKA_ENCRYPT, C.CKA_VERIFY, C.CKA_WRAP], C.CKO_PRIVATE_KEY: [C.CKA_DECRYPT, C.CKA_SIGN, C.CKA_UNWRAP, C.CKA_DERIVE]}
U64 = 18446744073709551615


def fname(line):
    return line.split(" ")[0]


def valid_param(m):
    if m in (C.CKM_AES_CBC, C.CKM_AES_CBC_PAD):
        return IV16
    if m in (C.CKM_DES_CBC, C.CKM_DES_CBC_PAD, C.CKM_DES3_CBC, C.CKM_DES3_CBC_PAD):
        return IV8
    if m == C.CKM_AES_CTR:
        return ctr_params(128, IV16)
    if m == C.CKM_AES_GCM:
        return gcm_params(bytes(12), b"aad", 128)
    if m == C.CKM_RSA_PKCS_OAEP:
        return oaep_params()
    if m in (C.CKM_RSA_PKCS_PSS, C.CKM_SHA1_RSA_PKCS_PSS):
        return pss_params(C.CKM_SHA_1, C.CKG_MGF1_SHA1, 20)
    if m in (C.CKM_SHA224_RSA_PKCS_PSS, C.CKM_SHA256_RSA_PKCS_PSS, C.CKM_SHA384_RSA_PKCS_PSS, C.CKM_SHA512_RSA_PKCS_PSS):
        return pss_params(C.CKM_SHA256, C.CKG_MGF1_SHA256, 32)
    if m == C.CKM_ECDH1_DERIVE:
        return ecdh_params(F.H(F.KEYS["ec256peer"]["rawpoint"]))
    if m == C.CKM_DH_PKCS_DERIVE:
        return F.H(F.KEYS["dh1024peer"]["y"])
    if m in (C.CKM_DES_ECB_ENCRYPT_DATA, C.CKM_DES3_ECB_ENCRYPT_DATA, C.CKM_AES_ECB_ENCRYPT_DATA, C.CKM_CONCATENATE_BASE_AND_DATA, C.CKM_CONCATENATE_DATA_AND_BASE):
        return keyderiv_string(bytes(32))
    if m in (C.CKM_DES_CBC_ENCRYPT_DATA, C.CKM_DES3_CBC_ENCRYPT_DATA):
        return cbc_encrypt_data_params(IV8, bytes(32))
    if m == C.CKM_AES_CBC_ENCRYPT_DATA:
        return cbc_encrypt_data_params(IV16, bytes(32))
    return None


def param_variants(m, other_handle):
    """mechanism strings: valid + mis-sized / NULL / structurally broken parameters"""
    v = valid_param(m)
    if m == C.CKM_CONCATENATE_BASE_AND_KEY:
        v = ul(other_handle)
    out = [("valid", mech(m, v))]
    if v is None:
        out += [("unexpected-param", mech(m, b"\x00" * 7)), ("null-with-length", "%x:n16" % m)]
        return out
    out.append(("none", mech(m)))
    out.append(("null-with-length", "%x:n24" % m))
    if isinstance(v, tuple):
        _, st, patches = v
        out.append(("struct-short", mech(m, st[:-1])))
        out.append(("struct-long", mech(m, st + b"\x00")))
        # (inner pointers that are NULL or too short for the length stated next to them are outside the property's precondition)
        if m == C.CKM_AES_GCM:
            out.append(("gcm-iv0", mech(m, gcm_params(b"", b"", 128))))
            out.append(("gcm-tag0", mech(m, gcm_params(bytes(12), b"", 0))))
            out.append(("gcm-tag-huge", mech(m, gcm_params(bytes(12), b"", 1 << 20))))
            out.append(("gcm-ivbits-mismatch", mech(m, gcm_params(bytes(12), b"", 128, ivbits=1))))
        if m == C.CKM_ECDH1_DERIVE:
            for nm, pt in (("point-infinity", b"\x00"), ("point-zeros", b"\x04" + bytes(64)), ("point-not-on-curve", b"\x04" + b"\x01" * 64), ("point-compressed", b"\x02" + bytes(32)),
                           ("point-short", F.H(F.KEYS["ec256peer"]["rawpoint"])[:-1]), ("point-der-wrapped", F.H(F.KEYS["ec256peer"]["point"])), ("point-other-curve", F.H(F.KEYS["ec384peer"]["rawpoint"])),
                           ("point-x25519", F.H(F.KEYS["x25519peer"]["rawpoint"])), ("point-all-ff", b"\x04" + b"\xff" * 64)):
                out.append((nm, mech(m, ecdh_params(pt))))
            out.append(("kdf-sha1", mech(m, ecdh_params(F.H(F.KEYS["ec256peer"]["rawpoint"]), kdf=C.CKD_SHA1_KDF))))
            out.append(("shared-data", mech(m, ecdh_params(F.H(F.KEYS["ec256peer"]["rawpoint"]), shared=b"shared"))))
        if m == C.CKM_RSA_PKCS_OAEP:
            out.append(("oaep-bad-hash", mech(m, oaep_params(hashalg=0x7777))))
            out.append(("oaep-source-data", mech(m, oaep_params(srcdata=b"label"))))
    else:
        out.append(("short", mech(m, v[:-1])))
        out.append(("long", mech(m, v + b"\x00")))
        if m == C.CKM_DH_PKCS_DERIVE:
            pp = int(F.KEYS["dh1024"]["p"], 16)
            for nm, val in (("peer-0", 0), ("peer-1", 1), ("peer-p-1", pp - 1), ("peer-p", pp), ("peer-p+1", pp + 1), ("peer-2p", 2 * pp)):
                out.append((nm, mech(m, val.to_bytes((val.bit_length() + 7) // 8 or 1, "big"))))
            out.append(("peer-all-ff", mech(m, b"\xff" * 128)))
            out.append(("peer-one-byte", mech(m, b"\x02")))
        if m == C.CKM_AES_CTR:
            out.append(("ctr-bits0", mech(m, ctr_params(0, IV16))))
            out.append(("ctr-bits129", mech(m, ctr_params(129, IV16))))
        if m in (C.CKM_RSA_PKCS_PSS, C.CKM_SHA256_RSA_PKCS_PSS):
            out.append(("pss-salt-huge", mech(m, pss_params(C.CKM_SHA256, C.CKG_MGF1_SHA256, 1 << 40))))
            out.append(("pss-bad-hash", mech(m, pss_params(0x7777, C.CKG_MGF1_SHA256, 32))))
    return out


class C17(CheckBase):
    ID = "C17"

    def __init__(self):
        self.kw = {}

    def world(self, ctx):
        w = W.two_tokens(ctx)
        p = ctx.p
        W.ok(p.Initialize(), "init")
        s = W.ok(p.OpenSession(w["slots"]["A"]), "open")["h"]
        W.ok(p.Login(s, C.CKU_USER, W.USER_A), "login")
        for kind in ("aes128", "rsa1024_priv", "data"):
            W.ok(p.CreateObject(s, F.template(kind, token=True, private=(kind != "data"), label=b"tok-" + kind.encode(), extra=[(a, True) for a in ALLFLAGS.get(F.klass(kind), [])])), kind)
        n = p.GetMechanismList(w["slots"]["A"], "q")["n"]
        w["mechs"] = p.GetMechanismList(w["slots"]["A"], n)["mechs"]
        W.ok(p.Finalize(), "final")
        return w

    def setup(self, ctx, world):
        return None


# ------------------------------------------------------------------------------------------------
def build_state(ctx, name):
    """bring the library into base state `name`; returns H: named handles and a few blobs"""
    p = ctx.p
    H = {"state": name}
    slots = ctx.world["slots"]
    H["slot"], H["slotB"], H["free"] = slots["A"], slots["B"], slots["free"]
    if name == "not-initialised":
        H.update(s=1, s2=2, closed=3, objs={k: 10 + i for i, k in enumerate(OBJ_KINDS)}, stale=5)
        return H
    W.ok(p.Initialize("sched"), "init")       # application mutex callbacks that police the lock protocol: a re-lock of an owned mutex (self-deadlock) is reported
    if name == "no-session":
        H.update(s=1, s2=2, closed=3, objs={k: 10 + i for i, k in enumerate(OBJ_KINDS)}, stale=5)
        return H
    ro = name.startswith("ro-")
    s = W.ok(p.OpenSession(H["slot"], W.RO if ro else W.RW), "open")["h"]
    sx = W.ok(p.OpenSession(H["slot"], W.RW), "open")["h"]        # helper session: creates the objects, then stays as second session
    c = W.ok(p.OpenSession(H["slot"], W.RW), "open")["h"]
    W.ok(p.CloseSession(c), "close")
    H.update(s=s, s2=sx, closed=c)
    W.ok(p.Login(sx, C.CKU_USER, W.USER_A), "login")
    objs = {}
    for kind in OBJ_KINDS:
        extra = [(a, True) for a in ALLFLAGS.get(F.klass(kind), [])]
        objs[kind] = W.ok(p.CreateObject(sx, F.template(kind, token=False, private=False, label=b"o-" + kind.encode(), extra=extra)), kind)["h"]
    t = W.ok(p.CreateObject(sx, F.template("data", token=False, private=False, label=b"tmp")), "tmp")["h"]
    W.ok(p.DestroyObject(sx, t), "destroy")
    H["objs"], H["stale"] = objs, t
    r = W.ok(p.WrapKey(sx, mech(C.CKM_AES_KEY_WRAP), objs["aes128"], objs["generic32"], Out(64)), "wrap")
    H["wrapped"] = bytes.fromhex(r["out"])[:r["len"]]
    r = p.batch(["C_SignInit s=%d mech=%s k=%d" % (sx, mech(C.CKM_SHA256_HMAC), objs["generic32"]), "C_Sign s=%d in=x616263 out=b32" % sx])
    H["mac"] = bytes.fromhex(r[1].get("out", "00" * 32))
    if name.endswith("public"):
        W.ok(p.Logout(sx), "logout")
    elif name == "so":
        W.ok(p.Logout(sx), "logout")
        W.ok(p.Login(s, C.CKU_SO, W.SO_A), "login so")
    elif name.startswith("op-"):
        op = name[3:]
        o = objs
        line = {"find": "C_FindObjectsInit s=%d tpl=" % s, "digest": "C_DigestInit s=%d mech=%s" % (s, mech(C.CKM_SHA256)),
                "encrypt-sym": "C_EncryptInit s=%d mech=%s k=%d" % (s, mech(C.CKM_AES_CBC_PAD, IV16), o["aes128"]),
                "encrypt-gcm": "C_EncryptInit s=%d mech=%s k=%d" % (s, mech(C.CKM_AES_GCM, gcm_params(bytes(12), b"a", 128)), o["aes128"]),
                "encrypt-asym": "C_EncryptInit s=%d mech=%s k=%d" % (s, mech(C.CKM_RSA_PKCS), o["rsa1024_pub"]),
                "decrypt-sym": "C_DecryptInit s=%d mech=%s k=%d" % (s, mech(C.CKM_AES_CBC_PAD, IV16), o["aes128"]),
                "decrypt-asym": "C_DecryptInit s=%d mech=%s k=%d" % (s, mech(C.CKM_RSA_X_509), o["rsa1024_priv"]),
                "sign-mac": "C_SignInit s=%d mech=%s k=%d" % (s, mech(C.CKM_SHA256_HMAC), o["generic32"]),
                "sign-asym": "C_SignInit s=%d mech=%s k=%d" % (s, mech(C.CKM_SHA256_RSA_PKCS), o["rsa1024_priv"]),
                "sign-x509": "C_SignInit s=%d mech=%s k=%d" % (s, mech(C.CKM_RSA_X_509), o["rsa1024_priv"]),
                "sign-ecdsa": "C_SignInit s=%d mech=%s k=%d" % (s, mech(C.CKM_ECDSA), o["ec256_priv"]),
                "verify": "C_VerifyInit s=%d mech=%s k=%d" % (s, mech(C.CKM_SHA256_HMAC), o["generic32"]),
                "verify-asym": "C_VerifyInit s=%d mech=%s k=%d" % (s, mech(C.CKM_SHA256_RSA_PKCS), o["rsa1024_pub"])}[op]
        W.ok(p.call(line), "start op " + op)
    return H


STATES = ["not-initialised", "no-session", "ro-public", "rw-public", "ro-user", "rw-user", "so", "op-find", "op-digest", "op-encrypt-sym", "op-encrypt-gcm", "op-encrypt-asym",
          "op-decrypt-sym", "op-decrypt-asym", "op-sign-mac", "op-sign-asym", "op-sign-x509", "op-sign-ecdsa", "op-verify", "op-verify-asym"]


def base_lines(H):
    """one valid (or at least well-formed) request per entry point; all 68 functions"""
    s, o = H["s"], H["objs"]
    A = F.template("aes128", token=False, private=False, label=b"n")
    ecp = F.H(F.KEYS["ec256"]["params"])
    UT = [(C.CKA_CLASS, C.CKO_SECRET_KEY), (C.CKA_KEY_TYPE, C.CKK_GENERIC_SECRET), (C.CKA_TOKEN, False)]
    L = [
        "C_Initialize args=null", "C_Initialize args=os", "C_Initialize args=cb", "C_Initialize args=partial", "C_Initialize args=raw cb=15 flags=2 reserved=1", "C_Initialize args=raw cb=5 flags=1",
        "C_Finalize", "C_Finalize reserved=1", "C_GetInfo", "C_GetFunctionList",
        "C_GetSlotList present=1 cnt=q", "C_GetSlotList present=0 cnt=5", "C_GetSlotInfo slot=%d" % H["slot"], "C_GetTokenInfo slot=%d" % H["slot"], "C_WaitForSlotEvent flags=1",
        "C_GetMechanismList slot=%d cnt=q" % H["slot"], "C_GetMechanismList slot=%d cnt=100" % H["slot"], "C_GetMechanismInfo slot=%d type=%d" % (H["slot"], C.CKM_AES_CBC),
        "C_InitToken slot=%d pin=x%s label=x%s" % (H["free"], W.SO_A.hex(), (b"new".ljust(32)).hex()), "C_InitToken slot=%d pin=x%s label=x%s" % (H["slotB"], W.SO_B.hex(), (b"B".ljust(32)).hex()),
        "C_InitPIN s=%d pin=x%s" % (s, b"new-user-pin".hex()), "C_SetPIN s=%d old=x%s new=x%s" % (s, W.USER_A.hex(), b"new-user-pin".hex()),
        "C_OpenSession slot=%d flags=6" % H["slot"], "C_OpenSession slot=%d flags=4" % H["slot"], "C_CloseSession s=%d" % s, "C_CloseAllSessions slot=%d" % H["slot"], "C_GetSessionInfo s=%d" % s,
        "C_GetOperationState s=%d out=b64" % s, "C_SetOperationState s=%d in=x%s ek=0 ak=0" % (s, bytes(16).hex()),
        "C_Login s=%d user=1 pin=x%s" % (s, W.USER_A.hex()), "C_Login s=%d user=0 pin=x%s" % (s, W.SO_A.hex()), "C_Login s=%d user=2 pin=x%s" % (s, W.USER_A.hex()), "C_Logout s=%d" % s,
        "C_CreateObject s=%d tpl=%s" % (s, tpl(A)), "C_CreateObject s=%d tpl=%s" % (s, tpl(F.template("rsa1024_priv", token=True, private=True, label=b"n"))),
        "C_CopyObject s=%d o=%d tpl=%s" % (s, o["aes128"], tpl([(C.CKA_LABEL, b"c")])), "C_DestroyObject s=%d o=%d" % (s, o["data"]), "C_GetObjectSize s=%d o=%d" % (s, o["aes128"]),
        "C_GetAttributeValue s=%d o=%d tpl=%s" % (s, o["rsa1024_priv"], tpl([(C.CKA_MODULUS, Out(128)), (C.CKA_LABEL, Null(0)), (C.CKA_PRIVATE_EXPONENT, Out(4)), (C.CKA_ALLOWED_MECHANISMS, Out(64)), (C.CKA_WRAP_TEMPLATE, Out(48))])),
        "C_SetAttributeValue s=%d o=%d tpl=%s" % (s, o["aes128"], tpl([(C.CKA_LABEL, b"changed"), (C.CKA_ID, b"i")])),
        "C_FindObjectsInit s=%d tpl=%s" % (s, tpl([(C.CKA_CLASS, C.CKO_SECRET_KEY)])), "C_FindObjects s=%d max=5" % s, "C_FindObjectsFinal s=%d" % s,
        "C_EncryptInit s=%d mech=%s k=%d" % (s, mech(C.CKM_AES_CBC_PAD, IV16), o["aes128"]), "C_Encrypt s=%d in=x%s out=b64" % (s, bytes(20).hex()), "C_EncryptUpdate s=%d in=x%s out=b64" % (s, bytes(20).hex()), "C_EncryptFinal s=%d out=b64" % s,
        "C_DecryptInit s=%d mech=%s k=%d" % (s, mech(C.CKM_AES_CBC_PAD, IV16), o["aes128"]), "C_Decrypt s=%d in=x%s out=b64" % (s, bytes(32).hex()), "C_DecryptUpdate s=%d in=x%s out=b64" % (s, bytes(32).hex()), "C_DecryptFinal s=%d out=b64" % s,
        "C_DigestInit s=%d mech=%s" % (s, mech(C.CKM_SHA256)), "C_Digest s=%d in=x616263 out=b64" % s, "C_DigestUpdate s=%d in=x616263" % s, "C_DigestKey s=%d k=%d" % (s, o["generic32"]), "C_DigestFinal s=%d out=b64" % s,
        "C_SignInit s=%d mech=%s k=%d" % (s, mech(C.CKM_SHA256_HMAC), o["generic32"]), "C_Sign s=%d in=x616263 out=b600" % s, "C_SignUpdate s=%d in=x616263" % s, "C_SignFinal s=%d out=b600" % s,
        "C_SignRecoverInit s=%d mech=%s k=%d" % (s, mech(C.CKM_RSA_PKCS), o["rsa1024_priv"]), "C_SignRecover s=%d in=x616263 out=b600" % s,
        "C_VerifyInit s=%d mech=%s k=%d" % (s, mech(C.CKM_SHA256_HMAC), o["generic32"]), "C_Verify s=%d in=x616263 sig=x%s" % (s, H.get("mac", bytes(32)).hex()), "C_VerifyUpdate s=%d in=x616263" % s,
        "C_VerifyFinal s=%d in=x%s" % (s, H.get("mac", bytes(32)).hex()), "C_VerifyRecoverInit s=%d mech=%s k=%d" % (s, mech(C.CKM_RSA_PKCS), o["rsa1024_pub"]), "C_VerifyRecover s=%d in=x%s out=b600" % (s, bytes(128).hex()),
        "C_DigestEncryptUpdate s=%d in=x616263 out=b64" % s, "C_DecryptDigestUpdate s=%d in=x616263 out=b64" % s, "C_SignEncryptUpdate s=%d in=x616263 out=b64" % s, "C_DecryptVerifyUpdate s=%d in=x616263 out=b64" % s,
        "C_GenerateKey s=%d mech=%s tpl=%s" % (s, mech(C.CKM_AES_KEY_GEN), tpl([(C.CKA_VALUE_LEN, 16), (C.CKA_TOKEN, False)])),
        "C_GenerateKey s=%d mech=%s tpl=%s" % (s, mech(C.CKM_GENERIC_SECRET_KEY_GEN), tpl([(C.CKA_VALUE_LEN, 20), (C.CKA_TOKEN, False)])),
        "C_GenerateKeyPair s=%d mech=%s pub=%s priv=%s" % (s, mech(C.CKM_EC_KEY_PAIR_GEN), tpl([(C.CKA_EC_PARAMS, ecp), (C.CKA_TOKEN, False)]), tpl([(C.CKA_TOKEN, False), (C.CKA_SIGN, True)])),
        "C_GenerateKeyPair s=%d mech=%s pub=%s priv=%s" % (s, mech(C.CKM_EC_EDWARDS_KEY_PAIR_GEN), tpl([(C.CKA_EC_PARAMS, F.H(F.KEYS["ed25519"]["params"])), (C.CKA_TOKEN, False)]), tpl([(C.CKA_TOKEN, False)])),
        "C_WrapKey s=%d mech=%s wk=%d k=%d out=b64" % (s, mech(C.CKM_AES_KEY_WRAP), o["aes128"], o["generic32"]),
        "C_WrapKey s=%d mech=%s wk=%d k=%d out=b2000" % (s, mech(C.CKM_AES_KEY_WRAP_PAD), o["aes128"], o["rsa1024_priv"]),
        "C_UnwrapKey s=%d mech=%s k=%d in=x%s tpl=%s" % (s, mech(C.CKM_AES_KEY_WRAP), o["aes128"], H.get("wrapped", bytes(40)).hex(), tpl(UT)),
        "C_DeriveKey s=%d mech=%s k=%d tpl=%s" % (s, mech(C.CKM_ECDH1_DERIVE, ecdh_params(F.H(F.KEYS["ec256peer"]["rawpoint"]))), o["ec256_priv"], tpl(UT + [(C.CKA_VALUE_LEN, 16)])),
        "C_DeriveKey s=%d mech=%s k=%d tpl=%s" % (s, mech(C.CKM_CONCATENATE_BASE_AND_KEY, ul(o["aes128"])), o["generic32"], tpl([(C.CKA_TOKEN, False)])),
        "C_SeedRandom s=%d in=x%s" % (s, bytes(16).hex()), "C_GenerateRandom s=%d out=b32" % s, "C_GetFunctionStatus s=%d" % s, "C_CancelFunction s=%d" % s,
    ]
    return L


def tpl_variants(orig):
    ent = orig.split(",") if orig else []
    first = ent[0] if ent else "3:x61"
    out = ["null:0", "", first + "," + first, "3:x", ",".join(["3:x6162"] * 40), "%x:t[0:x01,3:x6162]#25" % C.CKA_WRAP_TEMPLATE, "%x:t[%x:t[0:x01]]" % (C.CKA_WRAP_TEMPLATE, C.CKA_UNWRAP_TEMPLATE),
           "%x:x0102" % C.CKA_ALLOWED_MECHANISMS, "0:x04", "0:x" + ul(4).hex() + ",%x:x%s" % (C.CKA_VALUE, "00" * 5000), "80001234:x00", "%x:n0" % C.CKA_VALUE, "3:n0"]
    if len(ent) > 1:
        out.append(",".join(ent[1:]))
        out.append(",".join(ent[:-1]))
        out.append(",".join(reversed(ent)))
    return out


def deviations(line, H):
    """every single-argument deviation of a request line: list of (description, new line)"""
    parts = line.split(" ")
    fn, kvs = parts[0], [x.split("=", 1) for x in parts[1:]]
    objs = H["objs"]
    out = []

    def emit(i, desc, val):
        new = [fn] + ["%s=%s" % (k, (val if j == i else v)) for j, (k, v) in enumerate(kvs)]
        out.append(("%s:%s" % (kvs[i][0], desc), " ".join(new)))
    for i, (k, v) in enumerate(kvs):
        if k == "s":
            for d, val in (("zero", 0), ("closed", H["closed"]), ("object-handle", objs["aes128"]), ("max", U64), ("other-session", H["s2"])):
                emit(i, d, str(val))
        elif k in ("o", "k", "wk"):
            for d, val in (("zero", 0), ("stale", H["stale"]), ("session-handle", H["s"]), ("max", U64)):
                emit(i, d, str(val))
            for kind in OBJ_KINDS:
                if str(objs[kind]) != v:
                    emit(i, "kind-" + kind, str(objs[kind]))
        elif k == "slot":
            for d, val in (("invalid", 99999), ("free", H["free"]), ("other-token", H["slotB"]), ("max", U64)):
                emit(i, d, str(val))
        elif k == "label":
            for d, val in (("all-zero", "x" + "00" * 32), ("all-ff", "x" + "ff" * 32), ("no-padding", "x" + "41" * 32), ("null", "n0")):
                emit(i, d, val)
        elif k in ("in", "sig", "pin", "old", "new"):
            cur = bytes.fromhex(v[1:]) if v.startswith("x") else b""
            for d, val in (("empty", "x"), ("null0", "n0"), ("null-with-length", "n16"), ("one-byte", "x00"), ("len15", "x" + "11" * 15), ("len16", "x" + "11" * 16), ("len17", "x" + "11" * 17),
                           ("len127", "x" + "22" * 127), ("len128", "x" + "22" * 128), ("len129", "x" + "22" * 129), ("len4096", "x" + "33" * 4096), ("plus-one", "x" + (cur + b"\x00").hex()),
                           ("minus-one", "x" + cur[:-1].hex()), ("all-ff-128", "x" + "ff" * 128)):
                emit(i, d, val)
        elif k == "out":
            for d, val in (("query", "n0"), ("zero", "b0"), ("one", "b1"), ("seven", "b7"), ("large", "b5000")):
                emit(i, d, val)
        elif k in ("tpl", "pub", "priv"):
            for j, tv in enumerate(tpl_variants(v)):
                emit(i, "tpl%d" % j, tv)
        elif k == "mech":
            mt = int(v.split(":")[0], 16) if v != "null" else 0
            emit(i, "null", "null")
            emit(i, "unknown", "7777:-")
            emit(i, "vendor", "80000001:x00")
            for d, ms in param_variants(mt, objs["aes128"]):
                if ms != v:
                    emit(i, d, ms)
        elif k in ("max", "cnt"):
            for val in (0, 1, 2, 3, 64, 1000):
                if str(val) != v and v != "q":
                    emit(i, "num%d" % val, str(val))
            if v == "q":
                emit(i, "count-preset", "q init=%d" % U64)
        elif k in ("user", "flags", "type", "present", "ek", "ak", "reserved", "cb", "init"):
            for val in (0, 1, 2, 3, 4, 6, 7, 1 << 32, U64):
                if str(val) != v:
                    emit(i, "num%d" % val if val < 10 else ("2^32" if val == 1 << 32 else "max"), str(val))
        elif k == "args":
            pass
    for n in (1, 2, 3):
        out.append(("nullout=%d" % n, line + " nullout=%d" % n))
    return out


WRITERS = {"C_CreateObject", "C_CopyObject", "C_DestroyObject", "C_SetAttributeValue", "C_GenerateKey", "C_GenerateKeyPair", "C_UnwrapKey", "C_DeriveKey", "C_InitToken", "C_InitPIN",
           "C_SetPIN", "C_Login", "C_Initialize", "C_Finalize"}


def health(p, H):
    """a fixed sequence that must still work (or fail cleanly) after the case: returns None or a description"""
    try:
        r = p.call("C_GetSlotList present=1 cnt=q")
        if r["rv"] == C.CKR_CRYPTOKI_NOT_INITIALIZED:
            r = p.Initialize()
            if r["rv"] != 0:
                return "C_Initialize after the case returned %s" % C.CKR_NAMES.get(r["rv"], hex(r["rv"]))
        o = p.OpenSession(H["slotB"])
        if o["rv"] != 0:
            return "C_OpenSession on the other token returned %s" % C.CKR_NAMES.get(o["rv"], hex(o["rv"]))
        s = o["h"]
        rs = p.batch(["C_CreateObject s=%d tpl=%s" % (s, tpl(F.template("data", token=False, private=False, label=b"health"))), "C_GetSessionInfo s=%d" % s,
                      "C_DigestInit s=%d mech=%s" % (s, mech(C.CKM_SHA256)), "C_Digest s=%d in=x616263 out=b32" % s, "C_CloseSession s=%d" % s])
        if rs[0]["rv"] != 0 or rs[1]["rv"] != 0 or rs[3]["rv"] != 0 or not rs[3].get("out", "").startswith("ba7816bf"):
            return "health sequence answers %r" % ([r["rv"] for r in rs],)
    except Died as d:
        return "died in the health sequence: %r during %s" % (d.info, (d.during or "")[:80])
    return None


def run_case(ctx, H, lines, sig, detail, out):
    """run the request lines of one case in a snapshot; judge"""
    sh, p = ctx.sh, ctx.p
    d0 = sh.depth
    sh.snap(copy=any(fname(l) in WRITERS for l in lines))
    ctx.count("cases")
    try:
        last = None
        for l in lines:
            r = p.call(l)
            last = r
            if r.get("asan"):
                out["viol"].setdefault(sig + "|asan-report", {"signature": sig + "|asan-report", "detail": dict(detail, line=l[:400], asan=r["asan"]), "history": [x[:400] for x in lines], "action": None})
                return
            if r.get("serr"):
                out["viol"].setdefault(sig + "|mutex-protocol-violated", {"signature": sig + "|mutex-protocol-violated", "detail": dict(detail, line=l[:400], problem=r["serr"]), "history": [x[:400] for x in lines], "action": None})
                return
            if "rv" not in r:
                break
        ctx.count("rv_" + C.CKR_NAMES.get(last.get("rv", -1), str(last.get("rv")))) if last else None
        hprob = health(p, H)
        if hprob:
            out["viol"].setdefault(sig + "|later-call-fails", {"signature": sig + "|later-call-fails", "detail": dict(detail, problem=hprob), "history": [x[:400] for x in lines], "action": None})
    except Died as d:
        if d.info.get("eof"):
            raise
        how = "hang" if d.info.get("hang") else ("signal-%s" % d.info.get("signal") if "signal" in d.info else "exit-%s" % d.info.get("exit"))
        out["viol"].setdefault(sig + "|" + how, {"signature": sig + "|" + how, "detail": dict(detail, during=(d.during or "")[:400]), "history": [x[:400] for x in lines], "action": None})
    finally:
        sh.unwind(d0)


def _task(task):
    ctx = core._W["ctx"]
    ctx.counters = {}
    out = {"viol": {}, "harness": None, "counters": None, "samples": []}
    sh, p = ctx.sh, ctx.p
    t_start = time.time()
    try:
        sh.snap()
        try:
            part = task[0]
            if part == "a1":
                _, op, quick = task
                H = build_state(ctx, "rw-user")
                s, o = H["s"], H["objs"]
                for kind in OBJ_KINDS:
                    for m in ctx.world["mechs"]:
                        pv = param_variants(m, o["aes128"])
                        for pname, ms in (pv[:1] + pv[2:3] if quick and False else pv):
                            if op in ("Encrypt", "Decrypt", "Sign", "Verify"):
                                second = {"Encrypt": "C_Encrypt s=%d in=x%s out=b600" % (s, bytes(20).hex()), "Decrypt": "C_Decrypt s=%d in=x%s out=b600" % (s, bytes(128).hex()),
                                          "Sign": "C_Sign s=%d in=x%s out=b600" % (s, bytes(20).hex()), "Verify": "C_Verify s=%d in=x%s sig=x%s" % (s, bytes(20).hex(), bytes(64).hex())}[op]
                                lines = ["C_%sInit s=%d mech=%s k=%d" % (op, s, ms, o[kind]), second]
                            elif op == "Wrap":
                                lines = ["C_WrapKey s=%d mech=%s wk=%d k=%d out=b3000" % (s, ms, o[kind], o["generic32"])]
                            elif op == "WrapTarget":
                                if pname != "valid":
                                    continue
                                lines = ["C_WrapKey s=%d mech=%s wk=%d k=%d out=b3000" % (s, ms, o["aes128"] if m not in (C.CKM_RSA_PKCS, C.CKM_RSA_PKCS_OAEP) else o["rsa1024_pub"], o[kind])]
                            elif op == "Unwrap":
                                lines = ["C_UnwrapKey s=%d mech=%s k=%d in=x%s tpl=%s" % (s, ms, o[kind], (H["wrapped"] + bytes(104)).hex()[:(256 if kind.startswith("rsa") else 80)],
                                                                                       tpl([(C.CKA_CLASS, C.CKO_SECRET_KEY), (C.CKA_KEY_TYPE, C.CKK_AES), (C.CKA_TOKEN, False)]))]
                            elif op == "Derive":
                                lines = ["C_DeriveKey s=%d mech=%s k=%d tpl=%s" % (s, ms, o[kind], tpl([(C.CKA_CLASS, C.CKO_SECRET_KEY), (C.CKA_KEY_TYPE, C.CKK_GENERIC_SECRET), (C.CKA_VALUE_LEN, 16), (C.CKA_TOKEN, False)]))]
                            else:
                                lines = ["C_DigestInit s=%d mech=%s" % (s, ms), "C_DigestKey s=%d k=%d" % (s, o[kind]), "C_DigestFinal s=%d out=b64" % s]
                            sig = "C17|%s|%s|key=%s|param=%s" % (op, C.CKM_NAMES.get(m, hex(m)), kind, pname)
                            run_case(ctx, H, lines, sig, {"op": op}, out)
            elif part == "a2":
                _, state, pairs, chunk, nchunks = task
                H = build_state(ctx, state)
                bl = base_lines(H)
                idx = 0
                for line in bl:
                    devs = [("valid", line)] + deviations(line, H)
                    for dname, dl in devs:
                        idx += 1
                        if idx % nchunks != chunk:
                            continue
                        run_case(ctx, H, [dl], "C17|%s|%s|state=%s" % (fname(line), dname, state), {"base": line[:200]}, out)
                    if pairs:
                        for (d1, l1), (d2, l2) in itertools.combinations(devs[1:], 2):
                            k1, k2 = d1.split(":")[0], d2.split(":")[0]
                            if k1 == k2 or "nullout" in d1:
                                continue
                            idx += 1
                            if idx % nchunks != chunk:
                                continue
                            # combine: take l1 and apply d2's changed argument
                            p1, p2, pb = l1.split(" "), l2.split(" "), line.split(" ")
                            if len(p1) != len(p2) or len(p1) != len(pb):
                                continue
                            comb = [a if a != c0 else b for a, b, c0 in zip(p1, p2, pb)]
                            run_case(ctx, H, [" ".join(comb)], "C17|%s|%s+%s|state=%s" % (fname(line), d1, d2, state), {"base": line[:200]}, out)
            elif part == "a3":
                _, chunk, nchunks = task
                H = build_state(ctx, "rw-user")
                s, o = H["s"], H["objs"]
                inits = ["C_FindObjectsInit s=%d tpl=" % s, "C_DigestInit s=%d mech=%s" % (s, mech(C.CKM_SHA_1)), "C_EncryptInit s=%d mech=%s k=%d" % (s, mech(C.CKM_AES_ECB), o["aes128"]),
                         "C_EncryptInit s=%d mech=%s k=%d" % (s, mech(C.CKM_AES_GCM, gcm_params(bytes(12), b"", 128)), o["aes128"]), "C_EncryptInit s=%d mech=%s k=%d" % (s, mech(C.CKM_AES_CTR, ctr_params(8, b"\xff" * 16)), o["aes128"]),
                         "C_EncryptInit s=%d mech=%s k=%d" % (s, mech(C.CKM_RSA_PKCS_OAEP, oaep_params()), o["rsa1024_pub"]), "C_EncryptInit s=%d mech=%s k=%d" % (s, mech(C.CKM_RSA_X_509), o["rsa1024_pub"]),
                         "C_DecryptInit s=%d mech=%s k=%d" % (s, mech(C.CKM_AES_CBC_PAD, IV16), o["aes128"]), "C_DecryptInit s=%d mech=%s k=%d" % (s, mech(C.CKM_AES_GCM, gcm_params(bytes(12), b"", 128)), o["aes128"]),
                         "C_DecryptInit s=%d mech=%s k=%d" % (s, mech(C.CKM_RSA_PKCS), o["rsa1024_priv"]), "C_DecryptInit s=%d mech=%s k=%d" % (s, mech(C.CKM_RSA_X_509), o["rsa1024_priv"]),
                         "C_SignInit s=%d mech=%s k=%d" % (s, mech(C.CKM_AES_CMAC), o["aes128"]), "C_SignInit s=%d mech=%s k=%d" % (s, mech(C.CKM_RSA_PKCS), o["rsa1024_priv"]),
                         "C_SignInit s=%d mech=%s k=%d" % (s, mech(C.CKM_RSA_X_509), o["rsa1024_priv"]), "C_SignInit s=%d mech=%s k=%d" % (s, mech(C.CKM_RSA_PKCS_PSS, pss_params(C.CKM_SHA_1, C.CKG_MGF1_SHA1, 20)), o["rsa1024_priv"]),
                         "C_SignInit s=%d mech=%s k=%d" % (s, mech(C.CKM_SHA512_RSA_PKCS_PSS, pss_params(C.CKM_SHA512, C.CKG_MGF1_SHA512, 62)), o["rsa1024_priv"]),
                         "C_SignInit s=%d mech=%s k=%d" % (s, mech(C.CKM_DSA), o["dsa_priv"]), "C_SignInit s=%d mech=%s k=%d" % (s, mech(C.CKM_ECDSA), o["ec256_priv"]), "C_SignInit s=%d mech=%s k=%d" % (s, mech(C.CKM_EDDSA), o["ed25519_priv"]),
                         "C_VerifyInit s=%d mech=%s k=%d" % (s, mech(C.CKM_ECDSA), o["ec256_pub"]), "C_VerifyInit s=%d mech=%s k=%d" % (s, mech(C.CKM_RSA_X_509), o["rsa1024_pub"]),
                         "C_VerifyInit s=%d mech=%s k=%d" % (s, mech(C.CKM_EDDSA), o["ed25519_pub"]), "C_VerifyInit s=%d mech=%s k=%d" % (s, mech(C.CKM_DSA_SHA1), o["dsa_pub"])]
                conts = []
                datas = [("0", "x"), ("1", "x41"), ("15", "x" + "41" * 15), ("16", "x" + "41" * 16), ("20", "x" + "41" * 20), ("64", "x" + "41" * 64), ("127", "x" + "41" * 127), ("128", "x" + "41" * 128), ("129", "x" + "41" * 129),
                         ("200", "x" + "41" * 200), ("4096", "x" + "41" * 4096), ("ff128", "x" + "ff" * 128), ("null16", "n16")]
                outs = [("query", "n0"), ("0", "b0"), ("1", "b1"), ("big", "b5000")]
                for f in ("Encrypt", "EncryptUpdate", "Decrypt", "DecryptUpdate", "Sign", "Digest", "SignRecover", "VerifyRecover"):
                    for dn, dv in datas:
                        for on, ov in outs:
                            conts.append(("%s|in=%s|out=%s" % (f, dn, on), "C_%s s=%d in=%s out=%s" % (f, s, dv, ov)))
                for f in ("EncryptFinal", "DecryptFinal", "SignFinal", "DigestFinal"):
                    for on, ov in outs:
                        conts.append(("%s|out=%s" % (f, on), "C_%s s=%d out=%s" % (f, s, ov)))
                for f in ("SignUpdate", "VerifyUpdate", "DigestUpdate", "VerifyFinal"):
                    for dn, dv in datas:
                        conts.append(("%s|in=%s" % (f, dn), "C_%s s=%d in=%s" % (f, s, dv)))
                for dn, dv in datas:
                    for sn, sv in (("0", "x"), ("40", "x" + "00" * 40), ("64", "x" + "00" * 64), ("128", "x" + "00" * 128), ("129", "x" + "00" * 129), ("null", "n64")):
                        conts.append(("Verify|in=%s|sig=%s" % (dn, sn), "C_Verify s=%d in=%s sig=%s" % (s, dv, sv)))
                conts.append(("FindObjects|max=0", "C_FindObjects s=%d max=0" % s)); conts.append(("FindObjects|max=1000", "C_FindObjects s=%d max=1000" % s))
                conts.append(("FindObjects|announce-more", "C_FindObjects s=%d max=2 announce=2" % s))
                conts.append(("DigestKey", "C_DigestKey s=%d k=%d" % (s, o["generic32"]))); conts.append(("DigestKey|rsa", "C_DigestKey s=%d k=%d" % (s, o["rsa1024_priv"])))
                idx = 0
                for il in inits:
                    iname = il.split(" ")[0] + "(" + C.CKM_NAMES.get(int(il.split("mech=")[1].split(":")[0], 16), "?") + ")" if "mech=" in il else il.split(" ")[0]
                    for cname, cl in conts:
                        idx += 1
                        if idx % nchunks != chunk:
                            continue
                        # the continuation twice: multi-part calls after each other and calls on a finished operation
                        run_case(ctx, H, [il, cl, cl], "C17|seq|%s|%s" % (iname, cname), {}, out)
            out["samples"].append({"task": [str(x) for x in task], "cases": ctx.counters.get("cases", 0), "seconds": round(time.time() - t_start, 1)})
        finally:
            sh.unwind(0)
    except Died as d:
        sig = "C17|died-top|%r|%s" % (d.info, (d.during or "")[:80])
        out["viol"][sig] = {"signature": sig, "detail": {"during": (d.during or "")[:400]}, "history": [], "action": None}
        core._fresh_shell()
    except Exception:
        out["harness"] = "task %r: %s" % (task, traceback.format_exc())
        try:
            core._fresh_shell()
        except Exception:
            pass
    out["counters"] = ctx.counters
    for v in out["viol"].values():
        v["task"] = [x for x in task]
    out["viol"] = list(out["viol"].values())
    return out


# ------------------------------------------------------------------------------------------------
# (b) file mutations
def file_mutations(data, quick, is_text=False):
    muts = []
    n = len(data)
    step = 8 if quick else 1
    for k in range(0, n, 1 if n < 200 or not quick else 4):
        muts.append(("truncate@%d" % k, data[:k]))
    for i in range(0, n, step):
        for d, v in (("00", 0), ("ff", 0xFF), ("+1", (data[i] + 1) & 0xFF), ("-1", (data[i] - 1) & 0xFF)):
            if v != data[i]:
                b = bytearray(data); b[i] = v
                muts.append(("byte@%d=%s" % (i, d), bytes(b)))
    if not is_text:
        for off in range(0, n - 7, 8 if not quick else 8):
            cur = struct.unpack(">Q", data[off:off + 8])[0]
            if cur > 0x100000 and off % 8 == 0 and cur < (1 << 62):
                continue
            for v in (0, 1, cur + 1, max(cur - 1, 0), 1 << 31, 1 << 63, (1 << 64) - 1, n, n + 1):
                if v != cur:
                    muts.append(("u64@%d=%s" % (off, "2^63" if v == 1 << 63 else ("max" if v == (1 << 64) - 1 else ("2^31" if v == 1 << 31 else str(v)))), data[:off] + struct.pack(">Q", v & ((1 << 64) - 1)) + data[off + 8:]))
        muts.append(("append-garbage", data + b"\x00" * 9))
        # well-formed files with a byte-string attribute of another LENGTH (the value replaced, the length field consistent): fixed-size destinations
        # in the library (token label 32, serial 16, ...) must not trust the stored length
        off = 8
        recs = []
        fields = []      # offsets of the 8-byte fields of every record (type, kind, length / count / ulong value): boolean values are one byte long, so the
                         # fields of the records behind the first boolean are NOT 8-aligned and the aligned sweep above never hits them exactly
        try:
            while off + 16 <= n:
                t, k = struct.unpack(">QQ", data[off:off + 16])
                v0 = off + 16
                fields += [("type", off, t), ("kind", off + 8, t)]
                if k in (2, 3, 4, 5) and v0 + 8 <= n:
                    fields.append(({2: "ulong", 3: "len", 4: "maplen", 5: "count"}[k], v0, t))
                if k == 1:
                    off = v0 + 1
                elif k == 2:
                    off = v0 + 8
                elif k in (3, 4):
                    ln = struct.unpack(">Q", data[v0:v0 + 8])[0]
                    if v0 + 8 + ln > n:
                        break
                    if k == 3:
                        recs.append((t, v0, ln))
                    off = v0 + 8 + ln
                elif k == 5:
                    cnt = struct.unpack(">Q", data[v0:v0 + 8])[0]
                    off = v0 + 8 + 8 * cnt
                else:
                    break
        except struct.error:
            pass
        seen_kind = set()
        for what, foff, t in fields:
            if foff % 8 == 0 and what not in ("count", "maplen"):
                continue                      # aligned fields are covered by the sweep above
            if quick and (what, t) in seen_kind:
                continue
            seen_kind.add((what, t))
            cur = struct.unpack(">Q", data[foff:foff + 8])[0]
            for v in (0, 1, cur + 1, max(cur - 1, 0), 6, 1 << 31, 1 << 60, (1 << 61) + 1, 1 << 63, (1 << 64) - 1, n, n + 1):
                if v != cur:
                    muts.append(("field@%d=%s-of-0x%x:=%s" % (foff, what, t, v if v < 4096 else hex(v)), data[:foff] + struct.pack(">Q", v & ((1 << 64) - 1)) + data[foff + 8:]))
        for t, v0, ln in recs:
            for L in sorted({0, 1, 15, 16, 17, 31, 32, 33, 64, 255, 256, 4097} | ({70000} if not quick else set())):
                if L != ln:
                    muts.append(("grow@%d=attr-0x%x-len-%d" % (v0, t, L), data[:v0] + struct.pack(">Q", L) + b"A" * L + data[v0 + 8 + ln:]))
            # ... and of the SAME length with other content (text that is no number in any base, zero bytes): values the library parses must not be trusted either
            if 0 < ln <= 64:
                for fname, fill in (("text", b"Zq#~"), ("zeros", b"\x00")):
                    muts.append(("refill@%d=attr-0x%x-%s" % (v0, t, fname), data[:v0 + 8] + (fill * ln)[:ln] + data[v0 + 8 + ln:]))
    return muts


def conf_mutations():
    base = P.CONF_TEMPLATE % dict(backend="file", mechanisms="ALL", umask="0077")
    lines = base.strip().split("\n")
    out = []
    for i in range(len(lines)):
        out.append(("drop-line-%d" % i, "\n".join(lines[:i] + lines[i + 1:]) + "\n"))
        out.append(("dup-line-%d" % i, "\n".join(lines[:i + 1] + lines[i:]) + "\n"))
        key = lines[i].split("=")[0].strip()
        for vn, v in (("empty", ""), ("long", "x" * 5000), ("nonnumeric", "abc"), ("dash", "-"), ("commas", ",,"), ("negative", "-1"), ("huge", "99999999999999999999"), ("spaces", "   "), ("nul", "a\x00b"),
                      ("minus-list", "-CKM_AES_ECB,,-"), ("unknown-mech", "CKM_NOPE"), ("repeated-mech", "CKM_SHA256,CKM_RSA_PKCS,CKM_AES_CBC,CKM_SHA256"), ("repeated-mech-negative", "-CKM_SHA256,CKM_RSA_PKCS,CKM_SHA256"), ("db", "db"), ("true", "true"), ("unicode", "\xff\xfe")):
            out.append(("%s=%s" % (key, vn), "\n".join(lines[:i] + ["%s = %s" % (key, v)] + lines[i + 1:]) + "\n"))
    out += [("empty-file", ""), ("no-newline", base.strip()), ("only-equals", "=\n==\n = \n"), ("unknown-key", base + "foo.bar = 1\n"), ("binary", bytes(range(256)).decode("latin1")),
            ("long-line", "directories.tokendir = " + "a/" * 3000 + "\n" + base), ("comment-only", "# x\n"), ("key-no-value", "directories.tokendir\n" + base), ("crlf", base.replace("\n", "\r\n"))]
    return out


def _task_files(task):
    """apply mutation #i..j of a target file in a private copy of the world, then run the load-and-use sequence in a fresh process"""
    target, lo, hi, quick = task
    ctx = core._W["ctx"]
    ctx.counters = {}
    out = {"viol": {}, "harness": None, "counters": None, "samples": []}
    try:
        src = core._W["template"]["dir"]
        tokdirs = sorted(d for d in os.listdir(os.path.join(src, "tokens")))
        # token A's directory: the one with more object files
        tdir = max(tokdirs, key=lambda d: len(os.listdir(os.path.join(src, "tokens", d))))
        if target == "conf":
            muts = conf_mutations()
            rel = "softhsm2.conf"
        else:
            files = sorted(f for f in os.listdir(os.path.join(src, "tokens", tdir)) if f.endswith(".object"))
            if target == "token":
                rel = os.path.join("tokens", tdir, "token.object")
            else:
                objs = [f for f in files if f != "token.object"]
                sizes = sorted((os.path.getsize(os.path.join(src, "tokens", tdir, f)), f) for f in objs)
                rel = os.path.join("tokens", tdir, sizes[{"object-small": 0, "object-large": -1}[target]][1])
            muts = file_mutations(open(os.path.join(src, rel), "rb").read(), quick)
        for mi in range(lo, min(hi, len(muts))):
            mname, content = muts[mi]
            work = os.path.join(ctx.root, "files", "d0")
            shutil.rmtree(os.path.dirname(work), ignore_errors=True)
            shutil.copytree(src, work)
            with open(os.path.join(work, rel), "wb") as f:
                f.write(content.encode("latin1") if isinstance(content, str) else content)
            ctx.count("cases")
            sig = "C17|file|%s|%s" % (target, mname.split("@")[0] if target != "conf" else mname)
            shx = P.Shell(ctx.variant, work)
            px = P.P11(shx)
            try:
                r = px.Initialize()
                asan = r.get("asan", 0)
                if r["rv"] == 0:
                    sm = {}
                    n = px.GetSlotList(1, "q").get("n", 0)
                    slots = px.GetSlotList(1, n + 2).get("slots", [])
                    for sl in slots:
                        ti = px.GetTokenInfo(sl)
                        # the two-call convention with EXACTLY the reported count (the list buffer ends at a guard page)
                        nm = px.GetMechanismList(sl, "q")
                        if nm["rv"] == 0 and nm.get("n", 0) < 4096:
                            rr = px.GetMechanismList(sl, nm["n"])
                            asan += rr.get("asan", 0)
                            if rr.get("wmax", 0) > 8 * nm["n"]:
                                out["viol"].setdefault(sig + "|mechanism-list-written-beyond-announced-count", {"signature": sig + "|mechanism-list-written-beyond-announced-count", "detail": {"mutation": mname, "file": rel, "announced": nm["n"], "wmax": rr.get("wmax")}, "history": [], "action": None, "task": [target, mi, mi + 1, quick]})
                        o = px.OpenSession(sl)
                        if o["rv"] != 0:
                            continue
                        s = o["h"]
                        for pin in (W.USER_A, W.USER_B):
                            if px.Login(s, C.CKU_USER, pin)["rv"] == 0:
                                break
                        hs = px.FindAll(s).get("hs", [])
                        for h in hs:
                            rr = px.call("C_GetAttributeValue s=%d o=%d tpl=%s" % (s, h, tpl([(t, Out(600)) for t in (C.CKA_CLASS, C.CKA_LABEL, C.CKA_VALUE, C.CKA_MODULUS, C.CKA_PRIVATE_EXPONENT, C.CKA_KEY_TYPE, C.CKA_ALLOWED_MECHANISMS, C.CKA_ID, C.CKA_TOKEN, C.CKA_SENSITIVE)])))
                            asan += rr.get("asan", 0)
                            px.batch(["C_SignInit s=%d mech=%s k=%d" % (s, mech(C.CKM_SHA256_RSA_PKCS), h), "C_Sign s=%d in=x616263 out=b300" % s,
                                      "C_EncryptInit s=%d mech=%s k=%d" % (s, mech(C.CKM_AES_ECB), h), "C_Encrypt s=%d in=x%s out=b32" % (s, bytes(16).hex())])
                        # searches that compare byte-string attributes decrypt them (also those of the damaged object); every continuation of a
                        # search whose Init failed must be harmless as well
                        for ft in ([(C.CKA_LABEL, b"tok-aes128")], [(C.CKA_ID, b"x")], [(C.CKA_CLASS, C.CKO_PRIVATE_KEY), (C.CKA_LABEL, b"tok-rsa1024_priv")]):
                            for rr in px.batch(["C_FindObjectsInit s=%d tpl=%s" % (s, tpl(ft)), "C_FindObjects s=%d max=8" % s, "C_FindObjectsFinal s=%d" % s]):
                                asan += rr.get("asan", 0)
                        px.call("C_FindObjectsInit s=%d tpl=%s" % (s, tpl([(C.CKA_LABEL, b"tok-aes128")])))
                        px.call("C_CreateObject s=%d tpl=%s" % (s, tpl(F.template("data", token=True, private=False, label=b"after-mutation"))))
                        px.CloseSession(s)
                    r2 = px.Finalize()
                    asan += r2.get("asan", 0)
                    ctx.count("loads_ok")
                else:
                    ctx.count("initialize_refused")
                if asan:
                    out["viol"].setdefault(sig + "|asan-report", {"signature": sig + "|asan-report", "detail": {"mutation": mname, "file": rel}, "history": [], "action": None, "task": [target, mi, mi + 1, quick]})
            except Died as d:
                how = "hang" if d.info.get("hang") else ("signal" if (d.info.get("returncode") or 0) < 0 else "exit-%s" % d.info.get("returncode"))
                shx.close()
                log = ""
                import glob as _g, io, tarfile, base64
                for lf in _g.glob(os.path.join(os.path.dirname(work), "asan.log*")):
                    log += open(lf, errors="replace").read()[:3000]
                buf = io.BytesIO()
                with tarfile.open(fileobj=buf, mode="w:gz") as tf:
                    tf.add(work, arcname="d0")
                out["viol"].setdefault(sig + "|" + how, {"signature": sig + "|" + how, "detail": {"mutation": mname, "file": rel, "died": d.info, "during": (d.during or "")[:200], "asan_log": log[:2500]},
                                                          "history": [], "action": None, "task": [target, mi, mi + 1, quick], "world_tgz_b64": base64.b64encode(buf.getvalue()).decode()})
            finally:
                shx.close()
        shutil.rmtree(os.path.join(ctx.root, "files"), ignore_errors=True)
    except Exception:
        out["harness"] = "task %r: %s" % (task, traceback.format_exc())
    out["counters"] = ctx.counters
    out["viol"] = list(out["viol"].values())
    return out


def _count_muts(target, quick):
    ctx = core._W["ctx"]
    src = core._W["template"]["dir"]
    if target == "conf":
        return len(conf_mutations())
    tokdirs = sorted(os.listdir(os.path.join(src, "tokens")))
    tdir = max(tokdirs, key=lambda d: len(os.listdir(os.path.join(src, "tokens", d))))
    files = sorted(f for f in os.listdir(os.path.join(src, "tokens", tdir)) if f.endswith(".object"))
    if target == "token":
        f = "token.object"
    else:
        objs = [f for f in files if f != "token.object"]
        sizes = sorted((os.path.getsize(os.path.join(src, "tokens", tdir, f)), f) for f in objs)
        f = sizes[{"object-small": 0, "object-large": -1}[target]][1]
    return len(file_mutations(open(os.path.join(src, "tokens", tdir, f), "rb").read(), quick))


def _task_fresh(task):
    core._fresh_shell()
    return _task_files(task) if task[0] in ("conf", "token", "object-small", "object-large") else _task(task)


def main(tier):
    rep = Report("C17", tier, "exploration")
    quick = tier == "quick"
    variant = "ossl-asan"
    deadline = time.time() + (600 if quick else 2400)
    ex = Explorer(C17(), variant=variant)
    cnt, samples, timed_out = {}, [], False
    try:
        tasks = []
        for op in ("Encrypt", "Decrypt", "Sign", "Verify", "Wrap", "WrapTarget", "Unwrap", "Derive", "DigestKey"):
            tasks.append(("a1", op, quick))
        nch = 2 if quick else 16
        for st in STATES:
            for c in range(nch):
                tasks.append(("a2", st, not quick, c, nch))
        for c in range(8):
            tasks.append(("a3", c, 8))
        for target in ("conf", "token", "object-small", "object-large"):
            n = ex.pool.apply(_count_muts, (target, quick))
            stepn = max(1, n // 24)
            for lo in range(0, n, stepn):
                tasks.append((target, lo, lo + stepn, quick))
        found = {}
        it = ex.pool.imap_unordered(_dispatch, tasks)
        for r in it:
            if r["harness"]:
                rep.harness_errors.append(r["harness"])
            for k, v in (r["counters"] or {}).items():
                cnt[k] = cnt.get(k, 0) + v
            for v in r["viol"]:
                found.setdefault(v["signature"], v)
            samples += r["samples"][:1]
            if time.time() > deadline:
                timed_out = True
                break
        if timed_out:
            ex.pool.terminate(); ex.pool.join()
            import multiprocessing as mp
            ex.pool = mp.get_context("fork").Pool(ex.workers, core._worker_init, (ex.check, ex.variant, ex.store, ex.template, ex.base_root))
        # confirm: re-run the owning task of each violation in a fresh shell (tasks are deterministic)
        by_task = {}
        for sig, v in sorted(found.items()):
            by_task.setdefault(tuple(v["task"]), []).append(sig)
        tl = sorted(by_task, key=repr)
        res = ex.pool.map(_task_fresh, tl, chunksize=1)
        for t, r in zip(tl, res):
            seen = {x["signature"] for x in r["viol"]}
            for sig in by_task[t]:
                if sig in seen:
                    v = dict(found[sig]); v.update(variant=variant, store="file", replay_module="c17_robust")
                    rep.add_violation(v)
                else:
                    rep.harness_errors.append("violation %s did not reproduce" % sig)
    finally:
        ex.close()
    rvs = {k: v for k, v in cnt.items() if k.startswith("rv_")}
    reached = sum(v for k, v in rvs.items() if k not in ("rv_CKR_SESSION_HANDLE_INVALID", "rv_CKR_CRYPTOKI_NOT_INITIALIZED", "rv_CKR_ARGUMENTS_BAD", "rv_CKR_OBJECT_HANDLE_INVALID", "rv_CKR_KEY_HANDLE_INVALID"))
    if cnt.get("cases", 0) < 1000 or len(rvs) < 10:
        rep.harness_errors.append("vacuous: %r" % cnt)
    rep.coverage = {"evaluations": cnt.get("cases", 0), "distinct_nontrivial": reached + cnt.get("loads_ok", 0), "samples": samples[:8], "exhaustive": not timed_out, "variant": variant,
                    "distinct_return_codes": len(rvs), "return_codes": rvs, "file_loads_ok": cnt.get("loads_ok", 0), "file_initialize_refused": cnt.get("initialize_refused", 0),
                    "rule": "one evaluation = one case (request line(s) or file mutation) executed in its own snapshot / process under ASan; non-trivial = cases whose last call got past "
                            "handle and argument validation (return code other than *_HANDLE_INVALID, ARGUMENTS_BAD, NOT_INITIALIZED) plus mutated files the library still loaded; "
                            "combination bound t = %d deviations per call" % (1 if quick else 2)}
    rep.assumptions = ["all pointers handed to the library reference memory of the announced size (guard pages behind every buffer make harness mistakes fault in the harness' name)",
                       "argument domains as listed in the check source; simultaneous independent file corruptions are not enumerated"]
    return rep.finish()


def _dispatch(task):
    return _task_files(task) if task[0] in ("conf", "token", "object-small", "object-large") else _task(task)


def load_sequence(px):
    """what the file-mutation cases do with a (possibly corrupt) world; raises Died when the process dies"""
    r = px.Initialize()
    if r["rv"] != 0:
        return
    n = px.GetSlotList(1, "q").get("n", 0)
    for sl in px.GetSlotList(1, n + 2).get("slots", []):
        o = px.OpenSession(sl)
        if o["rv"] != 0:
            continue
        s = o["h"]
        for pin in (W.USER_A, W.USER_B):
            if px.Login(s, C.CKU_USER, pin)["rv"] == 0:
                break
        for h in px.FindAll(s).get("hs", []):
            px.call("C_GetAttributeValue s=%d o=%d tpl=%s" % (s, h, tpl([(t, Out(600)) for t in (C.CKA_CLASS, C.CKA_LABEL, C.CKA_VALUE, C.CKA_MODULUS, C.CKA_PRIVATE_EXPONENT, C.CKA_KEY_TYPE, C.CKA_ALLOWED_MECHANISMS, C.CKA_ID, C.CKA_TOKEN, C.CKA_SENSITIVE)])))
            px.batch(["C_SignInit s=%d mech=%s k=%d" % (s, mech(C.CKM_SHA256_RSA_PKCS), h), "C_Sign s=%d in=x616263 out=b300" % s,
                      "C_EncryptInit s=%d mech=%s k=%d" % (s, mech(C.CKM_AES_ECB), h), "C_Encrypt s=%d in=x%s out=b32" % (s, bytes(16).hex())])
        px.CloseSession(s)
    px.Finalize()


def replay(rec):
    import sys
    sys.path.insert(0, P.VERIF + "/tools")
    import build_sut
    build_sut.build(rec["variant"])
    if rec.get("world_tgz_b64"):
        import base64, io, tarfile
        root = P.scratch_root()
        try:
            tarfile.open(fileobj=io.BytesIO(base64.b64decode(rec["world_tgz_b64"])), mode="r:gz").extractall(root)
            shx = P.Shell(rec["variant"], os.path.join(root, "d0"))
            try:
                load_sequence(P.P11(shx))
                print("the recorded world loads and works without the process dying")
                return 0
            except Died as d:
                print("process died:", d.info, "during", (d.during or "")[:200])
                print("VIOLATION property=C17 replay=%s" % sys.argv[1])
                return 1
            finally:
                shx.close()
        finally:
            shutil.rmtree(root, ignore_errors=True)
    check = C17()
    root = P.scratch_root()
    try:
        template = core.build_template(check, rec["variant"], "file", root)
        core._worker_init(check, rec["variant"], "file", template, root)
        t = tuple(rec["task"])
        r = _dispatch(t)
        if core._W["ctx"].sh:
            core._W["ctx"].stop_shell()
        sigs = [v["signature"] for v in r["viol"]]
        print("task:", rec["task"], "\nrequest(s):", rec.get("history"), "\nrecorded:", rec["signature"], "\nobserved:", sigs[:10])
        if rec["signature"] in sigs:
            print("VIOLATION property=C17 replay=%s" % sys.argv[1])
            return 1
        return 0
    finally:
        shutil.rmtree(root, ignore_errors=True)
