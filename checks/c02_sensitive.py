"""C02 - sensitive or unextractable key material never leaves the token in the clear (DESIGN.md 3/C02).

BFS on the real library: a key of every kind is brought into existence by every origin (create, generate, unwrap, derive,
copy) with every requested (SENSITIVE, EXTRACTABLE) combination, then histories of C_SetAttributeValue (SENSITIVE,
EXTRACTABLE, WRAP_WITH_TRUSTED both ways), C_CopyObject (all template subsets that try to weaken) and the three
concatenation derivations follow.  In EVERY state, for EVERY live key: every secret attribute is read alone and inside mixed
templates with NULL / 0-byte / short / exact / oversized buffers, and the key is wrapped under trusted and untrusted
wrapping keys with every wrap mechanism.  Oracle: the sticky-protection model of the statement plus a taint scan of every
output buffer for 8-byte windows of the known secret values.
"""
import itertools, json, time
from p11mc import consts as C
from p11mc.core import CheckBase, Explorer, Violation, confirm_violations
from p11mc.runner import Report
from p11mc import world as W, fixtures as F
from p11mc.p11 import Out, Null, tpl, mech, ul, keyderiv_string, ecdh_params

SECRETS = {C.CKO_SECRET_KEY: [C.CKA_VALUE], "rsa": [C.CKA_PRIVATE_EXPONENT, C.CKA_PRIME_1, C.CKA_PRIME_2, C.CKA_EXPONENT_1, C.CKA_EXPONENT_2, C.CKA_COEFFICIENT], "other": [C.CKA_VALUE]}
KINDS = ["aes128", "generic32", "rsa1024_priv", "ec256_priv", "dsa_priv", "dh_priv", "ed25519_priv"]
FLAGSETS = {"TT": (True, True), "TF": (True, False), "FT": (False, True), "FF": (False, False), "--": (None, None)}
WRAP_MECHS = [C.CKM_AES_KEY_WRAP, C.CKM_AES_KEY_WRAP_PAD, C.CKM_AES_CBC_PAD, C.CKM_AES_CBC, C.CKM_AES_ECB, C.CKM_RSA_PKCS, C.CKM_RSA_PKCS_OAEP]
IV16 = bytes(range(16))


def secret_attrs(kind):
    if kind.startswith("rsa"):
        return SECRETS["rsa"]
    return [C.CKA_VALUE]


class Key:
    def __init__(self, h, kind, origin, sens, unextr, wwt, known):
        self.h, self.kind, self.origin = h, kind, origin
        self.sens, self.unextr, self.wwt = sens, unextr, wwt     # model: sticky protections
        self.known = known      # attr -> known secret bytes (for the taint scan), may be empty for generated keys


class Model:
    def __init__(self):
        self.keys = []
        self.s = 0
        self.trusted = {}
        self.kek = 0


class C02(CheckBase):
    ID = "C02"

    def __init__(self, kinds=tuple(KINDS), max_keys=2):
        self.kw = dict(kinds=tuple(kinds), max_keys=max_keys)
        self.kinds, self.max_keys = list(kinds), max_keys

    def world(self, ctx):
        w = W.two_tokens(ctx)
        p = ctx.p
        W.ok(p.Initialize(), "init")
        s = W.ok(p.OpenSession(w["slots"]["A"]), "open")["h"]
        W.ok(p.Login(s, C.CKU_SO, W.SO_A), "login so")
        W.ok(p.CreateObject(s, F.template("aes256", token=True, private=False, label=b"trusted-aes", extra=[(C.CKA_WRAP, True), (C.CKA_TRUSTED, True)])), "trusted aes")
        W.ok(p.CreateObject(s, F.template("rsa2048_pub", token=True, private=False, label=b"trusted-rsa", extra=[(C.CKA_WRAP, True), (C.CKA_TRUSTED, True)])), "trusted rsa")
        W.ok(p.Logout(s), "logout")
        W.ok(p.Finalize(), "final")
        return w

    def setup(self, ctx, world):
        p = ctx.p
        W.ok(p.Initialize(), "init")
        m = Model()
        m.s = W.ok(p.OpenSession(world["slots"]["A"]), "open")["h"]
        W.ok(p.Login(m.s, C.CKU_USER, W.USER_A), "login")
        m.trusted["aes-trusted"] = p.FindAll(m.s, [(C.CKA_LABEL, b"trusted-aes")])["hs"][0]
        m.trusted["rsa-trusted"] = p.FindAll(m.s, [(C.CKA_LABEL, b"trusted-rsa")])["hs"][0]
        m.trusted["aes-untrusted"] = W.ok(p.CreateObject(m.s, F.template("aes256", token=False, private=False, label=b"plain-aes", extra=[(C.CKA_WRAP, True), (C.CKA_UNWRAP, True)])), "aes")["h"]
        m.trusted["rsa-untrusted"] = W.ok(p.CreateObject(m.s, F.template("rsa2048_pub", token=False, private=False, label=b"plain-rsa", extra=[(C.CKA_WRAP, True)])), "rsa")["h"]
        for nm in ("aes-trusted", "rsa-trusted"):
            rv, v = p.get_attr(m.s, m.trusted[nm], C.CKA_TRUSTED)
            if not v:
                raise RuntimeError("set-up: %s is not trusted" % nm)
        return m

    # ---- alphabet
    def actions(self, m):
        acts = []
        if len(m.keys) == 0:
            for kind in self.kinds:
                for fs in FLAGSETS:
                    acts.append(("make", "create", kind, fs))
                    if fs != "FT":
                        acts.append(("make", "create-public", kind, fs))     # protected key stored as a PUBLIC object
            for kind in ("aes128", "generic32", "ec256_priv"):
                for fs in FLAGSETS:
                    acts.append(("make", "generate", kind, fs))
            for kind in ("aes128", "rsa1024_priv", "ec256_priv"):
                for fs in FLAGSETS:
                    acts.append(("make", "unwrap", kind, fs))
            for how in ("ecdh", "aes-ecb-encrypt-data"):
                for fs in FLAGSETS:
                    acts.append(("make", "derive-" + how, "generic32", fs))
            return acts
        for i, k in enumerate(m.keys):
            for attr, nm in ((C.CKA_SENSITIVE, "sens"), (C.CKA_EXTRACTABLE, "extr"), (C.CKA_WRAP_WITH_TRUSTED, "wwt")):
                for val in (True, False):
                    acts.append(("set", i, nm, val))
            # CK_BBOOL values other than 0 and 1 ("true" to every consumer that tests for non-zero) must not get past a guard that compares with CK_TRUE
            for val in (b"\x02", b"\xff"):
                acts.append(("set", i, "extr", val))
            if len(m.keys) < self.max_keys:
                for sub in ("none", "S0", "E1", "S0E1", "S1", "E0", "P1T1", "W0", "S0E1W0", "E2", "Eff"):
                    acts.append(("copy", i, sub))
                # the protecting value first, the weakening one last in ONE template (a check that reads the first entry while the store applies the last)
                if k.sens:
                    acts.append(("copy", i, "S1S0"))
                if k.unextr:
                    acts.append(("copy", i, "E0E1"))
                if k.wwt:
                    acts.append(("copy", i, "W1W0"))
                if F.klass(k.kind) == C.CKO_SECRET_KEY:
                    for mm in ("base-and-data", "data-and-base"):
                        for sub in ("none", "S0E1"):
                            acts.append(("concat", i, mm, sub))
        if len(m.keys) == 2 and all(F.klass(k.kind) == C.CKO_SECRET_KEY for k in m.keys) and len(m.keys) < self.max_keys + 1:
            for sub in ("none", "S0E1"):
                acts.append(("concat-keys", 0, 1, sub))
                acts.append(("concat-keys", 1, 0, sub))
        return acts

    SUBS = {"S1S0": [(C.CKA_SENSITIVE, True), (C.CKA_SENSITIVE, False)], "E0E1": [(C.CKA_EXTRACTABLE, False), (C.CKA_EXTRACTABLE, True)],
            "W1W0": [(C.CKA_WRAP_WITH_TRUSTED, True), (C.CKA_WRAP_WITH_TRUSTED, False)], "E2": [(C.CKA_EXTRACTABLE, b"\x02")], "Eff": [(C.CKA_EXTRACTABLE, b"\xff")], "none": [], "S0": [(C.CKA_SENSITIVE, False)], "E1": [(C.CKA_EXTRACTABLE, True)], "S0E1": [(C.CKA_SENSITIVE, False), (C.CKA_EXTRACTABLE, True)],
            "S1": [(C.CKA_SENSITIVE, True)], "E0": [(C.CKA_EXTRACTABLE, False)], "P1T1": [(C.CKA_PRIVATE, True), (C.CKA_TOKEN, True)],
            "W0": [(C.CKA_WRAP_WITH_TRUSTED, False)], "S0E1W0": [(C.CKA_SENSITIVE, False), (C.CKA_EXTRACTABLE, True), (C.CKA_WRAP_WITH_TRUSTED, False)]}

    def flags_tpl(self, fs):
        s_, e_ = FLAGSETS[fs]
        t = []
        if s_ is not None:
            t.append((C.CKA_SENSITIVE, s_))
        if e_ is not None:
            t.append((C.CKA_EXTRACTABLE, e_))
        return t

    def actual(self, ctx, m, h):
        r = ctx.p.get_attrs(m.s, h, [C.CKA_SENSITIVE, C.CKA_EXTRACTABLE, C.CKA_WRAP_WITH_TRUSTED])
        return (r.get(C.CKA_SENSITIVE) is True, r.get(C.CKA_EXTRACTABLE) is True, r.get(C.CKA_WRAP_WITH_TRUSTED) is True)

    def new_key(self, ctx, m, h, kind, origin, known, inherit_sens=False, inherit_unextr=False, inherit_wwt=False):
        s_, e_, w_ = self.actual(ctx, m, h)
        k = Key(h, kind, origin, s_ or inherit_sens, (not e_) or inherit_unextr, w_ or inherit_wwt, known)
        m.keys.append(k)
        return k

    def step(self, ctx, m, a):
        p = ctx.p
        k0 = a[0]
        if k0 == "make":
            _, origin, kind, fs = a
            ft = self.flags_tpl(fs)
            known = {t: v for t, v in F.base(kind) if t in secret_attrs(kind) and isinstance(v, bytes)}
            usage = [(C.CKA_DERIVE, True)] if F.klass(kind) == C.CKO_SECRET_KEY else []
            if origin in ("create", "create-public"):
                T = F.template(kind, token=False, private=(origin == "create"), label=b"k", plain=False, extra=ft + usage)
                r = p.CreateObject(m.s, T)
            elif origin == "generate":
                if kind == "ec256_priv":
                    r = p.GenerateKeyPair(m.s, mech(C.CKM_EC_KEY_PAIR_GEN), [(C.CKA_EC_PARAMS, F.H(F.KEYS["ec256"]["params"]))], [(C.CKA_TOKEN, False), (C.CKA_LABEL, b"k")] + ft)
                    r["h"] = r.get("hpriv", 0)
                else:
                    gm, n = (C.CKM_AES_KEY_GEN, 16) if kind == "aes128" else (C.CKM_GENERIC_SECRET_KEY_GEN, 32)
                    r = p.GenerateKey(m.s, mech(gm), [(C.CKA_VALUE_LEN, n), (C.CKA_TOKEN, False), (C.CKA_LABEL, b"k")] + ft + usage)
                known = {}
            elif origin == "unwrap":
                src = W.ok(p.CreateObject(m.s, F.template(kind, token=False, private=True, label=b"src")), "src")["h"]
                wm = mech(C.CKM_AES_KEY_WRAP_PAD)
                rr = W.ok(p.WrapKey(m.s, wm, m.trusted["aes-untrusted"], src, Out(2000)), "wrap")
                p.DestroyObject(m.s, src)
                cls, kt = dict(F.base(kind))[C.CKA_CLASS], dict(F.base(kind))[C.CKA_KEY_TYPE]
                r = p.UnwrapKey(m.s, wm, m.trusted["aes-untrusted"], bytes.fromhex(rr["out"])[:rr["len"]],
                                [(C.CKA_CLASS, cls), (C.CKA_KEY_TYPE, kt), (C.CKA_TOKEN, False), (C.CKA_LABEL, b"k")] + ft + usage)
            else:
                T = [(C.CKA_CLASS, C.CKO_SECRET_KEY), (C.CKA_KEY_TYPE, C.CKK_GENERIC_SECRET), (C.CKA_VALUE_LEN, 32), (C.CKA_TOKEN, False), (C.CKA_LABEL, b"k")] + ft + usage
                if origin == "derive-ecdh":
                    b = W.ok(p.CreateObject(m.s, F.template("ec256_priv", token=False, private=True, label=b"b", extra=[(C.CKA_DERIVE, True)])), "b")["h"]
                    r = p.DeriveKey(m.s, mech(C.CKM_ECDH1_DERIVE, ecdh_params(F.H(F.KEYS["ec256peer"]["rawpoint"]))), b, T)
                else:
                    b = W.ok(p.CreateObject(m.s, F.template("aes128", token=False, private=True, label=b"b", extra=[(C.CKA_DERIVE, True)])), "b")["h"]
                    r = p.DeriveKey(m.s, mech(C.CKM_AES_ECB_ENCRYPT_DATA, keyderiv_string(bytes(range(32)))), b, T)
                p.DestroyObject(m.s, b)
                known = {}
            if r["rv"] == 0 and r.get("h"):
                key = self.new_key(ctx, m, r["h"], kind, origin, known)
                s_req, e_req = FLAGSETS[fs]
                # what was requested must not be weaker in the result
                if s_req is True and not key.sens:
                    raise Violation("C02|make-%s|requested-sensitive-but-not-sensitive|%s" % (origin, kind), {})
                if e_req is False and not key.unextr:
                    raise Violation("C02|make-%s|requested-unextractable-but-extractable|%s" % (origin, kind), {})
                ctx.count("make_ok")
            else:
                ctx.count("make_refused")
            return m
        if k0 == "set":
            _, i, nm, val = a
            k = m.keys[i]
            attr = {"sens": C.CKA_SENSITIVE, "extr": C.CKA_EXTRACTABLE, "wwt": C.CKA_WRAP_WITH_TRUSTED}[nm]
            r = p.SetAttributeValue(m.s, k.h, [(attr, val)])
            weakening = (nm == "sens" and not val and k.sens) or (nm == "extr" and val and k.unextr) or (nm == "wwt" and not val and k.wwt)
            if r["rv"] == 0:
                if weakening:
                    raise Violation("C02|set|protection-removed|%s|%s" % (nm, k.kind), {"origin": k.origin})
                if nm == "sens" and val:
                    k.sens = True
                if nm == "extr" and not val:
                    k.unextr = True
                if nm == "wwt" and val:
                    k.wwt = True
                ctx.count("set_ok")
            else:
                ctx.count("set_refused")
            return m
        if k0 == "copy":
            _, i, sub = a
            k = m.keys[i]
            T = [(C.CKA_LABEL, b"copy")] + self.SUBS[sub]
            r = p.CopyObject(m.s, k.h, T)
            if r["rv"] == 0 and r.get("h"):
                self.new_key(ctx, m, r["h"], k.kind, "copy-of-" + k.origin, k.known, k.sens, k.unextr, k.wwt)
                ctx.count("copy_ok")
            else:
                ctx.count("copy_refused")
            return m
        if k0 in ("concat", "concat-keys"):
            if k0 == "concat":
                _, i, mm, sub = a
                k = m.keys[i]
                dm = mech(C.CKM_CONCATENATE_BASE_AND_DATA if mm == "base-and-data" else C.CKM_CONCATENATE_DATA_AND_BASE, keyderiv_string(b"DATADATA"))
                parents = [k]
            else:
                _, i, j, sub = a
                k, o = m.keys[i], m.keys[j]
                dm = mech(C.CKM_CONCATENATE_BASE_AND_KEY, ul(o.h))
                parents = [k, o]
            T = [(C.CKA_TOKEN, False), (C.CKA_LABEL, b"derived")] + self.SUBS[sub]
            r = p.DeriveKey(m.s, dm, k.h, T)
            if r["rv"] == 0 and r.get("h"):
                known = {}
                if all(C.CKA_VALUE in x.known for x in parents):
                    kv = parents[0].known[C.CKA_VALUE]
                    known = {C.CKA_VALUE: (kv + b"DATADATA") if k0 == "concat" and a[2] == "base-and-data" else ((b"DATADATA" + kv) if k0 == "concat" else kv + parents[1].known[C.CKA_VALUE])}
                self.new_key(ctx, m, r["h"], "generic32", k0, known, any(x.sens for x in parents), any(x.unextr for x in parents), False)
                ctx.count("concat_ok")
            else:
                ctx.count("concat_refused")
            return m
        raise RuntimeError(a)

    # ---- probes in every state
    def probe(self, ctx, m):
        p = ctx.p
        taint = []
        # values that some live key may legitimately reveal (e.g. a copy taken BEFORE the original was made sensitive) are not tainted
        readable = [v for k in m.keys if not (k.sens or k.unextr) for v in k.known.values()]
        for k in m.keys:
            for t, v in k.known.items():
                if len(v) >= 8 and (k.sens or k.unextr) and not any(v in r or r in v for r in readable):
                    taint += [v[i:i + 8].hex() for i in range(0, len(v) - 7, 3)]
        for k in m.keys:
            s_act, e_act, w_act = self.actual(ctx, m, k.h)
            if k.sens and not s_act:
                ctx.report("C02|policy|CKA_SENSITIVE-reads-false-on-key-the-model-holds-sensitive|%s|%s" % (k.kind, k.origin.split("-")[0]), {"origin": k.origin})
            if k.unextr and e_act:
                ctx.report("C02|policy|CKA_EXTRACTABLE-reads-true-on-key-the-model-holds-unextractable|%s|%s" % (k.kind, k.origin.split("-")[0]), {"origin": k.origin})
            if k.wwt and not w_act:
                ctx.report("C02|policy|CKA_WRAP_WITH_TRUSTED-lost|%s|%s" % (k.kind, k.origin.split("-")[0]), {"origin": k.origin})
            protected = k.sens or k.unextr or s_act or not e_act
            lines, plan = [], []
            for sa in secret_attrs(k.kind):
                n = len(k.known.get(sa, b"")) or 32
                for shape, spec in (("null", Null(0)), ("zero", Out(0)), ("short", Out(max(n - 1, 1))), ("exact", Out(n)), ("big", Out(n + 16))):
                    lines.append("C_GetAttributeValue s=%d o=%d tpl=%s" % (m.s, k.h, tpl([(sa, spec)])))
                    plan.append((sa, shape, 0, 1))
                    lines.append("C_GetAttributeValue s=%d o=%d tpl=%s" % (m.s, k.h, tpl([(C.CKA_CLASS, Out(8)), (sa, spec), (C.CKA_LABEL, Out(16))])))
                    plan.append((sa, shape, 1, 3))
                    lines.append("C_GetAttributeValue s=%d o=%d tpl=%s" % (m.s, k.h, tpl([(sa, spec), (C.CKA_KEY_TYPE, Out(8))])))
                    plan.append((sa, shape, 0, 2))
            rs = p.batch(lines)
            for r, (sa, shape, pos, cnt) in zip(rs, plan):
                ent = r["attrs"][pos]
                ctx.count("reads")
                an = C.CKA_NAMES.get(sa, hex(sa))
                if protected:
                    ctx.count("reads_protected")
                    sigb = "C02|read|%s|%s|%s|%s" % (an, k.kind, "single" if cnt == 1 else "mixed", shape)
                    if r["rv"] == 0:
                        ctx.report(sigb + "|returned-CKR_OK", {"origin": k.origin, "answer": r})
                    elif cnt == 1 and r["rv"] != C.CKR_ATTRIBUTE_SENSITIVE:
                        ctx.report(sigb + "|not-CKR_ATTRIBUTE_SENSITIVE", {"origin": k.origin, "rv": r["rv"]})
                    if ent[1] != -1:
                        ctx.report(sigb + "|length-not-CK_UNAVAILABLE_INFORMATION", {"origin": k.origin, "len": ent[1]})
                    if len(ent) > 3 and ent[3] != 0:
                        ctx.report(sigb + "|buffer-written", {"origin": k.origin, "wmax": ent[3]})
                else:
                    ctx.count("reads_unprotected_ok" if r["rv"] == 0 else "reads_unprotected_other")
                blob_hex = "".join(e[2] for e in r["attrs"] if isinstance(e[2], str))
                for w in taint:
                    if w in blob_hex:
                        ctx.report("C02|taint|secret-bytes-of-a-protected-key-in-output|%s" % k.kind, {"attr": an, "origin": k.origin})
                        break
            # wrapping
            wl, wp = [], []
            for wname, wh in sorted(m.trusted.items()):
                for wm in WRAP_MECHS:
                    if wname.startswith("rsa") != (wm in (C.CKM_RSA_PKCS, C.CKM_RSA_PKCS_OAEP)):
                        continue
                    from p11mc.p11 import oaep_params
                    ms = mech(wm, IV16) if wm in (C.CKM_AES_CBC_PAD, C.CKM_AES_CBC) else (mech(wm, oaep_params()) if wm == C.CKM_RSA_PKCS_OAEP else mech(wm))
                    wl.append("C_WrapKey s=%d mech=%s wk=%d k=%d out=b2500" % (m.s, ms, wh, k.h))
                    wp.append((wname, wm))
            rs = p.batch(wl)
            for r, (wname, wm) in zip(rs, wp):
                ctx.count("wraps")
                okk = r["rv"] == 0
                mn = C.CKM_NAMES.get(wm, hex(wm))
                if okk and (k.unextr or not e_act):
                    ctx.report("C02|wrap|unextractable-key-wrapped|%s|%s" % (k.kind, mn), {"origin": k.origin, "wrapper": wname})
                if okk and (k.wwt or w_act) and not wname.endswith("-trusted"):
                    ctx.report("C02|wrap|wrap-with-trusted-key-wrapped-under-untrusted-key|%s|%s" % (k.kind, mn), {"origin": k.origin, "wrapper": wname})
                ctx.count("wraps_ok" if okk else "wraps_refused")
                if okk and taint and any(w in r.get("out", "") for w in taint):
                    ctx.report("C02|taint|secret-bytes-in-wrapped-blob|%s|%s" % (k.kind, mn), {})

    def key(self, ctx, m):
        return tuple((k.kind, k.origin, k.sens, k.unextr, k.wwt) for k in m.keys)

    def died_sig(self, action, d):
        return "C02|%s|%r" % (action[0] if action else None, d.info)


# ------------------------------------------------------------------------------------------------ template-length ladder
_F1 = [(C.CKA_LABEL, b"ladder"), (C.CKA_ID, b"id"), (C.CKA_ENCRYPT, True), (C.CKA_DECRYPT, True), (C.CKA_SIGN, True), (C.CKA_VERIFY, True), (C.CKA_WRAP, False), (C.CKA_UNWRAP, False),
       (C.CKA_DERIVE, True), (C.CKA_WRAP_WITH_TRUSTED, False), (C.CKA_COPYABLE, True), (C.CKA_DESTROYABLE, True), (C.CKA_MODIFIABLE, True), (C.CKA_START_DATE, b"20200101"), (C.CKA_END_DATE, b"20400101")]
# the same harmless entries again (a repeated attribute is legal in a derive template and takes another slot), until well beyond any internal capacity
FILLERS = _F1 + [(t, (v + b"-%d" % i) if isinstance(v, bytes) and t in (C.CKA_LABEL, C.CKA_ID) else v) for i in (2, 3) for (t, v) in _F1]


def _ladder_task(task):
    """inherited protections at EVERY template length: a key concatenated from a sensitive / unextractable key with a template that asks for
    CKA_SENSITIVE=false, CKA_EXTRACTABLE=true plus n-2 harmless entries, n = 2 .. 34 (internal template buffers have a fixed capacity)"""
    import traceback
    from p11mc import core as _core
    ctx = _core._W["ctx"]
    p, sh = ctx.p, ctx.sh
    out = {"viol": {}, "harness": None, "derived": 0, "refused": 0, "cells": 0}

    def V(sig, det):
        out["viol"].setdefault(sig, {"signature": sig, "detail": det, "task": list(task), "history": [], "action": None})
    try:
        sh.snap(copy=False)
        try:
            s = W.ok(p.OpenSession(ctx.world["slots"]["A"]), "open")["h"]
            r_ = p.Login(s, C.CKU_USER, W.USER_A)
            if r_["rv"] not in (0, C.CKR_USER_ALREADY_LOGGED_IN):
                raise RuntimeError("login -> %r" % r_)
            secret = bytes(range(1, 33))
            plain = W.ok(p.CreateObject(s, F.template("generic32", token=False, private=False, label=b"plain", extra=[(C.CKA_DERIVE, True)])), "plain")["h"]
            for pname, flags in (("sensitive", [(C.CKA_SENSITIVE, True), (C.CKA_EXTRACTABLE, True)]), ("unextractable", [(C.CKA_SENSITIVE, False), (C.CKA_EXTRACTABLE, False)])):
                T0 = [x for x in F.template("generic32", token=False, private=False, label=b"protected", extra=[(C.CKA_DERIVE, True)], plain=False) if x[0] != C.CKA_VALUE] + flags + [(C.CKA_VALUE, secret)]
                prot = W.ok(p.CreateObject(s, T0), "protected " + pname)["h"]
                wk = W.ok(p.CreateObject(s, F.template("aes128", token=False, private=False, label=b"wk", extra=[(C.CKA_WRAP, True)])), "wk")["h"]
                for mname, dm, base in (("base-and-data", mech(C.CKM_CONCATENATE_BASE_AND_DATA, keyderiv_string(b"DATADATA")), prot),
                                        ("data-and-base", mech(C.CKM_CONCATENATE_DATA_AND_BASE, keyderiv_string(b"DATADATA")), prot),
                                        ("base-and-key/protected-base", mech(C.CKM_CONCATENATE_BASE_AND_KEY, ul(plain)), prot),
                                        ("base-and-key/protected-other", mech(C.CKM_CONCATENATE_BASE_AND_KEY, ul(prot)), plain)):
                    for n in range(2, len(FILLERS) + 3):
                        T = [(C.CKA_SENSITIVE, False), (C.CKA_EXTRACTABLE, True)] + FILLERS[:n - 2]
                        r = p.DeriveKey(s, dm, base, T)
                        out["cells"] += 1
                        if r["rv"] != 0:
                            out["refused"] += 1
                            continue
                        out["derived"] += 1
                        h = r["h"]
                        g = p.get_attrs(s, h, [C.CKA_SENSITIVE, C.CKA_EXTRACTABLE])
                        rv_val = p.GetAttributeValue(s, h, [(C.CKA_VALUE, Out(80))])
                        leaked = rv_val["rv"] == 0 or secret[:8].hex() in json.dumps(rv_val)
                        sigb = "C02|template-length|%s|%s-parent" % (mname, pname)
                        if pname == "sensitive" and g.get(C.CKA_SENSITIVE) is not True:
                            V(sigb + "|CKA_SENSITIVE-not-inherited", {"template_entries": n, "got": repr(g)})
                        if pname == "unextractable" and g.get(C.CKA_EXTRACTABLE) is not False:
                            V(sigb + "|CKA_EXTRACTABLE-not-inherited", {"template_entries": n, "got": repr(g)})
                        if leaked:
                            V(sigb + "|value-of-derived-key-readable", {"template_entries": n, "rv": rv_val["rv"]})
                        if pname == "unextractable":
                            rw = p.call("C_WrapKey s=%d mech=%s wk=%d k=%d out=b200" % (s, mech(C.CKM_AES_KEY_WRAP_PAD), wk, h))
                            if rw["rv"] == 0:
                                V(sigb + "|derived-key-can-be-wrapped", {"template_entries": n})
                        p.DestroyObject(s, h)
        finally:
            sh.unwind(0)
    except Exception:
        out["harness"] = "ladder: " + traceback.format_exc()
    out["viol"] = list(out["viol"].values())
    return out


def main(tier):
    rep = Report("C02", tier, "model_checking")
    quick = tier == "quick"
    variant = "ossl-asan" if quick else "ossl-plain"
    deadline = time.time() + (600 if quick else 1700)
    depth = 3 if quick else 6
    ex = Explorer(C02(max_keys=2), variant=variant, deadline=deadline)
    try:
        fix = ex.bfs(depth)
        done = fix or ex.stats["depth_completed"] >= depth
        confirm_violations(ex, rep)
        st = ex.stats
        c = st["counters"]
        if not c.get("reads_protected") or not c.get("reads_unprotected_ok") or not c.get("wraps_ok") or not c.get("wraps_refused"):
            rep.harness_errors.append("vacuous: %r" % c)
        rep.coverage = {"states": st["states"], "transitions": st["transitions"], "traces_validated_against_impl": st["states"],
                        "samples": ex.samples[:4], "exhaustive": bool(done), "levels": st["levels"], "depth_bound": depth, "outcome_counters": c, "variant": variant,
                        "rule": "level 1 = every (origin x key kind x requested SENSITIVE/EXTRACTABLE) root; deeper levels = set/copy/concatenate histories; states merged on "
                                "(kind, origin, model protections) of the live keys; in every state all secret attributes are read in 15 template/buffer shapes and "
                                "the key is wrapped under 4 wrapping keys x all wrap mechanisms"}
        # template-length ladder (one task; replayed once before it is reported)
        lr = ex.pool.apply(_ladder_task, (("ladder",),))
        if lr["harness"]:
            rep.harness_errors.append(lr["harness"])
        if lr["viol"]:
            again = {v["signature"] for v in ex.pool.apply(_ladder_task, (("ladder",),))["viol"]}
            for v in lr["viol"]:
                if v["signature"] in again:
                    v = dict(v); v.update(variant=variant, store="file", replay_module="c02_sensitive")
                    rep.add_violation(v)
                else:
                    rep.harness_errors.append("ladder violation %s did not reproduce" % v["signature"])
        if lr["derived"] < 50:
            rep.harness_errors.append("vacuous template-length ladder: %r" % {k: lr[k] for k in ("cells", "derived", "refused")})
        rep.coverage["template_length_ladder"] = {k: lr[k] for k in ("cells", "derived", "refused")}
        rep.assumptions = ["key kinds: AES, generic, RSA, EC, DSA, DH, Ed25519 private keys (single DES is unusable on this image's OpenSSL)",
                           "taint scan covers keys whose value the harness knows (imported ones and their copies/concatenations)"]
    finally:
        ex.close()
    return rep.finish()
