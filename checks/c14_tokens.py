"""C14 - token initialisation, re-initialisation and isolation between tokens (DESIGN.md 3/C14).

BFS over histories of C_InitToken (free slot / re-initialisation with right or wrong SO PIN, with or without an open
session), PIN changes, object creation/destruction, held sessions and library restarts on tokens A, B and the token C
that C_InitToken creates on the free slot.  After EVERY action the complete observation of EVERY token (label, serial,
initialised / user-PIN-initialised flags, which PINs log in, the set of objects with a digest of all their attributes,
state of held sessions, exactly one uninitialised slot) is compared with the per-token model - so anything an action on
T changes on another token is seen - and after a restart each token must sit on the same slot as after any earlier restart.
"""
import os
import hashlib, os, subprocess, time
from p11mc import consts as C
from p11mc.core import CheckBase, Explorer, Violation, confirm_violations
from p11mc.runner import Report
from p11mc import world as W, fixtures as F, snapshot as S, p11 as P

SO = {"A": [W.SO_A, b"so-pin-A-alt-7"], "B": [W.SO_B, b"so-pin-B-alt-7"], "C": [b"so-pin-C-0003", b"so-pin-C-alt-7"]}
USER = {"A": [W.USER_A, b"user-pin-A-alt"], "B": [W.USER_B, b"user-pin-B-alt"], "C": [b"user-pin-C-03", b"user-pin-C-alt"]}
FLAGMASK = C.CKF_TOKEN_INITIALIZED | C.CKF_USER_PIN_INITIALIZED | C.CKF_LOGIN_REQUIRED


class Tok:
    def __init__(self, exists, so=0, user=0):
        self.exists = exists
        self.so, self.user = so, user           # indexes; user None = not initialised
        self.objs = {}                          # label -> (private, digest)
        self.held = 0                           # number of held (public RW) sessions
        self.serial = None
        self.restart_slot = None                # slot id seen after a restart (must never change)


class Model:
    def __init__(self):
        self.tok = {"A": Tok(True), "B": Tok(True), "C": Tok(False)}
        self.slot = {}
        self.nobj = 0
        self.held = []      # [handle, token]


def digest(attr_tuple):
    return hashlib.sha1(repr(attr_tuple).encode()).hexdigest()[:16]


class C14(CheckBase):
    ID = "C14"

    def __init__(self, tokens=("A", "B"), third=True, util=False):
        self.kw = dict(tokens=tuple(tokens), third=third, util=util)
        self.tokens, self.third, self.util = list(tokens), third, util

    def world(self, ctx):
        w = W.two_tokens(ctx)
        return w

    def setup(self, ctx, world):
        W.ok(ctx.p.Initialize(), "init")
        m = Model()
        m.slot = {"A": world["slots"]["A"], "B": world["slots"]["B"]}
        for t in ("A", "B"):
            m.tok[t].serial = world["serial"][t]
            m.tok[t].restart_slot = world["slots"][t]
        return m

    def actions(self, m):
        acts = []
        live = [t for t in ("A", "B", "C") if m.tok[t].exists and (t in self.tokens or t == "C")]
        for t in live:
            tk = m.tok[t]
            acts.append(("reinit", t, "right"))
            acts.append(("reinit", t, "wrong"))
            acts.append(("initpin", t, 1 if tk.user == 0 else 0))
            if tk.user is not None:
                acts.append(("setpin-user", t, 1 - tk.user))
                if len(tk.objs) < 2:
                    acts.append(("create", t, 1))
            acts.append(("setpin-so", t, 1 - tk.so))
            if len(tk.objs) < 2:
                acts.append(("create", t, 0))
            if tk.objs:
                acts.append(("destroy", t))
            if tk.held == 0:
                acts.append(("hold", t))
            else:
                acts.append(("closeall", t))
        if self.third and not m.tok["C"].exists:
            acts.append(("init-free",))
            if self.util:
                acts.append(("util-init-free",))
        if self.util:
            for t in live:
                acts.append(("util-delete", t))
        acts.append(("restart",))
        return acts

    def run_util(self, ctx, args):
        """softhsm2-util of the same build on the shell's current token directory, while the library instance in the shell is finalised"""
        import subprocess
        from p11mc import p11 as P
        bdir = os.path.join(os.environ.get("VERIF_BUILD", os.path.join(P.VERIF, "build")), ctx.variant)
        e = dict(os.environ)
        e["SOFTHSM2_CONF"] = "softhsm2.conf"
        e["ASAN_OPTIONS"] = "detect_leaks=0:abort_on_error=0"
        r = subprocess.run([os.path.join(bdir, "softhsm2-util"), "--module", os.path.join(bdir, "libsofthsm2.so")] + args, cwd=ctx.sh.pwd(), env=e,
                           stdout=subprocess.PIPE, stderr=subprocess.STDOUT, timeout=60)
        return r.returncode, r.stdout.decode("latin1")[-600:]

    # ---- observation of one token (in a throw-away snapshot)
    def observe(self, ctx, m, t):
        p = ctx.p
        tk = m.tok[t]
        slot = m.slot[t]
        ti = p.GetTokenInfo(slot)
        if ti["rv"] != 0:
            return {"present": False, "rv": ti["rv"]}
        o = {"present": True, "label": W.label_of(ti), "serial": ti["serial"], "flags": ti["flags"] & FLAGMASK}
        r = p.OpenSession(slot)
        if r["rv"] != 0:
            o["open_rv"] = r["rv"]
            return o
        s = r["h"]
        pins = {}
        for uname, ut, table, cur in (("so", C.CKU_SO, SO[t], tk.so), ("user", C.CKU_USER, USER[t], tk.user)):
            for i, pin in enumerate(table):
                if uname == "so" and tk.held:
                    pass
                r = p.Login(s, ut, pin)
                pins[(uname, i)] = r["rv"] == 0
                if r["rv"] == 0:
                    p.Logout(s)
        o["pins"] = pins
        objs = {}
        logged = False
        if tk.user is not None and p.Login(s, C.CKU_USER, USER[t][tk.user])["rv"] == 0:
            logged = True
        hs = sorted(p.FindAll(s).get("hs", []))
        for h, at in S.read_objects(p, s, hs).items():
            lab = dict((a, v) for a, v in at).get(C.CKA_LABEL)
            objs[lab] = digest(at)
        o["objects"] = objs
        o["logged"] = logged
        if logged:
            p.Logout(s)
        p.CloseSession(s)
        return o

    def check_all(self, ctx, m, a, acted_on):
        p, sh = ctx.p, ctx.sh
        # exactly one uninitialised slot
        n = p.GetSlotList(1, "q")["n"]
        r = p.GetSlotList(1, n + 2)
        uninit = 0
        for sl in r["slots"]:
            ti = p.GetTokenInfo(sl)
            if ti["rv"] == 0 and not (ti["flags"] & C.CKF_TOKEN_INITIALIZED):
                uninit += 1
        if uninit != 1:
            raise Violation("C14|%s|uninitialised-slots=%d" % (a[0], uninit), {"slots": r["slots"]})
        for h, t in m.held:
            info = p.GetSessionInfo(h)
            if info["rv"] != 0 or info.get("slot") != m.slot[t] or info.get("state") != C.CKS_RW_PUBLIC_SESSION:
                raise Violation("C14|%s|held-session-of-%s-token-disturbed" % (a[0], "same" if t == acted_on else "other"), {"info": info, "token": t, "acted_on": acted_on})
        d0 = sh.depth
        sh.snap()
        try:
            for t in ("A", "B", "C"):
                tk = m.tok[t]
                if not tk.exists:
                    continue
                o = self.observe(ctx, m, t)
                rel = "same" if t == acted_on else "other"
                if not o["present"] or "open_rv" in o:
                    raise Violation("C14|%s|%s-token-unusable" % (a[0], rel), {"token": t, "obs": o})
                if o["label"] != t:
                    raise Violation("C14|%s|%s-token-label-changed" % (a[0], rel), {"token": t, "label": o["label"]})
                if tk.serial is not None and o["serial"] != tk.serial:
                    raise Violation("C14|%s|%s-token-serial-changed" % (a[0], rel), {"token": t})
                wantflags = C.CKF_TOKEN_INITIALIZED | C.CKF_LOGIN_REQUIRED | (C.CKF_USER_PIN_INITIALIZED if tk.user is not None else 0)
                if o["flags"] != wantflags:
                    raise Violation("C14|%s|%s-token-flags|user-pin-initialised=%s" % (a[0], rel, bool(o["flags"] & C.CKF_USER_PIN_INITIALIZED)), {"token": t, "flags": o["flags"], "want": wantflags})
                for (uname, i), okk in o["pins"].items():
                    cur = tk.so if uname == "so" else tk.user
                    should = cur is not None and i == cur
                    if okk != should:
                        raise Violation("C14|%s|%s-token-%s-pin-%s" % (a[0], rel, uname, "wrongly-accepted" if okk else "lost"), {"token": t, "pin_index": i, "model": cur})
                want = {lab: dg for lab, (prv, dg) in tk.objs.items() if not prv or o["logged"]}
                if o["objects"] != want:
                    extra = set(o["objects"]) - set(want)
                    missing = set(want) - set(o["objects"])
                    kind = "object-appeared" if extra else ("object-lost" if missing else "object-attributes-changed")
                    raise Violation("C14|%s|%s-token-%s" % (a[0], rel, kind), {"token": t, "extra": sorted(extra), "missing": sorted(missing)})
                ctx.count("token_observations")
        finally:
            sh.unwind(d0)

    def with_session(self, ctx, m, t, login):
        p = ctx.p
        s = W.ok(p.OpenSession(m.slot[t]), "open")["h"]
        tk = m.tok[t]
        if login == "so":
            W.ok(p.Login(s, C.CKU_SO, SO[t][tk.so]), "login so")
        elif login == "user":
            W.ok(p.Login(s, C.CKU_USER, USER[t][tk.user]), "login user")
        return s

    def end_session(self, ctx, m, t, s, login):
        if login:
            ctx.p.Logout(s)
        ctx.p.CloseSession(s)

    def token_dir_objects(self, ctx, m, t):
        """number of object files in the token's directory (file store), judged from the raw directory"""
        root = os.path.join(ctx.sh.pwd(), "tokens")
        n = {}
        for d in os.listdir(root):
            q = os.path.join(root, d)
            if os.path.isdir(q):
                n[d] = sorted(f for f in os.listdir(q) if f.endswith(".object") and f != "token.object")
        return n

    def step(self, ctx, m, a):
        p = ctx.p
        k = a[0]
        t = a[1] if len(a) > 1 else None
        tk = m.tok[t] if t else None
        if k == "reinit":
            before_dirs = self.token_dir_objects(ctx, m, t) if ctx.store == "file" else None
            r = p.InitToken(m.slot[t], SO[t][tk.so] if a[2] == "right" else W.WRONG, t)
            allowed = a[2] == "right" and tk.held == 0
            if r["rv"] == 0:
                if not allowed:
                    raise Violation("C14|reinit|accepted-%s" % ("with-wrong-so-pin" if a[2] != "right" else "with-open-session"), {"token": t})
                nobj = len(tk.objs)
                tk.user = None
                tk.objs = {}
                ctx.count("reinit_ok")
                if before_dirs is not None:
                    after = self.token_dir_objects(ctx, m, t)
                    total_after = sum(len(v) for v in after.values())
                    want_total = sum(len(x.objs) for x in m.tok.values() if x.exists)
                    if total_after != want_total:
                        raise Violation("C14|reinit|object-files-left-in-directory", {"before": before_dirs, "after": after, "model_total": want_total})
            else:
                if allowed:
                    # correct SO PIN and no session of THIS token open: the only things that may stand in the way are those two (in particular nothing
                    # that happened on another token may - isolation)
                    raise Violation("C14|reinit|refused-with-correct-so-pin-and-no-open-session|%s" % C.CKR_NAMES.get(r["rv"], hex(r["rv"])),
                                    {"token": t, "sessions_held_on_other_tokens": {x: m.tok[x].held for x in m.tok if x != t and m.tok[x].exists}})
                ctx.count("reinit_refused")
        elif k == "initpin":
            s = self.with_session(ctx, m, t, "so")
            r = p.InitPIN(s, USER[t][a[2]])
            self.end_session(ctx, m, t, s, True)
            if r["rv"] == 0:
                tk.user = a[2]
                ctx.count("initpin_ok")
        elif k == "setpin-user":
            s = self.with_session(ctx, m, t, "user")
            r = p.SetPIN(s, USER[t][tk.user], USER[t][a[2]])
            self.end_session(ctx, m, t, s, True)
            if r["rv"] == 0:
                tk.user = a[2]
                ctx.count("setpin_ok")
        elif k == "setpin-so":
            if tk.held:
                # a held RO-free public session does not block SO login (RW sessions only)
                pass
            s = self.with_session(ctx, m, t, "so")
            r = p.SetPIN(s, SO[t][tk.so], SO[t][a[2]])
            self.end_session(ctx, m, t, s, True)
            if r["rv"] == 0:
                tk.so = a[2]
                ctx.count("setpin_ok")
        elif k == "create":
            prv = bool(a[2])
            s = self.with_session(ctx, m, t, "user" if prv else None)
            lab = b"c14-%s-%04d" % (t.encode(), m.nobj)
            r = p.CreateObject(s, F.template("aes128", token=True, private=prv, label=lab, ident=lab))
            if r["rv"] == 0:
                at = S.read_objects(p, s, [r["h"]])[r["h"]]
                tk.objs[lab] = (prv, digest(at))
                m.nobj += 1
                ctx.count("create_ok")
            self.end_session(ctx, m, t, s, prv)
        elif k == "destroy":
            lab = sorted(tk.objs)[0]
            prv = tk.objs[lab][0]
            s = self.with_session(ctx, m, t, "user" if prv else None)
            hs = p.FindAll(s, [(C.CKA_LABEL, lab)]).get("hs", [])
            if len(hs) == 1 and p.DestroyObject(s, hs[0])["rv"] == 0:
                del tk.objs[lab]
                ctx.count("destroy_ok")
            self.end_session(ctx, m, t, s, prv)
        elif k == "hold":
            r = p.OpenSession(m.slot[t])
            if r["rv"] == 0:
                tk.held += 1
                m.held.append((r["h"], t))
        elif k == "closeall":
            if p.CloseAllSessions(m.slot[t])["rv"] == 0:
                tk.held = 0
                m.held = [x for x in m.held if x[1] != t]
        elif k == "init-free":
            sm = W.slot_map(p)
            r = p.InitToken(sm["free"], SO["C"][0], "C")
            if r["rv"] != 0:
                raise Violation("C14|init-free|refused", {"rv": r["rv"]})
            ck = m.tok["C"]
            ck.exists, ck.so, ck.user = True, 0, None
            m.slot["C"] = sm["free"]
            ck.serial = p.GetTokenInfo(sm["free"])["serial"]
            ctx.count("init_free_ok")
        elif k in ("restart", "util-init-free", "util-delete"):
            serial_now = p.GetTokenInfo(m.slot[t]).get("serial") if k == "util-delete" else None
            W.ok(p.Finalize(), "final")
            if k == "util-init-free":
                rc, outp = self.run_util(ctx, ["--init-token", "--free", "--label", "C", "--so-pin", SO["C"][0].decode(), "--pin", USER["C"][0].decode()])
                if rc != 0:
                    raise Violation("C14|util-init-free|softhsm2-util-failed", {"rc": rc, "output": outp})
                ck = m.tok["C"]
                ck.exists, ck.so, ck.user, ck.objs, ck.restart_slot, ck.serial = True, 0, 0, {}, None, None
                ctx.count("util_init_ok")
            elif k == "util-delete":
                # a token is named by its complete label or serial: a proper prefix of the serial (and a label that no token has) must delete nothing
                root = os.path.join(ctx.sh.pwd(), "tokens")
                before = sorted(os.listdir(root))
                try:
                    serial_txt = bytes.fromhex(serial_now or "").decode("latin1").strip()      # the shell reports the 16 serial characters hex-encoded
                except ValueError:
                    serial_txt = ""
                for what, args in (("serial-prefix", ["--serial", serial_txt[:8]]), ("unknown-label", ["--token", t + "x"])):
                    if what == "serial-prefix" and len(serial_txt) < 16:
                        continue
                    rc, outp = self.run_util(ctx, ["--delete-token"] + args)
                    ctx.count("util_delete_refusals_probed")
                    if rc == 0 or sorted(os.listdir(root)) != before:
                        raise Violation("C14|util-delete|token-deleted-by-%s" % what, {"rc": rc, "output": outp, "token": t, "argument": args})
                rc, outp = self.run_util(ctx, ["--delete-token", "--token", t])
                if rc != 0:
                    raise Violation("C14|util-delete|softhsm2-util-failed", {"rc": rc, "output": outp, "token": t})
                tk.exists, tk.objs, tk.restart_slot, tk.held, tk.serial = False, {}, None, 0, None
                ctx.count("util_delete_ok")
            W.ok(p.Initialize(), "init")
            sm = W.slot_map(p)
            for tt in ("A", "B", "C"):
                if not m.tok[tt].exists and tt in sm:
                    raise Violation("C14|%s|deleted-token-found-again" % k, {"token": tt, "slots": sm})
            for tt in ("A", "B", "C"):
                x = m.tok[tt]
                if not x.exists:
                    continue
                if tt not in sm:
                    raise Violation("C14|restart|token-not-found-again", {"token": tt, "slots": sm})
                if x.restart_slot is not None and sm[tt] != x.restart_slot:
                    raise Violation("C14|restart|slot-of-token-changed", {"token": tt, "before": x.restart_slot, "after": sm[tt]})
                x.restart_slot = sm[tt]
                m.slot[tt] = sm[tt]
                x.held = 0
                if x.serial is None:
                    x.serial = p.GetTokenInfo(sm[tt])["serial"]
            m.held = []
            ctx.count("restart_ok")
        else:
            raise RuntimeError(a)
        self.check_all(ctx, m, a, t)
        return m

    def probe(self, ctx, m):
        """look-ahead on EVERY transition's target (before states are merged): a token with no session open must accept a re-initialisation with its SO PIN
        right now - whatever the history (sessions of this or of other tokens opened and closed in any order) left behind in the library"""
        p, sh = ctx.p, ctx.sh
        for t in ("A", "B", "C"):
            tk = m.tok[t]
            if not tk.exists or (t not in self.tokens and t != "C"):
                continue
            if tk.held != 0:
                # ... and a token that HAS an open session must refuse it right now, wherever its session sits among the closed ones of other tokens
                d0 = sh.depth
                sh.snap()
                try:
                    r = p.InitToken(m.slot[t], SO[t][tk.so], t)
                    ctx.count("lookahead_reinit_with_session")
                    if r["rv"] == 0:
                        raise Violation("C14|reinit|accepted-with-correct-so-pin-although-a-session-is-open",
                                        {"token": t, "lookahead": True, "sessions_held": {x: m.tok[x].held for x in m.tok if m.tok[x].exists}, "opening_order": [tt for _h, tt in m.held]})
                finally:
                    sh.unwind(d0)
                continue
            d0 = sh.depth
            sh.snap()
            try:
                r = p.InitToken(m.slot[t], SO[t][tk.so], t)
                ctx.count("lookahead_reinit")
                if r["rv"] != 0:
                    raise Violation("C14|reinit|refused-with-correct-so-pin-and-no-open-session|%s" % C.CKR_NAMES.get(r["rv"], hex(r["rv"])),
                                    {"token": t, "lookahead": True, "sessions_held_on_other_tokens": {x: m.tok[x].held for x in m.tok if x != t and m.tok[x].exists}})
            finally:
                sh.unwind(d0)

    def key(self, ctx, m):
        # the ORDER in which the held sessions were opened is part of the state: the library keeps all sessions of all tokens in one table, and what
        # happens to one token's sessions must not depend on where another token's sessions sit in it (merging both orders would explore only one)
        # ... and so are ALL token flags the library reports right now (PIN-count warnings left by failed attempts are state the model does not carry;
        # merging a state with such a warning into one without would leave the continuations of the former unexplored)
        flags = tuple((t, ctx.p.GetTokenInfo(m.slot[t]).get("flags")) for t in sorted(m.tok) if m.tok[t].exists and t in m.slot)
        return tuple((n, x.exists, x.so, x.user, tuple(sorted(p for p, d in x.objs.values())), x.held, x.restart_slot is not None) for n, x in sorted(m.tok.items())) + (tuple(t for _h, t in m.held), flags)

    def died_sig(self, action, d):
        return "C14|%s|%r" % (action[0] if action else None, d.info)


def main(tier):
    rep = Report("C14", tier, "model_checking")
    quick = tier == "quick"
    variant = "ossl-asan" if quick else "ossl-plain"
    deadline = time.time() + (600 if quick else 1700)
    depth = 4 if quick else 5
    # quick: the library-only alphabet to depth 4 and, separately, the alphabet with the softhsm2-util actions to depth 3; thorough: everything to depth 5
    util_cov = None
    if quick:
        exu = Explorer(C14(util=True), variant=variant, deadline=deadline)
        try:
            fixu = exu.bfs(3)
            confirm_violations(exu, rep)
            util_cov = {"depth": 3, "states": exu.stats["states"], "transitions": exu.stats["transitions"], "complete": bool(fixu or exu.stats["depth_completed"] >= 3),
                        "counters": {k: v for k, v in exu.stats["counters"].items() if k.startswith("util")}}
        finally:
            exu.close()
    ex = Explorer(C14(util=not quick), variant=variant, deadline=deadline)
    try:
        fix = ex.bfs(depth)
        done = fix or ex.stats["depth_completed"] >= depth
        confirm_violations(ex, rep)
        st = ex.stats
        c = st["counters"]
        if util_cov is not None and not (util_cov["counters"].get("util_init_ok") and util_cov["counters"].get("util_delete_ok")):
            rep.harness_errors.append("vacuous softhsm2-util pass: %r" % util_cov)
        if not c.get("reinit_ok") or not c.get("restart_ok") or not c.get("init_free_ok"):
            rep.harness_errors.append("vacuous: %r" % c)
        rep.coverage = {"states": st["states"], "transitions": st["transitions"], "traces_validated_against_impl": st["states"],
                        "samples": ex.samples[:4], "exhaustive": bool(done), "levels": st["levels"], "depth_bound": depth, "outcome_counters": c, "variant": variant, "softhsm2_util_pass": util_cov,
                        "rule": "histories up to the depth bound merged on the per-token model (exists, PIN indexes, object privacy multiset, held sessions, restarted); "
                                "after every action every token is observed completely in a throw-away snapshot and compared with the model"}
        # the SQLite store: the same alphabet one level shallower (successors reached in restoring snapshots)
        ddepth = depth - 1
        # (library-only alphabet in both tiers: the softhsm2-util actions create and delete token directories, which the restoring in-place snapshots of the
        #  SQLite lane do not undo reliably - the first thorough run with them ended in non-reproducible observations, i.e. harness errors)
        exd = Explorer(C14(util=False), variant=variant, store="db", deadline=deadline)
        try:
            fixd = exd.bfs(ddepth)
            confirm_violations(exd, rep)
            sd = exd.stats
            if not sd["counters"].get("reinit_ok") or not sd["counters"].get("restart_ok") or not sd["counters"].get("init_free_ok"):
                rep.harness_errors.append("vacuous (SQLite lane): %r" % sd["counters"])
            rep.coverage["sqlite_store"] = {"states": sd["states"], "transitions": sd["transitions"], "levels": sd["levels"], "depth_bound": ddepth,
                                            "exhaustive": bool(fixd or sd["depth_completed"] >= ddepth), "outcome_counters": sd["counters"]}
            rep.coverage["exhaustive"] = bool(rep.coverage["exhaustive"] and rep.coverage["sqlite_store"]["exhaustive"])
        finally:
            exd.close()
        rep.assumptions = ["file store to the full depth, SQLite store one level shallower; softhsm2-util (--init-token --free, --delete-token) of the same build runs on the directory while the library instance is finalised", "two PIN values per user type and token; objects are AES token keys"]
    finally:
        ex.close()
    return rep.finish()
